#!/usr/bin/env python3
"""vdebug.py <family module> <contract name> <label prefix> [timeout_ms]: per-instance solver results."""
import sys, time, importlib
sys.path.insert(0, '/verif'); sys.setrecursionlimit(20000)
import z3
from pyvc.verify import verify_function, cvc5_check
fam = importlib.import_module(sys.argv[1]).build()
c = fam.world.contracts[sys.argv[2]]
pref = sys.argv[3]
tmo = int(sys.argv[4]) if len(sys.argv) > 4 else 20000
r = verify_function(fam.world, c, discharge=False)
print('undecided:', r.undecided, 'paths', r.paths)
for ob in r.obligations:
    if ob.label.startswith(pref):
        for cfg in [{'smt.mbqi': False, 'smt.auto_config': False}, {}]:
            s = z3.Solver(); s.set('timeout', tmo)
            for k, v in cfg.items(): s.set(k, v)
            for h in ob.hyps: s.add(h)
            s.add(z3.Not(ob.goal))
            t = time.time(); res = s.check()
            print(ob.label, 'path', ob.path_id, 'cfg', 'ematch' if cfg else 'default', res, round(time.time() - t, 2), 'hyps', len(ob.hyps))
            if res != z3.unknown: break
        if '--dump' in sys.argv:
            for h in ob.hyps: print('H', h)
            print('G', ob.goal)
