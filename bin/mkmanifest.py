#!/usr/bin/env python3
"""Regenerate MANIFEST.json from contracts/registry.py (claimed checks + not_applicable)."""
import json, os, sys
ROOT = os.path.dirname(os.path.dirname(os.path.abspath(__file__)))
sys.path.insert(0, ROOT)
from contracts.registry import PROPS, NOT_APPLICABLE, SOURCE_COMMITS
props = [json.loads(l) for l in open(os.path.join(ROOT, 'properties.jsonl'))]
checks = []
for p in props:
    pid = p['id']
    if pid not in PROPS:
        continue
    r = PROPS[pid]
    checks.append({
        'property_id': pid,
        'quick_cmd': 'bin/verif check %s --tier quick' % pid,
        'thorough_cmd': 'bin/verif check %s --tier thorough' % pid,
        'evidence_file': 'evidence/%s.json' % pid,
        'replay_cmd_template': 'bin/verif replay {path}',
        'engine': 'pyvc',
        'level_claimed': {'category': r['level'], 'text': r['text'], 'design_ref': r.get('design_ref', 'DESIGN.md section 7')},
        'level_note': r['level_note'],
        'technique': r['technique'],
    })
na = [{'property_id': p['id'], 'reason': NOT_APPLICABLE.get(p['id'], 'no check built yet (build in progress)')}
      for p in props if p['id'] not in PROPS]
m = {
 'version': 1,
 'setup_cmd': 'bin/verif setup',
 'hooks': {'guard': 'DJANGO_EVOLUTION_VERIF',
           'enable': 'none needed: contracts are sidecar files under /verif/contracts and ghost state lives in the verifier; /repo carries no hooks',
           'baseline_off_cmd': 'cd /repo && /venv/bin/python -m pytest -ra -q -p no:cacheprovider --timeout=900 --continue-on-collection-errors',
           'source_commits': SOURCE_COMMITS, 'add_only': True},
 'engines': [{'name': 'pyvc', 'path': 'pyvc/', 'serves_properties': sorted(PROPS),
              'kind_free_text': 'contract-based deductive verification: VC generation from the ast of the real /repo functions (re-read every run) against sidecar contracts, discharged by z3 5.1 with cvc5 as second opinion; native replay adapters; labelled bounded stand-ins'}],
 'checks': checks,
 'notes': 'See DESIGN.md. fix: commits in /repo are listed in known_findings.json (fixed).',
 'not_applicable': na,
}
json.dump(m, open(os.path.join(ROOT, 'MANIFEST.json'), 'w'), indent=1)
print('checks:', [c['property_id'] for c in checks], 'n/a:', [n['property_id'] for n in na])
