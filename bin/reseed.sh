#!/bin/sh
# bin/reseed.sh [name...]: re-run my checks against each stored seeded change (fresh scratch worktree) and update meta.json
HERE="$(cd "$(dirname "$0")/.." && pwd)"; cd "$HERE"
[ $# -gt 0 ] || set -- $(ls seeded)
for N in "$@"; do
  P=$(python3 -c "import json;print(json.load(open('seeded/$N/meta.json'))['property'])")
  W="/var/tmp/verif-reseed-$$"
  git -C /repo worktree add -q --detach "$W" HEAD || exit 3
  if git -C "$W" apply "$HERE/seeded/$N/patch.diff"; then
    out=$(VERIF_REPO="$W" bin/verif check "$P" 2>&1 | grep -E "^(VIOLATION|UNDECIDED|CHECKER|C[0-9]+:)")
  else out="PATCH-DOES-NOT-APPLY"; fi
  git -C /repo worktree remove --force "$W"; rm -rf "$W"
  python3 - "$N" "$out" <<'PY'
import json,sys
n,out=sys.argv[1:3]
p='seeded/%s/meta.json'%n
m=json.load(open(p)); m.setdefault('confirmed_by_me',{})['my_check_output']=out.splitlines(); m['detected']='VIOLATION' in out
json.dump(m,open(p,'w'),indent=1)
print(n, 'DETECTED' if m['detected'] else 'missed', '|', (out.splitlines() or [''])[-1][:150])
PY
done
