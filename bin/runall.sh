#!/bin/sh
# bin/runall.sh [tier]: run every registered check on /repo (regenerates evidence/), print one summary line each
cd "$(dirname "$0")/.."
for p in $(python3 -c "import json;print(' '.join(c['property_id'] for c in json.load(open('MANIFEST.json'))['checks']))"); do
  out=$(bin/verif check $p --tier ${1:-quick} 2>&1); rc=$?
  echo "$out" | grep -E "^(C[0-9]+:|VIOLATION|UNDECIDED|CHECKER)" | cut -c1-180 | sed "s/$/ [rc=$rc]/"
done
