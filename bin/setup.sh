#!/bin/sh
# Build /verif/.venv offline: python 3.12 (same as /venv) + z3/cvc5/etc from the wheelhouse,
# with /venv's site-packages (Django + the repo's deps) visible through a .pth file.
set -e
cd "$(dirname "$0")/.."
if [ -x .venv/bin/python ] && .venv/bin/python -c "import z3, django, jsonschema" 2>/dev/null; then
  exit 0
fi
rm -rf .venv
/venv/bin/python -m venv .venv
PIP_NO_INDEX=1 .venv/bin/pip install -q --no-index --find-links /opt/veriftools/wheels z3-solver cvc5 jsonschema crosshair-tool deal icontract >/dev/null
SP=$(.venv/bin/python -c "import sysconfig;print(sysconfig.get_paths()['purelib'])")
echo "import site; site.addsitedir('/venv/lib/python3.12/site-packages')" > "$SP/zz_repo_venv.pth"
.venv/bin/python -c "import z3, django, jsonschema; print('venv ok', z3.get_version_string(), django.get_version())"
