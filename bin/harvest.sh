#!/bin/sh
# bin/harvest.sh <prop> <seed-dir> <name>: confirm a sub-agent's seeded change myself, store it, run my checks on it.
P="$1"; D="$2"; N="$3"; HERE="$(cd "$(dirname "$0")/.." && pwd)"
[ -f "$D/.scratch/patch.diff" ] || { echo "no patch in $D"; exit 2; }
cd "$D" || exit 2
run_demo() { if grep -q "def test_" .scratch/demo.py && ! grep -q "__main__" .scratch/demo.py; then /venv/bin/python -m pytest -q -p no:cacheprovider .scratch/demo.py >/dev/null 2>&1; else (cd .scratch && /venv/bin/python demo.py >/dev/null 2>&1); fi; echo $?; }
git checkout -q -- django_evolution 2>/dev/null
rc_clean=$(run_demo)
git apply .scratch/patch.diff || { echo "patch does not apply"; exit 2; }
rc_mut=$(run_demo)
tests=$(/venv/bin/python -m pytest -q -p no:cacheprovider --timeout=900 2>&1 | tail -1)
echo "demo on clean tree rc=$rc_clean ; demo with change rc=$rc_mut ; tests: $tests"
mkdir -p "$HERE/seeded/$N"
cp .scratch/patch.diff .scratch/demo.py "$HERE/seeded/$N/"
out=$(cd "$HERE" && VERIF_REPO="$D" bin/verif check "$P" 2>&1 | grep -E "^(VIOLATION|UNDECIDED|CHECKER|C[0-9]+:)")
echo "$out"
python3 - "$D" "$HERE/seeded/$N" "$P" "$rc_clean" "$rc_mut" "$tests" "$out" <<'PY'
import json,sys
d,dst,p,rc_clean,rc_mut,tests,out=sys.argv[1:8]
try: meta=json.load(open(d+'/.scratch/meta.json'))
except Exception: meta={}
meta.update({'property':p,'confirmed_by_me':{'demo_rc_unmodified_tree':int(rc_clean),'demo_rc_with_change':int(rc_mut),'test_suite_with_change':tests,
  'my_check_output':out.splitlines()},'detected':'VIOLATION' in out})
json.dump(meta,open(dst+'/meta.json','w'),indent=1)
PY
