#!/usr/bin/env python3
"""Copy the KNOWN defect classes of the native suites into known_findings.json ('bounded' entries).
Run by hand after triage; the checks never write that file."""
import importlib, json, os, sys
ROOT = os.path.dirname(os.path.dirname(os.path.abspath(__file__)))
sys.path.insert(0, ROOT)
path = os.path.join(ROOT, 'known_findings.json')
k = json.load(open(path))
have = {(f.get('property'), f.get('id')) for f in k['findings']}
fixed_ids = {f.split()[3] for f in k.get('fixed', []) if f.startswith('fixed: property=') and len(f.split()) > 3}
for modname in sys.argv[1:]:
    mod = importlib.import_module(modname)
    known = mod.known_findings() if hasattr(mod, 'known_findings') else mod.KNOWN
    for e in known:
        prop = e.get('property') or (e.get('suite') if str(e.get('suite', '')).startswith('C') else None) or e['id'].split('-')[0]
        if (prop, e['id']) in have:
            continue
        have.add((prop, e['id']))
        k['findings'].append({'id': e['id'], 'property': prop, 'kind': 'bounded', 'suite': modname,
                              'clause': e['clause'], 'match': e['match'], 'witness': e['inputs'], 'what': e['what']})
        print('added', e['id'])
json.dump(k, open(path, 'w'), indent=1, default=str)
