#!/usr/bin/env python3
"""src.py <repo-relative file> <qualname>...: print function source without docstrings and comments."""
import ast, sys
sys.path.insert(0, '/verif')
from pyvc import extract
rel = sys.argv[1]
for qn in sys.argv[2:]:
    ex = extract.find(rel, qn)
    node = ex.node
    if ast.get_docstring(node) is not None:
        node.body = node.body[1:]
    print(ast.unparse(node)); print()
