#!/usr/bin/env python3
"""mkmutant.py <out.patch> <repo-file> <old> <new> [<repo-file> <old> <new> ...]: build a patch by textual replacement."""
import subprocess, sys, os, tempfile, shutil
out = os.path.abspath(sys.argv[1]); triples = sys.argv[2:]
W = tempfile.mkdtemp(prefix='verif-mk-', dir='/var/tmp')
os.rmdir(W)
subprocess.check_call(['git', '-C', '/repo', 'worktree', 'add', '-q', '--detach', W, 'HEAD'])
try:
    for i in range(0, len(triples), 3):
        f, old, new = triples[i:i+3]
        p = os.path.join(W, f); s = open(p).read()
        old = old.encode().decode('unicode_escape'); new = new.encode().decode('unicode_escape')
        if s.count(old) != 1:
            sys.exit('pattern occurs %d times in %s' % (s.count(old), f))
        open(p, 'w').write(s.replace(old, new))
    d = subprocess.check_output(['git', '-C', W, 'diff']).decode()
    open(out, 'w').write(d)
    print('wrote', out, len(d.splitlines()), 'lines')
finally:
    subprocess.call(['git', '-C', '/repo', 'worktree', 'remove', '--force', W])
    shutil.rmtree(W, ignore_errors=True)
