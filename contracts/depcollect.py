"""C09: get_evolution_dependencies - every dependency an evolution declares (module-level BEFORE_*/AFTER_* lists) and
every dependency one of its mutations generates reaches the graph builder.

Covered: evolutions found as modules on disk.  Not covered: the in-memory `custom_evolutions` branch (built with a dict
comprehension over a record; bounded/native only).
"""
from pyvc import kinds as K
from pyvc.world import World, LoopInv
from pyvc.runner import Family
from .common import seq_member

EVO = 'django_evolution/utils/evolutions.py'
DEP = K.Atom('Dep')
MUT = K.Ref('Mutation')
MODULE = K.Ref('EvoModule')
DEPS = K.Rec(after_evolutions=K.Set(DEP), after_migrations=K.Set(DEP),
             before_evolutions=K.Set(DEP), before_migrations=K.Set(DEP))
GEN = K.Map(K.Str, K.Set(DEP))
KEYS = ('after_evolutions', 'after_migrations', 'before_evolutions', 'before_migrations')


def build():
    w = World('depcollect')
    w.kinds.update({'Str': K.Str, 'Dep': DEP})
    w.module_names |= {'six'}
    w.cls('Mutation', {})
    w.cls('EvoModule', {'AFTER_EVOLUTIONS': K.Seq(DEP), 'AFTER_MIGRATIONS': K.Seq(DEP),
                        'BEFORE_EVOLUTIONS': K.Seq(DEP), 'BEFORE_MIGRATIONS': K.Seq(DEP), 'MUTATIONS': K.Seq(MUT)})
    w.spec_funcs['member'] = seq_member
    w.stub('get_evolution_module', params={'app': K.Atom('App'), 'evolution_label': K.Str}, returns=K.Opt(MODULE),
           pure=True, reads=(), note='imports <app>.evolutions.<label>; None when there is no such module')
    w.stub('get_app_label', params={'app': K.Atom('App')}, returns=K.Str, pure=True, reads=())
    w.stub('Mutation.generate_dependencies', params={'self': MUT, 'app_label': K.Str}, returns=K.Opt(GEN), pure=True,
           reads=(), note='dependencies a mutation implies (MoveToDjangoMigrations: after its own applied migrations); '
                          'None or a dict keyed by the four dependency kinds')
    w.contract(
        'get_evolution_dependencies', module=EVO, serves=['C09'],
        params={'app': K.Atom('App'), 'evolution_label': K.Str, 'custom_evolutions': K.Seq(K.Atom('CustomEvolution'))},
        defaults={'custom_evolutions': []}, returns=K.Opt(DEPS),
        requires=['get_evolution_module(app, evolution_label) is not None'],
        raises={'AssertionError': True}, modifies=[],
        locals={'deps': DEPS, 'mutations': K.Seq(MUT)},
        invariants={
            2: LoopInv('for mutation in mutations:', index='j', clauses=[
                'module is not None', 'same(j_seq, some(module).MUTATIONS)',
                "'after_evolutions' in deps and 'after_migrations' in deps and 'before_evolutions' in deps and "
                "'before_migrations' in deps",
                # the declared lists are in
                'forall(Dep, lambda d: implies(member(some(module).AFTER_EVOLUTIONS, d), d in deps["after_evolutions"]))',
                'forall(Dep, lambda d: implies(member(some(module).AFTER_MIGRATIONS, d), d in deps["after_migrations"]))',
                'forall(Dep, lambda d: implies(member(some(module).BEFORE_EVOLUTIONS, d), d in deps["before_evolutions"]))',
                'forall(Dep, lambda d: implies(member(some(module).BEFORE_MIGRATIONS, d), d in deps["before_migrations"]))',
                # what the mutations visited so far generate is in
                'forall(range(j), lambda x: implies(sel(j_seq, x).generate_dependencies(app_label) is not None, '
                '       forall(Str, lambda k: implies(k in some(sel(j_seq, x).generate_dependencies(app_label)), '
                '              forall(Dep, lambda d: implies(d in some(sel(j_seq, x).generate_dependencies(app_label))[k], '
                '                     d in deps[k]))))))',
            ]),
            3: LoopInv('for key, value in six.iteritems(mutation_deps):', index='q', clauses=[
                'module is not None',
                "'after_evolutions' in deps and 'after_migrations' in deps and 'before_evolutions' in deps and "
                "'before_migrations' in deps",
                'forall(Dep, lambda d: implies(d in D0["after_evolutions"], d in deps["after_evolutions"]))',
                'forall(Dep, lambda d: implies(d in D0["after_migrations"], d in deps["after_migrations"]))',
                'forall(Dep, lambda d: implies(d in D0["before_evolutions"], d in deps["before_evolutions"]))',
                'forall(Dep, lambda d: implies(d in D0["before_migrations"], d in deps["before_migrations"]))',
                'forall(range(q), lambda a: implies(live(some(mutation_deps), a), forall(Dep, lambda d: implies('
                '       d in some(mutation_deps)[key_at(some(mutation_deps), a)], d in deps[key_at(some(mutation_deps), a)]))))',
            ], ghost_pre=[]),
        },
        ghost_before={'for key, value in six.iteritems(mutation_deps):': ['D0 = deps']},
        ensures=[
            'result is not None',
        ] + ['forall(Dep, lambda d: implies(member(some(get_evolution_module(app, evolution_label)).%s, d), '
             'd in some(result)["%s"]))' % (k.upper(), k) for k in KEYS] + [
            'forall(range(len(some(get_evolution_module(app, evolution_label)).MUTATIONS)), lambda x: implies('
            '  sel(some(get_evolution_module(app, evolution_label)).MUTATIONS, x).generate_dependencies(get_app_label(app)) is not None, '
            '  forall(Str, lambda k: implies(k in some(sel(some(get_evolution_module(app, evolution_label)).MUTATIONS, x)'
            '.generate_dependencies(get_app_label(app))), forall(Dep, lambda d: implies('
            '    d in some(sel(some(get_evolution_module(app, evolution_label)).MUTATIONS, x).generate_dependencies(get_app_label(app)))[k], '
            '    d in some(result)[k]))))))',
        ],
        note='module found on disk (requires); getattr(module, NAME, []) reads the declared list, an absent list being the '
             'empty one')
    fam = Family('contracts.depcollect', w)
    fam.replay['get_evolution_dependencies'] = replay_deps
    return fam


def replay_deps(label, inputs):
    """Native probe: an evolution module that declares all four lists and carries a mutation generating one more
    dependency of each kind; every declared and every generated entry must come back."""
    import sys
    import types
    from django_evolution.mutations.base import BaseMutation
    from django_evolution.utils import evolutions as E
    from django_evolution.compat.apps import get_app

    class Gen(BaseMutation):
        def generate_dependencies(self, app_label, **kwargs):
            return {'after_evolutions': {('gen_app', 'gen_a')}, 'after_migrations': {('gen_app', '0009_gen')},
                    'before_evolutions': {('gen_app', 'gen_b')}, 'before_migrations': {('gen_app', '0010_gen')}}
    declared = {'AFTER_EVOLUTIONS': [('decl_app', 'a')], 'AFTER_MIGRATIONS': [('decl_app', '0001_x')],
                'BEFORE_EVOLUTIONS': ['decl_app2'], 'BEFORE_MIGRATIONS': [('decl_app', '0002_y')]}
    mod = types.ModuleType('probe_evolution')
    for k_, v_ in declared.items():
        setattr(mod, k_, v_)
    mod.MUTATIONS = [Gen()]
    orig = E.get_evolution_module
    E.get_evolution_module = lambda app, evolution_label: mod
    try:
        app = get_app('django_evolution')
        got = E.get_evolution_dependencies(app, 'probe_evolution')
    finally:
        E.get_evolution_module = orig
    missing = []
    for k_, v_ in declared.items():
        for d in v_:
            if d not in got[k_.lower()]:
                missing.append([k_.lower(), 'declared', repr(d)])
    for k_, v_ in Gen().generate_dependencies('x').items():
        for d in v_:
            if d not in got[k_]:
                missing.append([k_, 'generated by a mutation', repr(d)])
    return {'reproduced': bool(missing), 'missing': missing,
            'inputs': {'declared': {k_: repr(v_) for k_, v_ in declared.items()}, 'mutations': ['Gen()']}}
