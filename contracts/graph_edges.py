"""C09: direction of the declared before/after dependency edges (EvolutionGraph._add_evolution_node_*_deps)."""
import z3

from pyvc import kinds as K
from pyvc.world import World, LoopInv
from pyvc.runner import Family

GRAPH = 'django_evolution/utils/graph.py'
NODE = K.Ref('Node')
TGT = K.Ref('Target')
MIG = K.Atom('MigrationTarget')
DEPS = K.Rec(before_evolutions=K.Set(TGT), before_migrations=K.Set(MIG),
             after_evolutions=K.Set(TGT), after_migrations=K.Set(MIG))


def build():
    w = World('graph_edges')
    w.kinds.update({'Str': K.Str, 'Ref_Target': TGT})
    w.cls('Node', {'key': K.Str})
    w.cls('Target', {})
    w.cls('StrTarget', {}, bases=['Target'])       # 'app_label': the whole sequence of that app
    w.cls('TupleTarget', {}, bases=['Target'])     # ('app_label', 'evolution_label')
    w.builtin_classes['str'] = 'StrTarget'
    w.cls('EvolutionGraph', {'_finalized': K.Bool, '_pending_deps': K.Set(K.Tuple(K.Str, K.Str)),
                             'process_evolution_deps': K.Bool, 'process_migration_deps': K.Bool}, module=GRAPH)
    w.stub('EvolutionGraph._make_evolution_key', params={'self': K.Ref('EvolutionGraph'), 'evolution': None},
           returns=K.Str, pure=True, reads=(), note="'evolution:<app>:<label>' (format verified in contracts.graph)")
    w.stub('EvolutionGraph._make_migration_key', params={'self': K.Ref('EvolutionGraph'), 'migration': MIG},
           returns=K.Str, pure=True, reads=())
    w.stub('EvolutionGraph.add_dependency',
           params={'self': K.Ref('EvolutionGraph'), 'node_key': K.Str, 'dep_node_key': K.Str},
           raises={'AssertionError': 'self._finalized'}, modifies=['EvolutionGraph._pending_deps[self]'],
           ensures=['(node_key, dep_node_key) in self._pending_deps',
                    'forall((Str, Str), lambda a, b: implies(not (a == node_key and b == dep_node_key), '
                    '       ((a, b) in self._pending_deps) == old((a, b) in self._pending_deps)))'],
           note='verified in contracts.graph: (node_key, dep_node_key) means node_key runs AFTER dep_node_key')
    w.spec_funcs['is_app_target'] = lambda it, v: K.vbool(it.p.ctx.dtype(v.t) == it.p.ctx.class_id('StrTarget'))
    # the node key a declared target stands for: a bare app label means that app's anchor node
    w.define('target_key', ['g', 't', 'anchor'],
             "g._make_evolution_key((t, anchor)) if is_app_target(t) else g._make_evolution_key(t)")
    GROW = "forall((Str, Str), lambda a, b: implies(old((a, b) in self._pending_deps), (a, b) in self._pending_deps))"
    for fname, evkey, migkey, anchor, edge, ev_iter, mig_iter in (
            ('_add_evolution_node_before_deps', 'before_evolutions', 'before_migrations', '__first__',
             lambda k: '(%s, node.key)' % k,       # the target depends on this node: this node runs first
             "deps['before_evolutions']", "deps['before_migrations']"),
            ('_add_evolution_node_after_deps', 'after_evolutions', 'after_migrations', '__last__',
             lambda k: '(node.key, %s)' % k,       # this node depends on the target: the target runs first
             "deps.get('after_evolutions', [])", "deps.get('after_migrations', [])")):
        w.contract(
            'EvolutionGraph.%s' % fname, module=GRAPH, serves=['C09'],
            params={'self': K.Ref('EvolutionGraph'), 'node': NODE, 'deps': DEPS},
            requires=["'%s' in deps" % evkey, "'%s' in deps" % migkey],
            raises={'AssertionError': 'self._finalized and ((self.process_evolution_deps and len(deps[%r]) > 0) or '
                                      '(self.process_migration_deps and len(deps[%r]) > 0))' % (evkey, migkey)},
            raises_exact=False,
            modifies=['EvolutionGraph._pending_deps'],
            invariants={
                1: LoopInv('for evolution_target in %s:' % ev_iter, index='i', clauses=[
                    GROW, 'node.key == old(node.key)', 'self.process_migration_deps == old(self.process_migration_deps)',
                    "forall(range(i), lambda x: %s in self._pending_deps)" % edge("target_key(self, sel(order, x), '%s')" % anchor)]),
                2: LoopInv('for migration_target in %s:' % mig_iter, index='j', clauses=[
                    GROW, 'node.key == old(node.key)',
                    "implies(old(self.process_evolution_deps), forall(deps[%r], lambda t: %s in self._pending_deps))"
                    % (evkey, edge("target_key(self, t, '%s')" % anchor)),
                    'forall(range(j), lambda x: %s in self._pending_deps)' % edge('self._make_migration_key(sel(order, x))')]),
            },
            ensures=[
                GROW,
                # a declared "%s" puts the edge in this direction, against the right anchor for bare app labels
                "implies(old(self.process_evolution_deps), forall(deps[%r], lambda t: %s in self._pending_deps))"
                % (evkey, edge("target_key(self, t, '%s')" % anchor)),
                "implies(old(self.process_migration_deps), forall(deps[%r], lambda m: %s in self._pending_deps))"
                % (migkey, edge('self._make_migration_key(m)')),
            ])
    return Family('contracts.graph_edges', w)
