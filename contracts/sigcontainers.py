"""The small container operations of the signature classes (add/remove entry, is_empty, FieldSignature construction and
clone).  The other families use them through assumed contracts (stubs); here the real functions are verified against the
same clauses, whole-view: the named entry changes, every other entry stays.

Serves every property whose argument goes through these helpers: C05 (clone has an empty diff), C11 and C15 (entries
renamed / removed), C12 (simulated signature), C03 (the first-pass signature is a clone).
"""
from pyvc import kinds as K
from pyvc.world import World
from pyvc.runner import Family
from . import sigsim

SIG = sigsim.SIG
SERVES = ['C05', 'C11', 'C12', 'C15']

OTHERS = ("forall(Str, lambda k: implies(k != {key}, (k in self.{f}) == old(k in self.{f}) and "
          "       implies(k in self.{f}, self.{f}[k] is old(self.{f}[k]))))")


def build():
    w = World('sigcontainers')
    sigsim.declare_signature_classes(w)
    w.kinds['Str'] = K.Str
    w.classes['ProjectSignature']['views'] = {'app_sigs': ('_app_sigs', 'values')}
    w.classes['AppSignature']['views'] = {'model_sigs': ('_model_sigs', 'values')}
    w.classes['ModelSignature']['views'] = {'field_sigs': ('_field_sigs', 'values')}
    for cls, field, add, rem, elem_cls, key_attr in (
            ('ModelSignature', '_field_sigs', 'add_field_sig', 'remove_field_sig', 'FieldSignature', 'field_name'),
            ('AppSignature', '_model_sigs', 'add_model_sig', 'remove_model_sig', 'ModelSignature', 'model_name'),
            ('ProjectSignature', '_app_sigs', 'add_app_sig', 'remove_app_sig', 'AppSignature', 'app_id')):
        arg = add[4:]       # field_sig / model_sig / app_sig
        w.contract(
            '%s.%s' % (cls, add), module=SIG, serves=SERVES,
            params={'self': K.Ref(cls), arg: K.Ref(elem_cls)}, raises={},
            modifies=['%s.%s[self]' % (cls, field)],
            ensures=['{a}.{k} in self.{f} and self.{f}[{a}.{k}] is {a}'.format(a=arg, k=key_attr, f=field),
                     OTHERS.format(key='%s.%s' % (arg, key_attr), f=field)])
        pname = {'remove_field_sig': 'field_name', 'remove_model_sig': 'model_name', 'remove_app_sig': 'app_id'}[rem]
        w.contract(
            '%s.%s' % (cls, rem), module=SIG, serves=SERVES,
            params={'self': K.Ref(cls), pname: K.Str},
            raises={'MissingSignatureError': '%s not in self.%s' % (pname, field)},
            modifies=['%s.%s[self]' % (cls, field)],
            ensures=['%s not in self.%s' % (pname, field), OTHERS.format(key=pname, f=field)])
    w.contract(
        'AppSignature.is_empty', module=SIG, serves=SERVES, params={'self': K.Ref('AppSignature')}, returns=K.Bool,
        pure=True, ensures=['result == (len(self._model_sigs) == 0)'])
    w.contract(
        'FieldSignature.__init__', module=SIG, serves=SERVES,
        params={'self': K.Ref('FieldSignature'), 'field_name': K.Str, 'field_type': sigsim.FTYPE,
                'field_attrs': K.Opt(sigsim.ATTRS), 'related_model': K.Opt(K.Str)},
        defaults={'field_attrs': None, 'related_model': None}, raises={},
        modifies=['FieldSignature.field_name[self]', 'FieldSignature.field_type[self]',
                  'FieldSignature.field_attrs[self]', 'FieldSignature.related_model[self]'],
        ensures=['self.field_name == field_name', 'self.field_type == field_type', 'self.related_model == related_model',
                 'implies(field_attrs is not None and len(some(field_attrs)) > 0, same(self.field_attrs, some(field_attrs)))',
                 'implies(field_attrs is None or len(some(field_attrs)) == 0, len(self.field_attrs) == 0 and '
                 '        forall(Str, lambda k: k not in self.field_attrs))'],
        requires=['implies(field_attrs is not None and len(some(field_attrs)) == 0, '
                  '        forall(Str, lambda k: k not in some(field_attrs)))'])
    w.contract(
        'FieldSignature.clone', module=SIG, serves=SERVES,
        params={'self': K.Ref('FieldSignature')}, returns=K.Ref('FieldSignature'), raises={},
        modifies=['FieldSignature.field_name', 'FieldSignature.field_type', 'FieldSignature.field_attrs',
                  'FieldSignature.related_model'],
        ensures=[
            # a new object with the same content, whose attribute dict is its own
            'fresh_ref(result)', 'result.field_name == self.field_name', 'result.field_type == self.field_type',
            'result.related_model == self.related_model',
            'forall(Str, lambda k: (k in result.field_attrs) == (k in self.field_attrs) and '
            '       implies(k in self.field_attrs, result.field_attrs[k] == self.field_attrs[k]))',
            'forall(Ref_Field, lambda f: implies(not fresh_ref(f), f.field_name == old(f.field_name) and '
            '       f.field_type == old(f.field_type) and same(f.field_attrs, old(f.field_attrs)) and '
            '       f.related_model == old(f.related_model)))'])
    # ---- clone of an app / project signature: same keys, every entry a new object cloned from the original's
    from pyvc.world import LoopInv
    w.kinds.update({'Ref_Model': K.Ref('ModelSignature'), 'Ref_App': K.Ref('AppSignature')})
    w.stub('AppSignature.__init__',
           params={'self': K.Ref('AppSignature'), 'app_id': K.Str, 'legacy_app_label': K.Opt(K.Str),
                   'upgrade_method': None, 'applied_migrations': None},
           modifies=['AppSignature.app_id[self]', 'AppSignature.legacy_app_label[self]', 'AppSignature._model_sigs[self]'],
           ensures=['self.app_id == app_id',
                    'self.legacy_app_label == (legacy_app_label if truthy(legacy_app_label) else app_id)',
                    'len(self._model_sigs) == 0', 'forall(Str, lambda k: k not in self._model_sigs)'],
           note='plain constructor (upgrade method / applied migrations: contracts.appser)')
    w.stub('ModelSignature.clone', params={'self': K.Ref('ModelSignature')}, returns=K.Ref('ModelSignature'),
           modifies=['ModelSignature.model_name', 'ModelSignature.table_name', 'ModelSignature._field_sigs',
                     'ModelSignature.unique_together', 'FieldSignature.field_name', 'FieldSignature.field_type',
                     'FieldSignature.field_attrs', 'FieldSignature.related_model'],
           ensures=['fresh_ref(result)', 'result.model_name == self.model_name',
                    'forall(Ref_Model, lambda m: implies(not fresh_ref(m), m.model_name == old(m.model_name) and '
                    '       m._field_sigs == old(m._field_sigs)))'],
           note='model level clone: a new ModelSignature of the same name (its fields are cloned by FieldSignature.clone, '
                'verified above; Meta, indexes and constraints: bounded suite)')
    w.stub('ProjectSignature.__init__', params={'self': K.Ref('ProjectSignature')},
           modifies=['ProjectSignature._app_sigs[self]'],
           ensures=['len(self._app_sigs) == 0', 'forall(Str, lambda k: k not in self._app_sigs)'])
    WF_APP = 'forall(Str, lambda k: implies(k in self._model_sigs, self._model_sigs[k].model_name == k))'
    w.contract(
        'AppSignature.clone', module=SIG, serves=SERVES + ['C03'],
        params={'self': K.Ref('AppSignature')}, returns=K.Ref('AppSignature'),
        requires=[WF_APP, 'truthy(self.legacy_app_label)'], raises={},
        modifies=['AppSignature.app_id', 'AppSignature.legacy_app_label', 'AppSignature._model_sigs',
                  'ModelSignature.model_name', 'ModelSignature.table_name', 'ModelSignature._field_sigs',
                  'ModelSignature.unique_together', 'FieldSignature.field_name', 'FieldSignature.field_type',
                  'FieldSignature.field_attrs', 'FieldSignature.related_model'],
        ghost_in_body={'cloned_sig.add_model_sig(model_sig.clone())': [      # proof hints
            'assert model_sig.model_name == key_at(self._model_sigs, i)',
            'assert forall(range(i), lambda a: implies(live(self._model_sigs, a), '
            '       key_at(self._model_sigs, a) != key_at(self._model_sigs, i)))',
            'assert model_sig.model_name in cloned_sig._model_sigs',
            'assert fresh_ref(cloned_sig._model_sigs[model_sig.model_name])',
            'assert cloned_sig._model_sigs[model_sig.model_name].model_name == model_sig.model_name']},
        invariants={1: LoopInv('for model_sig in self.model_sigs:', index='i', clauses=[
            'fresh_ref(cloned_sig)', 'cloned_sig is not self', 'cloned_sig.app_id == old(self.app_id)',
            'cloned_sig.legacy_app_label == old(self.legacy_app_label)',
            'self._model_sigs == old(self._model_sigs)',
            'forall(Ref_Model, lambda m: implies(not fresh_ref(m), m.model_name == old(m.model_name)))',
            'forall(Str, lambda k: implies(k in self._model_sigs, not fresh_ref(self._model_sigs[k])))',
            'forall(Str, lambda k: implies(k in self._model_sigs, self._model_sigs[k].model_name == k))',
            # visited models have a new entry of the same name; nothing else is in the clone
            'forall(range(i), lambda a: implies(live(self._model_sigs, a), '
            '       key_at(self._model_sigs, a) in cloned_sig._model_sigs))',
            'forall(Str, lambda k: implies(k in cloned_sig._model_sigs, fresh_ref(cloned_sig._model_sigs[k])))',
            'forall(Str, lambda k: implies(k in cloned_sig._model_sigs, cloned_sig._model_sigs[k].model_name == k))',
            'forall(Str, lambda k: implies(k in cloned_sig._model_sigs, k in self._model_sigs))',
        ])},
        ensures=[
            'fresh_ref(result)', 'result.app_id == self.app_id', 'result.legacy_app_label == self.legacy_app_label',
            'forall(Str, lambda k: (k in result._model_sigs) == (k in self._model_sigs))',
            'forall(Str, lambda k: implies(k in self._model_sigs, fresh_ref(result._model_sigs[k]) and '
            '       result._model_sigs[k].model_name == k))',
            'self._model_sigs == old(self._model_sigs)'],
        note='requires the registry invariant "a model is filed under its own name" (established by add_model_sig)')
    c = w.contracts['FieldSignature.__init__']
    # FieldSignature(...) inside clone() is checked against the constructor's contract, which keeps the dict it is given
    c.stores = ['field_attrs']
    return Family('contracts.sigcontainers', w)
