"""C18 (and part of C01/C02): operation merging in db/common.py and db/sql_result.py."""
import ast

from pyvc import kinds as K
from pyvc.world import World, LoopInv
from pyvc.runner import Family, Syntactic, Lemma
from pyvc import extract

COMMON = 'django_evolution/db/common.py'
SQLRES = 'django_evolution/db/sql_result.py'
SQLITE = 'django_evolution/db/sqlite3.py'

# Taken from the statement of C18, not from the code: "field additions, deletions, attribute
# changes (other than type changes and column renames) and Meta changes".
MERGEABLE = ('add_column', 'delete_column', 'change_column', 'change_meta')

OP = K.Rec(type=K.Str, mutation=K.Atom('Mutation'), field=K.Ref('Field'), initial=K.Opt(K.Atom('Initial')),
           new_attrs=K.Atom('Attrs'), old_field=K.Ref('Field'), new_field=K.Ref('Field'), prop_name=K.Str,
           old_value=K.Atom('MetaValue'), new_value=K.Atom('MetaValue'), sql=K.Atom('SQLList'))
GEN = K.Opt(K.Ref('SQLResult'))     # what the backend SQL generators return
SQL = K.Atom('SQL')


def add_run_mutation(w):
    """AppMutator.run_mutation: consecutive model mutations on the same model go to ONE ModelMutator (whose operations
    generate_table_ops_sql then merges into a single rebuild); a different model or a non-model mutation closes it."""
    APPMUT = 'django_evolution/mutators/app_mutator.py'
    MM = K.Ref('ModelMutatorObj')
    w.exc('CannotSimulate')
    w.cls('MutationObj', {})
    w.cls('BaseModelMutation', {'model_name': K.Str}, bases=['MutationObj'])
    w.cls('BaseUpgradeMethodMutation', {}, bases=['MutationObj'])
    w.cls('ModelMutatorObj', {'model_name': K.Str, 'can_simulate': K.Bool})
    w.cls('UpgradeMethodMutatorObj', {}, bases=['ModelMutatorObj'])
    w.cls('AppMutator', {'_last_model_mutator': K.Opt(MM), '_mutators': K.Seq(MM), 'can_simulate': K.Bool,
                         'app_label': K.Str, 'legacy_app_label': K.Opt(K.Str), 'project_sig': K.Atom('PSig'),
                         'database_state': K.Atom('DbState'), 'database': K.Opt(K.Str)}, module=APPMUT)
    w.ghost_var('ran_on', K.Seq(K.Tuple(MM, K.Ref('MutationObj'))))       # (model mutator, mutation) per run_mutation
    w.stub('ModelMutator', params={'app_mutator': K.Ref('AppMutator'), 'model_name': K.Str}, returns=MM,
           modifies=['ModelMutatorObj.model_name', 'ModelMutatorObj.can_simulate'],
           ensures=['fresh_ref(result)', 'result.model_name == model_name',
                    'forall(Ref_MM, lambda m: implies(not fresh_ref(m), m.model_name == old(m.model_name) and '
                    '       m.can_simulate == old(m.can_simulate)))'],
           note='ModelMutator(app_mutator, model_name): a new per-model mutator')
    w.kinds['Ref_MM'] = MM
    w.stub('UpgradeMethodMutator', params={'app_mutator': K.Ref('AppMutator'), 'mutation': K.Ref('MutationObj')},
           returns=K.Ref('UpgradeMethodMutatorObj'), ensures=['fresh_ref(result)'])
    w.stub('ModelMutatorObj.run_mutation', params={'self': MM, 'mutation': K.Ref('MutationObj')},
           may_raise=['Exception'], effects=['ran_on = ran_on + [(self, mutation)]'],
           note='queues the operation on the model mutator')
    w.stub('MutationObj.mutate', params={'self': K.Ref('MutationObj'), 'mutator': K.Ref('AppMutator')}, may_raise=['Exception'])
    w.stub('MutationObj.run_simulation', params={'self': K.Ref('MutationObj')}, kwarg='kwargs',
           may_raise=['CannotSimulate', 'Exception'])
    w.contracts['MutationObj.run_simulation'].params['kwargs'] = None
    w.contract('AppMutator._finalize_model_mutator', module=APPMUT, inline=True, params={'self': K.Ref('AppMutator')})
    w.contract(
        'AppMutator.run_mutation', module=APPMUT, serves=['C18', 'C03'],
        params={'self': K.Ref('AppMutator'), 'mutation': K.Ref('MutationObj')},
        requires=['len(ran_on) == 0'],
        raises={'Exception': True},
        modifies=['ran_on', 'AppMutator._last_model_mutator[self]', 'AppMutator._mutators[self]',
                  'AppMutator.can_simulate[self]', 'ModelMutatorObj.model_name', 'ModelMutatorObj.can_simulate'],
        ensures=[
            # a model mutation on the model of the open model mutator is queued on that very mutator ...
            "implies(dtype_is(mutation, 'BaseModelMutation') and old(self._last_model_mutator) is not None and "
            "        old(some(self._last_model_mutator).model_name) == old(mutation.model_name), "
            "        len(ran_on) == 1 and sel(ran_on, 0)[0] is old(some(self._last_model_mutator)) and "
            "        self._last_model_mutator is old(self._last_model_mutator) and "
            "        len(self._mutators) == len(old(self._mutators)))",
            # ... any other model mutation closes it and opens a new one for its own model
            "implies(dtype_is(mutation, 'BaseModelMutation') and not (old(self._last_model_mutator) is not None and "
            "        old(some(self._last_model_mutator).model_name) == old(mutation.model_name)), "
            "        len(ran_on) == 1 and fresh_ref(sel(ran_on, 0)[0]) and self._last_model_mutator is sel(ran_on, 0)[0] and "
            "        sel(ran_on, 0)[0].model_name == old(mutation.model_name))",
        ],
        ensures_exc=[],
        note='ModelMutator / UpgradeMethodMutator construction and the mutation callbacks are stubs')


def build():
    w = World('table_ops')
    w.consts['MERGEABLE'] = MERGEABLE
    w.cls('BaseEvolutionOperations', {}, module=COMMON)
    w.cls('SQLResult', {}, module=SQLRES)
    w.cls('AlterTableSQLResult', {}, bases=['SQLResult'], module=SQLRES)
    w.cls('ModelMutator', {})
    w.cls('MockModel', {})
    w.exc('EvolutionNotImplementedError')
    # ghost log of which result objects were flattened to SQL, in order
    w.ghost_var('flattened', K.Seq(K.Ref('SQLResult')))

    w.contract(
        'BaseEvolutionOperations._are_ops_mergeable', module=COMMON, serves=['C18', 'C03'],
        params={'self': K.Ref('BaseEvolutionOperations'), 'op1': OP, 'op2': OP},
        returns=K.Bool, pure=True,
        requires=["'type' in op1", "'type' in op2"],
        ensures=["result == (op1['type'] in MERGEABLE and op2['type'] in MERGEABLE)"],
        note='postcondition set taken from the text of C18')

    w.stub('ModelMutator.create_model', params={'self': K.Ref('ModelMutator')},
           returns=K.Ref('MockModel'), note='builds a mock model; no effect on SQL results')
    w.stub('ModelMutator.finish_op', params={'self': K.Ref('ModelMutator'), 'op': OP},
           note='bookkeeping on the mutator only')
    w.stub('SQLResult.to_sql', params={'self': K.Ref('SQLResult')}, returns=K.Seq(SQL),
           effects=['flattened = flattened + [self]'],
           note='flattening of one result object; on SQLite emits at most one table rebuild '
                '(see syntactic obligation to_sql_single_rebuild)')
    w.stub('BaseEvolutionOperations.alter_table_sql_result_cls',
           params={'self': K.Ref('BaseEvolutionOperations'), 'evolver': K.Ref('BaseEvolutionOperations'),
                   'model': K.Ref('MockModel')},
           returns=K.Ref('AlterTableSQLResult'), ensures=['fresh_ref(result)'],
           note='class attribute holding the AlterTableSQLResult class: calling it constructs a new object')

    w.contract(
        'BaseEvolutionOperations.generate_table_op_sql', module=COMMON, serves=['C18', 'C03'],
        params={'self': K.Ref('BaseEvolutionOperations'), 'mutator': K.Ref('ModelMutator'), 'op': OP,
                'prev_sql_result': K.Opt(K.Ref('SQLResult')), 'prev_op': K.Opt(OP)},
        returns=K.Ref('SQLResult'),
        requires=["'type' in op", "'mutation' in op", "implies(prev_op is not None, 'type' in some(prev_op))",
                  "implies(prev_op is not None, prev_sql_result is not None)"],
        ensures=[
            "implies(prev_op is not None and some(prev_op)['type'] in MERGEABLE and op['type'] in MERGEABLE,"
            "        result is prev_sql_result)",
            "implies(not (prev_op is not None and some(prev_op)['type'] in MERGEABLE and op['type'] in MERGEABLE),"
            "        fresh_ref(result))",
            # queuing an operation never flattens (= separately rebuilds) anything
            "flattened == old(flattened)"],
        ensures_exc=["flattened == old(flattened)"],
        raises={'EvolutionNotImplementedError': True, 'Exception': True, 'KeyError': True},
        note='the per-type dispatch is analysed as written; the backend generators are stubs returning a result object')
    w.cls('Field', {'name': K.Str})
    gen = dict(returns=GEN, may_raise=['Exception'], note='backend SQL generator (returns a new SQLResult/AlterTableSQLResult)')
    w.stub('BaseEvolutionOperations.add_column', params={'self': K.Ref('BaseEvolutionOperations'), 'model': K.Ref('MockModel'),
                                                         'f': K.Ref('Field'), 'initial': K.Opt(K.Atom('Initial'))}, **gen)
    w.stub('BaseEvolutionOperations.change_column_attrs',
           params={'self': K.Ref('BaseEvolutionOperations'), 'model': K.Ref('MockModel'), 'mutation': K.Atom('Mutation'),
                   'field_name': K.Str, 'new_attrs': K.Atom('Attrs')}, **gen)
    w.stub('BaseEvolutionOperations.change_column_type',
           params={'self': K.Ref('BaseEvolutionOperations'), 'model': K.Ref('MockModel'), 'old_field': K.Ref('Field'),
                   'new_field': K.Ref('Field'), 'new_attrs': K.Atom('Attrs')}, **gen)
    w.stub('BaseEvolutionOperations.delete_column', params={'self': K.Ref('BaseEvolutionOperations'), 'model': K.Ref('MockModel'),
                                                            'f': K.Ref('Field')}, **gen)
    w.stub('BaseEvolutionOperations.change_meta_any',
           params={'self': K.Ref('BaseEvolutionOperations'), 'model': K.Ref('MockModel'),
                   'old_value': K.Atom('MetaValue'), 'new_value': K.Atom('MetaValue')}, **gen)
    w.dynamic_getattr = {'BaseEvolutionOperations': 'BaseEvolutionOperations.change_meta_any'}
    # the two ways of putting generated SQL into the chosen result object
    w.stub('SQLResult.add', params={'self': K.Ref('SQLResult'), 'sql_or_result': None},
           note='merges the argument into self; an AlterTableSQLResult argument contributes its alter_table items '
                '(so it shares the single rebuild). No flattening.')
    w.contract(
        'SQLResult.normalize_sql', module=SQLRES, serves=['C18'],
        params={'self': K.Ref('SQLResult'), 'sql_or_result': GEN}, returns=K.Seq(SQL),
        modifies=['flattened'],
        ensures=['implies(sql_or_result is not None, len(flattened) == len(old(flattened)) + 1 and '
                 '        sel(flattened, len(old(flattened))) is sql_or_result)',
                 'implies(sql_or_result is None, flattened == old(flattened))'],
        note='restricted to the argument kinds reachable from generate_table_op_sql: None or a result object '
             '(plain lists are the identity case)')
    w.contract(
        'SQLResult.add_sql', module=SQLRES, serves=['C18'],
        params={'self': K.Ref('SQLResult'), 'sql_or_result': GEN}, modifies=['flattened'],
        ensures=['implies(sql_or_result is not None, len(flattened) == len(old(flattened)) + 1)'],
        note='add_sql flattens its argument first: a result object passed here gets its own to_sql() (own rebuild)')

    for meth in ('add_pre_sql', 'add_post_sql'):
        w.contract(
            'SQLResult.%s' % meth, module=SQLRES, serves=['C18'],
            params={'self': K.Ref('SQLResult'), 'sql_or_result': GEN}, modifies=['flattened'],
            abstract={'self.pre_sql += ': ['_sql = self.normalize_sql(sql_or_result)'],
                      'self.post_sql += ': ['_sql = self.normalize_sql(sql_or_result)']},
            ensures=['implies(sql_or_result is not None, len(flattened) == len(old(flattened)) + 1)'],
            note='%s flattens its argument first: a result object passed here gets its own to_sql() (own rebuild); '
                 'the statement lists themselves are not modelled' % meth)
        del w.contracts['SQLResult.%s' % meth].abstract['self.post_sql += ' if meth == 'add_pre_sql' else 'self.pre_sql += ']
    # index / uniqueness changes of a column: the backend rules go INTO the result (merged into the table's single
    # rebuild); nothing is flattened on the way
    for helper in ('change_column_attr_unique', 'change_column_attr_db_index'):
        w.stub('BaseEvolutionOperations.%s' % helper,
               params={'self': K.Ref('BaseEvolutionOperations'), 'model': K.Ref('MockModel'), 'mutation': K.Atom('Mutation'),
                       'field': K.Ref('Field'), 'old_value': K.Bool, 'new_value': K.Bool}, **gen)
    w.contract(
        'BaseEvolutionOperations.change_column_attrs_db_index_unique', module=COMMON, serves=['C18'],
        params={'self': K.Ref('BaseEvolutionOperations'), 'model': K.Ref('MockModel'), 'mutation': K.Atom('Mutation'),
                'field': K.Ref('Field'), 'old_db_index': K.Bool, 'new_db_index': K.Bool, 'old_unique': K.Bool,
                'new_unique': K.Bool},
        returns=K.Ref('SQLResult'), raises={'Exception': True}, modifies=['flattened'],
        ensures=['fresh_ref(result)', 'flattened == old(flattened)'], ensures_exc=['flattened == old(flattened)'])
    add_run_mutation(w)
    w.contract(
        'BaseEvolutionOperations.generate_table_ops_sql', module=COMMON, serves=['C18'],
        params={'self': K.Ref('BaseEvolutionOperations'), 'mutator': K.Ref('ModelMutator'),
                'ops': K.Seq(OP)},
        returns=K.Seq(SQL),
        requires=["forall(range(len(ops)), lambda j: 'type' in sel(ops, j) and 'mutation' in sel(ops, j))",
                  "len(flattened) == 0"],
        locals={'sql_results': K.Seq(K.Ref('SQLResult')), 'prev_sql_result': K.Opt(K.Ref('SQLResult')),
                'prev_op': K.Opt(OP), 'sql': K.Seq(SQL)},
        raises={'Exception': True}, modifies=['flattened'],
        invariants={
            1: LoopInv(
                "for op in ops:", index='i',
                ghost_post=["res_of = res_of + [sql_result]"],
                clauses=[
                    "len(res_of) == i",
                    "implies(i == 0, prev_op is None and prev_sql_result is None and len(sql_results) == 0)",
                    "implies(i > 0, prev_op is not None and some(prev_op) == sel(ops, i - 1) and "
                    "               prev_sql_result is not None and some(prev_sql_result) is sel(res_of, i - 1))",
                    # consecutive mergeable ops share one result object
                    "forall(range(1, i), lambda j: implies(sel(ops, j - 1)['type'] in MERGEABLE and "
                    "       sel(ops, j)['type'] in MERGEABLE, sel(res_of, j) is sel(res_of, j - 1)))",
                    # the result list holds each distinct result object once
                    "forall(range(len(sql_results)), lambda a: allocated(sel(sql_results, a)))",
                    "forall((range(len(sql_results)), range(len(sql_results))), lambda a, b: "
                    "       implies(a != b, sel(sql_results, a) is not sel(sql_results, b)))",
                    "len(flattened) == 0",
                ]),
            2: LoopInv(
                "for sql_result in sql_results:", index='k',
                clauses=[
                    "len(flattened) == k",
                    "forall(range(k), lambda a: sel(flattened, a) is sel(sql_results, a))",
                ]),
        },
        ghost_in_body={"sql_results = []": ["res_of = const_seq_ref()"]},
        ensures=[
            # every result object is flattened exactly once, and consecutive mergeable ops share one
            "forall((range(len(flattened)), range(len(flattened))), lambda a, b: "
            "       implies(a != b, sel(flattened, a) is not sel(flattened, b)))",
            "len(res_of) == len(ops)",
            "forall(range(1, len(ops)), lambda j: implies(sel(ops, j - 1)['type'] in MERGEABLE and "
            "       sel(ops, j)['type'] in MERGEABLE, sel(res_of, j) is sel(res_of, j - 1)))",
        ])
    w.spec_funcs['const_seq_ref'] = lambda it: K.empty_seq(K.Ref('SQLResult'))

    fam = Family('contracts.table_ops', w)
    fam.replay['BaseEvolutionOperations._are_ops_mergeable'] = replay_mergeable
    fam.syntactic.append(Syntactic('to_sql_single_rebuild', ['C18'], syn_single_rebuild,
                                   'SQLiteAlterTableSQLResult.to_sql creates TEMP_TABLE at most once: '
                                   'exactly one create_table call site naming TEMP_TABLE, outside any loop'))
    return fam


def replay_mergeable(label, inputs):
    from django_evolution.db.common import BaseEvolutionOperations
    ops = BaseEvolutionOperations.__new__(BaseEvolutionOperations)
    op1, op2 = inputs['op1'], inputs['op2']
    got = ops._are_ops_mergeable(op1, op2)
    want = op1['type'] in MERGEABLE and op2['type'] in MERGEABLE
    return {'reproduced': bool(got) != bool(want), 'observed': repr(got), 'expected': want,
            'inputs': inputs}


def syn_single_rebuild():
    ex = extract.find(SQLITE, 'SQLiteAlterTableSQLResult.to_sql')
    sites = []

    def walk(node, in_loop):
        for ch in ast.iter_child_nodes(node):
            loop = in_loop or isinstance(ch, (ast.For, ast.While, ast.ListComp, ast.GeneratorExp,
                                              ast.FunctionDef, ast.Lambda))
            if isinstance(ch, ast.Call):
                seg = ast.unparse(ch.func)
                if seg.endswith('create_table') or 'sql_create_table' in seg or seg.endswith('sql_create_models'):
                    sites.append((ch.lineno, in_loop, ast.unparse(ch)[:80]))
            if isinstance(ch, ast.Constant) and isinstance(ch.value, str) and 'CREATE TABLE' in ch.value.upper():
                sites.append((ch.lineno, in_loop, ch.value[:60]))
            walk(ch, loop)
    walk(ex.node, False)
    ok = len(sites) == 1 and not sites[0][1]
    return ok, 'CREATE TABLE sites in to_sql: %r' % (sites,)
