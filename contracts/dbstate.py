"""C01: the index bookkeeping (db/state.py) that decides which indexes get created or dropped."""
from pyvc import kinds as K
from pyvc.world import World, LoopInv
from pyvc.runner import Family

STATE = 'django_evolution/db/state.py'
IDX = K.Ref('IndexState')


def build():
    w = World('dbstate')
    w.kinds['Ref_IndexState'] = IDX
    w.cls('IndexState', {'name': K.Str, 'columns': K.Seq(K.Str), 'unique': K.Bool})
    w.cls('DatabaseState', {}, module=STATE)
    w.stub('DatabaseState._norm_table_name', params={'self': K.Ref('DatabaseState'), 'table_name': K.Str},
           returns=K.Str, pure=True, reads=(), note='table-name normalisation')
    w.stub('DatabaseState.iter_indexes', params={'self': K.Ref('DatabaseState'), 'table_name': K.Str},
           returns=K.Seq(IDX), pure=True,
           note="the table's recorded indexes: non-unique ones first, then unique ones (generator treated as a list)")
    w.contract(
        'DatabaseState.find_index', module=STATE, serves=['C01'],
        params={'self': K.Ref('DatabaseState'), 'table_name': K.Str, 'columns': K.Seq(K.Str), 'unique': K.Bool},
        defaults={'unique': False}, returns=K.Opt(IDX),
        invariants={1: LoopInv('for index_state in self.iter_indexes(table_name):', index='i', clauses=[
            'forall(range(i), lambda a: not (sel(i_seq, a).columns == columns and sel(i_seq, a).unique == unique))'])},
        ensures=[
            # an index is "the same" only with the same columns IN THE SAME ORDER and the same uniqueness
            'implies(result is not None, some(result).columns == columns and some(result).unique == unique and '
            '        exists(range(len(self.iter_indexes(self._norm_table_name(table_name)))), lambda a: '
            '               sel(self.iter_indexes(self._norm_table_name(table_name)), a) is some(result)))',
            'implies(result is None, forall(range(len(self.iter_indexes(self._norm_table_name(table_name)))), lambda a: '
            '        not (sel(self.iter_indexes(self._norm_table_name(table_name)), a).columns == columns and '
            '             sel(self.iter_indexes(self._norm_table_name(table_name)), a).unique == unique)))',
        ])
    return Family('contracts.dbstate', w)
