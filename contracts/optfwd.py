"""Bounded stand-in for the FORWARD pass of AppMutator._process_mutation_batch (the part the deductive contract in
contracts.optfold cuts off: it works through aliased nested dicts the value-semantic engine cannot follow).

Clause checked natively on the real function, exhaustively over a small scope: a RenameModel(old -> new) is dropped from
the batch only when the app signature already holds `new` and no longer holds `old` (a baseline for the new name was
installed and the old model is gone); in every other situation the rename survives, so that the references to `old`
are rewritten (C11) and the optimised run does what the one-at-a-time run does (C03).
Scope: old/new present or absent in the signature (4 combinations) x the RenameModel alone, preceded by an AddField on
the old name, followed by a ChangeField on the new name, and a chain old -> mid -> new.  Labelled bounded.
"""
from pyvc.world import World
from pyvc.runner import Family, Bounded


def _run(muts_desc, present):
    from django.db import models
    from django_evolution import mutations as M
    from django_evolution.mutators import AppMutator
    from django_evolution.signature import ProjectSignature, AppSignature, ModelSignature, FieldSignature

    class Bare(AppMutator):
        def __init__(self):
            self.app_label = 'shop'
            self.project_sig = ProjectSignature()
            app = AppSignature('shop')
            for name in present:
                m = ModelSignature(name, 'shop_' + name.lower())
                m.add_field_sig(FieldSignature('id', models.AutoField, {'primary_key': True}))
                m.add_field_sig(FieldSignature('name', models.CharField, {'max_length': 10}))
                app.add_model_sig(m)
            self.project_sig.add_app_sig(app)

    def mk(d):
        if d[0] == 'RenameModel':
            return M.RenameModel(d[1], d[2], db_table='shop_' + d[2].lower())
        if d[0] == 'AddField':
            return M.AddField(d[1], d[2], models.IntegerField, null=True)
        if d[0] == 'ChangeField':
            return M.ChangeField(d[1], d[2], initial=None, max_length=20)
        raise ValueError(d)
    objs = [mk(d) for d in muts_desc]
    out = Bare()._process_mutation_batch((True, list(objs)))
    return objs, out


def check(shape, old_present, new_present):
    from django_evolution import mutations as M
    old, new = 'Customer', 'Client'
    present = ([old] if old_present else []) + ([new] if new_present else [])
    if shape == 'alone':
        desc = [['RenameModel', old, new]]
    elif shape == 'add-then-rename':
        desc = [['AddField', old, 'extra'], ['RenameModel', old, new]]
    elif shape == 'rename-then-change':
        desc = [['RenameModel', old, new], ['ChangeField', new, 'name']]
    else:
        desc = [['RenameModel', old, 'Mid'], ['RenameModel', 'Mid', new]]
    objs, out = _run(desc, present)
    renames_out = [m for m in out if isinstance(m, M.RenameModel)]
    may_drop = new_present and not old_present
    if not may_drop and not renames_out:
        return {'what': 'the RenameModel was dropped although the signature %s' %
                        ('still holds the old model' if old_present else 'does not hold the new name'),
                'result': [str(m) for m in out]}
    if renames_out and renames_out[-1].new_model_name != new:
        return {'what': 'the surviving RenameModel does not rename to the final name', 'result': [str(m) for m in out]}
    return None


SHAPES = ('alone', 'add-then-rename', 'rename-then-change', 'chain')


def bounded_rename_drop(tier='quick', seed=0):
    evaluations, failures, samples = 0, [], []
    for shape in SHAPES:
        for old_present in (True, False):
            for new_present in (True, False):
                evaluations += 1
                try:
                    f = check(shape, old_present, new_present)
                except Exception as e:      # noqa
                    f = {'what': 'exception %r' % e}
                if f is not None:
                    f['inputs'] = {'shape': shape, 'old_present': old_present, 'new_present': new_present}
                    failures.append(f)
                elif len(samples) < 3:
                    samples.append({'shape': shape, 'old_present': old_present, 'new_present': new_present, 'ok': True})
    return {'evaluations': evaluations, 'distinct_nontrivial': evaluations, 'failures': failures, 'samples': samples,
            'exhaustive': True,
            'rule': 'RenameModel drop rule of the forward pass: %d shapes x old/new model present or absent in the app '
                    'signature' % len(SHAPES)}


def replay_rename_drop(label, inputs):
    f = check(inputs['shape'], inputs['old_present'], inputs['new_present'])
    return {'reproduced': f is not None, 'failure': f, 'inputs': inputs}


def build():
    w = World('optfwd')
    fam = Family('contracts.optfwd', w)
    fam.bounded.append(Bounded('forward_pass_rename_model_drop', ['C11', 'C03'], bounded_rename_drop,
                               scope='4 mutation shapes x 4 signature states (exhaustive over that scope)',
                               stands_in_for='the forward pass of AppMutator._process_mutation_batch, outside the engine\'s '
                                             'subset (aliased nested dicts): only the RenameModel drop rule'))
    fam.replay['bounded:forward_pass_rename_model_drop'] = replay_rename_drop
    return fam
