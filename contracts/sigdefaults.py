"""C05/C12: FieldSignature.get_attr_default against the real _ATTRIBUTE_DEFAULTS table.

The other signature families treat the defaults lookup as an uninterpreted function of (field type, attribute); this family
closes that gap: the table is re-read from the class body of the real source on every run, and the lookup function is
verified against "the field type's own default overrides the generic ('*') one, which overrides None". The residual-diff
gate of the evolve command (C12) and the defaults-aware diff (C05) both go through it.

Encoding: table keys ('*' and Django field classes) are their source text as strings; `self.field_type` is a string of the
same space; values are Opt(Str) holding the source text of the default (None for a literal None).
"""
import ast

from pyvc import kinds as K
from pyvc.world import World
from pyvc.runner import Family

SIG = 'django_evolution/signature.py'
OVS = K.Opt(K.Str)
ROW = K.Map(K.Str, OVS)
TABLE = K.Map(K.Str, ROW)


def table_nodes():
    from pyvc import extract
    n = extract.class_const(SIG, 'FieldSignature', '_ATTRIBUTE_DEFAULTS')
    if not isinstance(n, ast.Dict):
        raise K.Unsupported('FieldSignature._ATTRIBUTE_DEFAULTS is not a dict literal')
    out = []
    for kn, vn in zip(n.keys, n.values):
        key = kn.value if isinstance(kn, ast.Constant) and isinstance(kn.value, str) else ast.unparse(kn)
        if not isinstance(vn, ast.Dict):
            raise K.Unsupported('_ATTRIBUTE_DEFAULTS[%s] is not a dict literal' % key)
        row = []
        for an, dn in zip(vn.keys, vn.values):
            if not (isinstance(an, ast.Constant) and isinstance(an.value, str)):
                raise K.Unsupported('_ATTRIBUTE_DEFAULTS[%s] key %s' % (key, ast.unparse(an)))
            row.append((an.value, None if isinstance(dn, ast.Constant) and dn.value is None else ast.unparse(dn)))
        out.append((key, row))
    return out


def table_from_ast(it):
    m = K.empty_map(K.Str, ROW)
    for key, row in table_nodes():
        r = K.empty_map(K.Str, OVS)
        for attr, val in row:
            r = K.map_set(r, K.vstr(attr), K.coerce(K.NONE, OVS) if val is None else K.coerce(K.vstr(val), OVS))
        m = K.map_set(m, K.vstr(key), r)
    return m


T = 'self._ATTRIBUTE_DEFAULTS'
SPEC = ("ite(self.field_type != '*' and self.field_type in {T} and attr_name in {T}[self.field_type], "
        "    {T}[self.field_type][attr_name], "
        "    ite(attr_name in {T}['*'], {T}['*'][attr_name], None))").format(T=T)


def build():
    w = World('sigdefaults')
    w.kinds['Str'] = K.Str
    w.cls('FieldSignature', {'field_type': K.Str}, module=SIG)
    w.const_overrides[('FieldSignature', '_ATTRIBUTE_DEFAULTS')] = table_from_ast
    w.contract(
        'FieldSignature.get_attr_default', module=SIG, serves=['C05', 'C12'],
        params={'self': K.Ref('FieldSignature'), 'attr_name': K.Str}, returns=OVS, pure=True,
        requires=["self.field_type != '*'"],      # a field type is a class, never the generic-row key
        raises={},
        ensures=['result == ' + SPEC],
        note='field types and default values denoted by their source text; the table is read from the class body')
    fam = Family('contracts.sigdefaults', w)
    fam.replay['FieldSignature.get_attr_default'] = replay_default
    return fam


def replay_default(label, inputs):
    """Look the attribute up with the real function on a real FieldSignature and compare with specific-over-generic."""
    import django.db.models as models
    from django.conf import global_settings
    from django_evolution.signature import FieldSignature
    ftxt = (inputs.get('self') or {}).get('field_type')
    attr = inputs.get('attr_name')
    table = FieldSignature._ATTRIBUTE_DEFAULTS
    keys = {('*' if k == '*' else 'models.' + k.__name__): k for k in table}
    ftype = keys.get(ftxt, models.CharField if 'models.CharField' not in keys else models.TextField)
    got = FieldSignature('f', ftype, {}).get_attr_default(attr)
    own = table.get(ftype, {})
    want = own[attr] if attr in own else table['*'].get(attr)
    return {'reproduced': got is not want and got != want, 'got': repr(got), 'want': repr(want),
            'inputs': {'field_type': getattr(ftype, '__name__', str(ftype)), 'attr_name': attr}}
