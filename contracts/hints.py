"""C13: rendering of hinted evolutions - exception freedom of the Q serializer over the value grammar."""
import ast
import z3

from pyvc import kinds as K
from pyvc.kinds import V
from pyvc.world import World, LoopInv
from pyvc.runner import Family, Syntactic
from pyvc.engine import PyObj

SER = 'django_evolution/serialization.py'
LEAF = K.Atom('LeafValue')
CONNECTORS = ('AND', 'OR', 'XOR')        # the connectors of the property's quantifier ("AND/OR/XOR")


def separators_from_ast(it):
    """QSerialization.child_separators read from the class body of the real source: keys `Q.X` / getattr(Q, 'X', ...)
    denote the connector string 'X' (django.db.models.Q.AND == 'AND', ...)."""
    from pyvc import extract
    n = extract.class_const(SER, 'QSerialization', 'child_separators')
    if not isinstance(n, ast.Dict):
        raise K.Unsupported('QSerialization.child_separators is not a dict literal')
    m = K.empty_map(K.Str, K.Str)
    for kn, vn in zip(n.keys, n.values):
        if isinstance(kn, ast.Attribute) and isinstance(kn.value, ast.Name) and kn.value.id == 'Q':
            key = kn.attr
        elif isinstance(kn, ast.Call) and ast.unparse(kn.func) == 'getattr' and len(kn.args) >= 2 and \
                isinstance(kn.args[1], ast.Constant):
            key = kn.args[1].value
        elif isinstance(kn, ast.Constant) and isinstance(kn.value, str):
            key = kn.value
        else:
            raise K.Unsupported('child_separators key %s' % ast.unparse(kn))
        if not (isinstance(vn, ast.Constant) and isinstance(vn.value, str)):
            raise K.Unsupported('child_separators value %s' % ast.unparse(vn))
        m = K.map_set(m, K.vstr(key), K.vstr(vn.value))
    return m


def build():
    w = World('hints')
    w.consts['CONNECTORS'] = CONNECTORS
    w.kinds['Ref_Child'] = K.Ref('QChild')
    w.cls('QChild', {})
    w.cls('TupleChild', {}, bases=['QChild'])
    w.cls('Q', {'children': K.Seq(K.Ref('QChild')), 'negated': K.Bool, 'connector': K.Str}, bases=['QChild'])
    w.cls('QSerialization', {}, module=SER)
    w.builtin_classes['tuple'] = 'TupleChild'
    w.const_overrides[('QSerialization', 'child_separators')] = separators_from_ast
    w.consts['cls'] = PyObj('class', name='QSerialization')
    w.exc('TypeError')
    w.stub('QChild.__getitem__0', params={'self': K.Ref('QChild')}, returns=K.Str,
           raises={'TypeError': "dtype_is(self, 'Q')"},
           note="a (lookup, value) child is subscriptable; a Q child is not ('Q' object is not subscriptable)")
    w.stub('QChild.__getitem__1', params={'self': K.Ref('QChild')}, returns=LEAF,
           raises={'TypeError': "dtype_is(self, 'Q')"})
    w.stub('serialize_to_python', params={'value': None}, returns=K.Str,
           note='the module-level dispatcher: total on the leaf grammar and (by this very contract, for smaller trees) on Q '
                'children; the dispatch table maps Q to QSerialization')
    w.contract(
        'QSerialization.serialize_to_python', module=SER, serves=['C13'],
        params={'cls': None, 'value': K.Ref('Q')}, returns=K.Str,
        requires=[
            # the value grammar of the property: any connector of AND/OR/XOR, children are lookups or nested Q objects
            'value.connector in CONNECTORS',
            "forall(range(len(value.children)), lambda i: dtype_is(sel(value.children, i), 'TupleChild') or "
            "       dtype_is(sel(value.children, i), 'Q'))"],
        raises={},            # exception freedom: no TypeError, KeyError, IndexError
        locals={'result': K.Seq(K.Str), 'children': K.Seq(K.Str)},
        invariants={1: LoopInv('for child in value.children:', index='i', clauses=['len(children) == i'])},
        ensures=['True'])
    fam = Family('contracts.hints', w)
    return fam
