"""C13: rendering of hinted evolutions - exception freedom of the Q serializer over the value grammar."""
import ast
import z3

from pyvc import kinds as K
from pyvc.kinds import V
from pyvc.world import World, LoopInv
from pyvc.runner import Family, Syntactic
from pyvc.engine import PyObj

SER = 'django_evolution/serialization.py'
LEAF = K.Atom('LeafValue')
CONNECTORS = ('AND', 'OR', 'XOR')        # the connectors of the property's quantifier ("AND/OR/XOR")


def separators_from_ast(it):
    """QSerialization.child_separators read from the class body of the real source: keys `Q.X` / getattr(Q, 'X', ...)
    denote the connector string 'X' (django.db.models.Q.AND == 'AND', ...)."""
    from pyvc import extract
    n = extract.class_const(SER, 'QSerialization', 'child_separators')
    if not isinstance(n, ast.Dict):
        raise K.Unsupported('QSerialization.child_separators is not a dict literal')
    m = K.empty_map(K.Str, K.Str)
    for kn, vn in zip(n.keys, n.values):
        if isinstance(kn, ast.Attribute) and isinstance(kn.value, ast.Name) and kn.value.id == 'Q':
            key = kn.attr
        elif isinstance(kn, ast.Call) and ast.unparse(kn.func) == 'getattr' and len(kn.args) >= 2 and \
                isinstance(kn.args[1], ast.Constant):
            key = kn.args[1].value
        elif isinstance(kn, ast.Constant) and isinstance(kn.value, str):
            key = kn.value
        else:
            raise K.Unsupported('child_separators key %s' % ast.unparse(kn))
        if not (isinstance(vn, ast.Constant) and isinstance(vn.value, str)):
            raise K.Unsupported('child_separators value %s' % ast.unparse(vn))
        m = K.map_set(m, K.vstr(key), K.vstr(vn.value))
    return m


def build():
    w = World('hints')
    w.consts['CONNECTORS'] = CONNECTORS
    w.kinds['Ref_Child'] = K.Ref('QChild')
    w.cls('QChild', {})
    w.cls('TupleChild', {}, bases=['QChild'])
    w.cls('Q', {'children': K.Seq(K.Ref('QChild')), 'negated': K.Bool, 'connector': K.Str}, bases=['QChild'])
    w.cls('QSerialization', {}, module=SER)
    w.builtin_classes['tuple'] = 'TupleChild'
    w.const_overrides[('QSerialization', 'child_separators')] = separators_from_ast
    w.consts['cls'] = PyObj('class', name='QSerialization')
    w.exc('TypeError')
    w.stub('QChild.__getitem__0', params={'self': K.Ref('QChild')}, returns=K.Str,
           raises={'TypeError': "dtype_is(self, 'Q')"},
           note="a (lookup, value) child is subscriptable; a Q child is not ('Q' object is not subscriptable)")
    w.stub('QChild.__getitem__1', params={'self': K.Ref('QChild')}, returns=LEAF,
           raises={'TypeError': "dtype_is(self, 'Q')"})
    w.stub('serialize_to_python', params={'value': None}, returns=K.Str,
           note='the module-level dispatcher: total on the leaf grammar and (by this very contract, for smaller trees) on Q '
                'children; the dispatch table maps Q to QSerialization')
    w.contract(
        'QSerialization.serialize_to_python', module=SER, serves=['C13'],
        params={'cls': None, 'value': K.Ref('Q')}, returns=K.Str,
        requires=[
            # the value grammar of the property: any connector of AND/OR/XOR, children are lookups or nested Q objects
            'value.connector in CONNECTORS',
            "forall(range(len(value.children)), lambda i: dtype_is(sel(value.children, i), 'TupleChild') or "
            "       dtype_is(sel(value.children, i), 'Q'))"],
        raises={},            # exception freedom: no TypeError, KeyError, IndexError
        locals={'result': K.Seq(K.Str), 'children': K.Seq(K.Str)},
        invariants={1: LoopInv('for child in value.children:', index='i', clauses=['len(children) == i'])},
        ensures=['True'])
    add_q_payload(w)
    # a class (field type, constraint type) inside a hint: "models.<Name>" exactly for classes that live in
    # django.db.models (the hint file imports that package as `models`); any other class by its bare name, with an
    # import line of its own (get_evolution_content)
    w.cls('ClassObj', {'__module__': K.Str, '__name__': K.Str})
    w.contract(
        'ClassSerialization.serialize_to_python', module=SER, serves=['C13'],
        params={'cls': None, 'value': K.Ref('ClassObj')}, returns=K.Str, raises={}, modifies=[],
        ensures=["result == ('models.' + value.__name__ if value.__module__.startswith('django.db.models') "
                 "           else value.__name__)"])
    fam = Family('contracts.hints', w)
    from pyvc.runner import Lemma
    fam.lemmas.append(Lemma('q_payload_roundtrip', ['C06'], lemma_q_roundtrip))
    return fam


# ------------------------------------------------------------------------------------------ C06: Q <-> signature payload

SERCHILD = K.Atom('SerializedChild')
KW = K.Rec(_connector=K.Str, _negated=K.Bool)
PAYLOAD = K.Rec(_deconstructed=K.Bool, args=K.Seq(SERCHILD), kwargs=KW, type=K.Str)


def add_q_payload(w):
    """QSerialization.serialize_to_signature / deserialize_from_deconstructed: connector, negation and the number
    of children survive the stored form (the children themselves go through the leaf codec: bounded suite)."""
    w.consts['Q.default'] = 'AND'
    w.module_names |= {'six'}
    w.classes['Q']['fields']['default'] = K.Str
    w.stub('q_path', params={'q': K.Ref('Q')}, returns=K.Str, pure=True,
           note="'<module>.<class name>' of the Q object with django.db.models.query_utils shortened to django.db.models")
    w.stub('serialize_to_signature', params={'value': None}, returns=SERCHILD, pure=True,
           note='module-level dispatcher applied to a child (leaf codec; bounded suite)')
    w.contract(
        'QSerialization.serialize_to_signature', module=SER, serves=['C06'],
        params={'cls': None, 'q': K.Ref('Q')}, returns=PAYLOAD,
        requires=["q.default == 'AND'"],
        locals={'kwargs': KW},
        abstract={'q_cls = type(q)': ['q_cls = 0'],
                  "cls_path = '%s.%s' % (q_cls.__module__, q_cls.__name__)": ['cls_path = q_path(q)'],
                  "if cls_path.startswith('django.db.models.query_utils'):": ['_p = 0']},
        ensures=[
            # everything needed to rebuild the Q is written: connector (unless it is the default), negation, every child
            "('_connector' in result['kwargs']) == (q.connector != 'AND')",
            "implies(q.connector != 'AND', result['kwargs']['_connector'] == q.connector)",
            "('_negated' in result['kwargs']) == q.negated",
            "implies(q.negated, result['kwargs']['_negated'])",
            "len(result['args']) == len(q.children)",
            "forall(range(len(q.children)), lambda i: sel(result['args'], i) == serialize_to_signature(sel(q.children, i)))",
            "result['_deconstructed']",
        ])
    w.stub('new_q', params={'args': K.Seq(SERCHILD)}, returns=K.Ref('Q'),
           modifies=['Q.children', 'Q.connector', 'Q.negated', 'Q.default'],
           ensures=['fresh_ref(result)', "result.connector == 'AND'", 'not result.negated',
                    'len(result.children) == len(args)', "result.default == 'AND'"],
           note='type_cls(*new_args, **kwargs): Q.__init__ with positional children only (kwargs is empty once '
                '_negated/_connector are popped): connector AND, not negated')
    w.stub('rebuild_args', params={'args': K.Seq(SERCHILD)}, returns=K.Seq(SERCHILD), pure=True,
           ensures=['len(result) == len(args)'], note='lists become (lookup, value) tuples again; nested Q stay')
    w.stub('Q.negate', params={'self': K.Ref('Q')}, modifies=['Q.negated[self]'],
           ensures=['self.negated == (not old(self.negated))'], note="Django's tree.Node.negate()")
    w.contract(
        'QSerialization.deserialize_from_deconstructed', module=SER, serves=['C06'],
        params={'cls': None, 'type_cls': None, 'args': K.Seq(SERCHILD), 'kwargs': KW},
        returns=K.Ref('Q'),
        locals={'new_args': K.Seq(SERCHILD)},
        modifies=['Q.children', 'Q.connector', 'Q.negated', 'Q.default'],
        abstract={'norm_keywords = six.PY2': ['norm_keywords = False'],
                  'for arg in args:': ['new_args = rebuild_args(args)'],
                  'q = type_cls(*new_args, **kwargs)': ['q = new_q(new_args)'],
                  'if norm_keywords:': ['_n = 0']},
        ensures=[
            "result.connector == (kwargs['_connector'] if '_connector' in kwargs else 'AND')",
            "result.negated == ('_negated' in kwargs and kwargs['_negated'])",
            "len(result.children) == len(args)", 'fresh_ref(result)'])


def lemma_q_roundtrip(fam):
    """deserialize(serialize(q)) has q's connector, negation and child count - from the two contracts alone."""
    from pyvc.lemmas import SpecEnv
    env = SpecEnv(fam.world, {'q': K.Ref('Q'), 'p': PAYLOAD, 'r': K.Ref('Q')})
    ser = fam.world.contracts['QSerialization.serialize_to_signature']
    de = fam.world.contracts['QSerialization.deserialize_from_deconstructed']
    hyps = [env.t("q.default == 'AND'")]
    hyps += [env.t(e.replace('result', 'p')) for e in ser.ensures if 'serialize_to_signature(' not in e]
    hyps += [env.t(e.replace('result', 'r').replace("kwargs", "p['kwargs']").replace('len(args)', "len(p['args'])"))
             for e in de.ensures if 'fresh_ref' not in e]
    goal = env.t('r.connector == q.connector and r.negated == q.negated and len(r.children) == len(q.children)')
    return [('connector_negation_arity', env.assumptions + hyps, goal)]
