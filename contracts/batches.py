"""EvolveAppTask.execute_tasks: every queued evolution batch is executed, once, in order (C14 / C07 / C17)."""
from pyvc import kinds as K
from pyvc.world import World, LoopInv
from pyvc.runner import Family

TASK = 'django_evolution/evolve/evolve_app_task.py'
SQL = K.Atom('SQLItem')
TASKR = K.Ref('EvolveAppTask')
INFO = K.Rec(sql=K.Seq(SQL), evolutions=K.Seq(K.Str))
BATCH = K.Rec(type=K.Str, new_models_sql=K.Seq(SQL), new_models_deferred_sql=K.Seq(SQL),
              new_models_tasks=K.Seq(TASKR), task_evolutions=K.Map(TASKR, INFO),
              migration_targets=K.Atom('Targets'), migration_plan=K.Atom('Plan'))
STATE = K.Rec(batches=K.Seq(BATCH), full_migration_plan=K.Opt(K.Atom('Plan')),
              pre_migrate_state=K.Opt(K.Ref('MigrateState')), migration_executor=K.Opt(K.Ref('MigExecutor')))

# the evolution SQL of batch b, entry x must have been handed to task.execute
RAN = ("exists(range(len(executed)), lambda k: sel(executed, k)[0] is key_at(sel(BATCHES, {b})['task_evolutions'], {x}) and "
       "same(sel(executed, k)[1], sel(BATCHES, {b})['task_evolutions'][key_at(sel(BATCHES, {b})['task_evolutions'], {x})]['sql']))")
ENTRY_DUE = ("live(sel(BATCHES, {b})['task_evolutions'], {x}) and "
             "'sql' in sel(BATCHES, {b})['task_evolutions'][key_at(sel(BATCHES, {b})['task_evolutions'], {x})] and "
             "len(sel(BATCHES, {b})['task_evolutions'][key_at(sel(BATCHES, {b})['task_evolutions'], {x})]['sql']) > 0")
BATCH_DONE = ("implies(sel(BATCHES, {b})['type'] == 'evolutions' and 'task_evolutions' in sel(BATCHES, {b}), "
              "forall(range(log_len(sel(BATCHES, {b})['task_evolutions'])), lambda x: implies(" + ENTRY_DUE.format(b='{b}', x='x') +
              ", " + RAN.format(b='{b}', x='x') + ")))")


def build():
    w = World('batches')
    w.consts['UpgradeMethod.EVOLUTIONS'] = 'evolutions'
    w.consts['UpgradeMethod.MIGRATIONS'] = 'migrations'
    w.module_names |= {'UpgradeMethod', 'itertools', 'MigrationList', 'EvolveAppTask'}
    w.exc('ValueError')
    w.cls('MigrateState', {})
    w.cls('MigExecutor', {})
    w.cls('SQLExecutor', {})
    w.cls('Evolver', {'_evolve_app_task_state': STATE, 'connection': K.Atom('Conn'), 'verbosity': K.Int,
                      'interactive': K.Bool, 'database_name': K.Str, 'project_sig': K.Atom('ProjectSig')})
    w.cls('EvolveAppTask', {'new_models': K.Seq(K.Atom('ModelCls'))}, module=TASK)
    w.ghost_var('executed', K.Seq(K.Tuple(TASKR, K.Seq(SQL))))      # (task, sql) handed to task.execute, in order
    w.ghost_var('created_for', K.Seq(K.Seq(SQL)))                    # sql handed to _create_models, in order
    w.stub('Evolver.sql_executor', params={'self': K.Ref('Evolver'), 'check_constraints': K.Bool},
           defaults={'check_constraints': True}, returns=K.Ref('SQLExecutor'), ensures=['fresh_ref(result)'])
    w.stub('SQLExecutor.__enter__', params={'self': K.Ref('SQLExecutor')}, returns=K.Ref('SQLExecutor'),
           ensures=['result is self'], note='verified in contracts.execution')
    w.stub('SQLExecutor.__exit__', params={'self': K.Ref('SQLExecutor'), 'a': None, 'b': None, 'c': None},
           note='verified in contracts.execution')
    w.stub('EvolveAppTask.execute', params={'self': TASKR, 'sql_executor': K.Ref('SQLExecutor'), 'sql': K.Seq(SQL)},
           kwarg='kwargs', may_raise=['Exception'],
           effects=['executed = executed + [(self, sql)]'], effects_exc=['executed = executed + [(self, sql)]'],
           note='verified in contracts.execution (signals, error wrapping)')
    w.contracts['EvolveAppTask.execute'].params['kwargs'] = None
    w.stub('EvolveAppTask._create_models',
           params={'cls': None, 'sql_executor': K.Ref('SQLExecutor'), 'evolver': K.Ref('Evolver'),
                   'tasks': K.Seq(TASKR), 'sql': K.Seq(SQL)}, may_raise=['Exception'],
           effects=['created_for = created_for + [sql]'], note='verified in contracts.execution')
    w.stub('EvolveAppTask._apply_deferred_sql',
           params={'cls': None, 'sql_executor': K.Ref('SQLExecutor'), 'evolver': K.Ref('Evolver'), 'sql': K.Seq(SQL)},
           may_raise=['Exception'], note='verified in contracts.execution')
    w.stub('migration_step', params={'what': K.Str}, may_raise=['Exception'],
           note='the migration-related statements of execute_tasks (record_applied_migrations, emit_pre/post_migrate_or_sync, '
                'apply_migrations, finalize_migrations, writing applied migrations back): Django territory, see C10 (not applicable)')
    w.consts['cls'] = __import__('pyvc.engine', fromlist=['PyObj']).PyObj('class', name='EvolveAppTask')
    FROZEN = ['BATCHES == old(evolver._evolve_app_task_state)["batches"]' if False else 'batches == BATCHES',
              'evolver._evolve_app_task_state == old(evolver._evolve_app_task_state)']
    w.contract(
        'EvolveAppTask.execute_tasks', module=TASK, serves=['C14', 'C07', 'C17', 'C08'],
        params={'cls': None, 'evolver': K.Ref('Evolver'), 'tasks': K.Seq(TASKR), 'kwargs': None}, kwarg='kwargs',
        requires=['len(executed) == 0',
                  "'batches' in evolver._evolve_app_task_state and 'full_migration_plan' in evolver._evolve_app_task_state and "
                  "'pre_migrate_state' in evolver._evolve_app_task_state and 'migration_executor' in evolver._evolve_app_task_state",
                  "forall(range(len(evolver._evolve_app_task_state['batches'])), lambda b: "
                  "       'type' in sel(evolver._evolve_app_task_state['batches'], b))"],
        raises={'Exception': True, 'ValueError': True, 'KeyError': True, 'AssertionError': True},
        modifies=['executed', 'created_for', '*heap'],
        locals={'deferred_sql': K.Seq(SQL), 'new_models': K.Seq(K.Atom('ModelCls'))},
        abstract={
            'new_models = list(itertools.chain.from_iterable(': ['new_models = new_models_of(tasks)'],
            'if migrating:\n            # If we have any applied migration names': ["if migrating:\n    migration_step('record')"],
            'emit_pre_migrate_or_sync(': ["migration_step('pre')"],
            'if migrating and migrate_state:': ['_m = 0'],
            'assert migrating': ['_a = 0'],
            'migrate_state = apply_migrations(': ["migration_step('apply')"],
            'if migrating:\n            finalize_migrations(migrate_state)': ["if migrating:\n    migration_step('finalize')"],
            'emit_post_migrate_or_sync(': ["migration_step('post')"],
        },
        ghost_before={'deferred_sql = []': ["BATCHES = batches"]},
        invariants={
            1: LoopInv('for batch_info in batches:', index='bi', clauses=[
                'batches == BATCHES',
                # a task is only ever executed with the (non-empty) SQL its batch holds for it - never with "no SQL",
                # which execute() would read as "all of the task's SQL"
                'forall(range(len(executed)), lambda k: len(sel(executed, k)[1]) > 0)',
                # every due evolution entry of the batches handled so far was executed
                'forall(range(bi), lambda b: %s)' % BATCH_DONE.format(b='b')]),
            2: LoopInv('for task, task_info in six.iteritems(task_evolutions):', index='xi', clauses=[
                'batches == BATCHES', 'bi < len(BATCHES)', 'batch_info == sel(BATCHES, bi)',
                "'task_evolutions' in batch_info", "task_evolutions == batch_info['task_evolutions']",
                "batch_type == 'evolutions'", "batch_info['type'] == 'evolutions'", 'forall(range(len(executed)), lambda k: len(sel(executed, k)[1]) > 0)',
                'forall(range(bi), lambda b: %s)' % BATCH_DONE.format(b='b'),
                'forall(range(xi), lambda x: implies(%s, %s))' % (ENTRY_DUE.format(b='bi', x='x'), RAN.format(b='bi', x='x'))]),
        },
        ensures=[
            # no due evolution SQL is skipped: what the batches list (and what --sql previews) gets executed
            'forall(range(len(BATCHES)), lambda b: %s)' % BATCH_DONE.format(b='b'),
            'forall(range(len(executed)), lambda k: len(sel(executed, k)[1]) > 0)'],
        note='migration-related statements abstracted to an opaque step (C10 is not applicable); the evolution batches, '
             'the executor context and the per-task loop are analysed as written')
    w.stub('new_models_of', params={'tasks': K.Seq(TASKR)}, returns=K.Seq(K.Atom('ModelCls')), pure=True)
    return Family('contracts.batches', w)
