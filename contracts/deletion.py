"""C15: DeleteModel / DeleteApplication remove exactly what was named; purge only on request."""
from pyvc import kinds as K
from pyvc.world import World, LoopInv
from pyvc.runner import Family, Syntactic
from . import sigsim, refs

DELM = 'django_evolution/mutations/delete_model.py'
DELA = 'django_evolution/mutations/delete_application.py'
EVOLVER = 'django_evolution/evolve/evolver.py'
CMD = 'django_evolution/management/commands/evolve.py'

# whole-view frame: every app other than `a` keeps exactly its models, `a` keeps every model but those named
OTHERS_SAME = ("forall(Ref_App, lambda b: implies(b is not %(a)s, b._model_sigs == old(b._model_sigs)))")
APPS_SAME = "simulation.project_sig._app_sigs == old(simulation.project_sig._app_sigs)"


def build():
    w = World('deletion')
    sigsim.declare_signature_classes(w)
    sigsim.declare_accessors(w, [])
    sigsim.declare_simulation(w, [])
    refs.declare_views(w)
    w.kinds['Str'] = K.Str
    w.module_names |= {'models'}
    w.stub('AppSignature.remove_model_sig', params={'self': K.Ref('AppSignature'), 'model_name': K.Str},
           modifies=['AppSignature._model_sigs[self]'],
           raises={'MissingSignatureError': 'model_name not in self._model_sigs'},
           ensures=['model_name not in self._model_sigs',
                    'forall(Str, lambda k: implies(k != model_name, (k in self._model_sigs) == old(k in self._model_sigs) and '
                    '       implies(k in self._model_sigs, self._model_sigs[k] is old(self._model_sigs[k]))))'],
           note='del self._model_sigs[model_name]')

    # ---- DeleteModel.simulate ------------------------------------------------------------------------
    w.cls('DeleteModel', {'model_name': K.Str}, bases=['BaseMutation'], module=DELM)
    w.contract(
        'DeleteModel.simulate', module=DELM, serves=['C15'],
        params={'self': K.Ref('DeleteModel'), 'simulation': K.Ref('Simulation')},
        raises={'SimulationFailure': True, 'MissingSignatureError': True},
        modifies=['AppSignature._model_sigs'],
        ensures=[
            # exactly the named model of the simulated app goes away ...
            'self.model_name not in old(simulation.get_app_sig())._model_sigs',
            'old(self.model_name in simulation.get_app_sig()._model_sigs)',
            'forall(Str, lambda k: implies(k != self.model_name, '
            '       (k in old(simulation.get_app_sig())._model_sigs) == old(k in simulation.get_app_sig()._model_sigs) and '
            '       implies(k in old(simulation.get_app_sig())._model_sigs, '
            '               old(simulation.get_app_sig())._model_sigs[k] is old(simulation.get_app_sig()._model_sigs[k]))))',
            # ... every other app's entries and the set of apps are untouched
            OTHERS_SAME % {'a': 'old(simulation.get_app_sig())'},
            APPS_SAME,
        ])

    # ---- DeleteApplication.simulate ----------------------------------------------------------------------
    w.cls('DeleteApplication', {}, bases=['BaseMutation'], module=DELA)
    w.stub('DeleteModel.__init__', params={'self': K.Ref('DeleteModel'), 'model_name': K.Str},
           modifies=['DeleteModel.model_name[self]'], ensures=['self.model_name == model_name'])
    w.stub('DeleteModel.is_mutable',
           params={'self': K.Ref('DeleteModel'), 'app_label': K.Str, 'project_sig': K.Ref('ProjectSignature'),
                   'database_state': K.Atom('DatabaseState'), 'database': K.Opt(K.Str)},
           returns=None, pure=False,
           ensures=['truthy(result) == model_routed_here(app_label, self.model_name, database)'],
           note='BaseModelMutation.is_mutable (C16 verifies it against the router); here an uninterpreted predicate '
                'model_routed_here(app, model, db)')
    import z3

    def routed(it, app, model, db):
        f = it.p.ctx.ufunc('model_routed_here', z3.StringSort(), z3.StringSort(), z3.BoolSort(), z3.StringSort(), z3.BoolSort())
        db = K.coerce(db, K.Opt(K.Str))
        return K.vbool(f(app.t, model.t, db.terms[0], db.terms[1]))
    w.spec_funcs['model_routed_here'] = routed
    w.contracts['DeleteModel.is_mutable'].returns = K.Bool
    w.contracts['DeleteModel.is_mutable'].ensures = ['result == model_routed_here(app_label, self.model_name, database)']
    w.stub('list', params={'x': None}, returns=None)
    w.contract(
        'DeleteApplication.simulate', module=DELA, serves=['C15', 'C16'],
        params={'self': K.Ref('DeleteApplication'), 'simulation': K.Ref('Simulation')},
        raises={'SimulationFailure': True, 'MissingSignatureError': True},
        modifies=['AppSignature._model_sigs', 'DeleteModel.model_name'],
        locals={'model_name': K.Str},
        ghost_before={'for model_sig in list(app_sig.model_sigs):': ['A = app_sig', 'M0 = app_sig._model_sigs']},
        invariants={1: LoopInv(
            'for model_sig in list(app_sig.model_sigs):', index='i', clauses=[
                'app_sig is A', 'simulation.project_sig._app_sigs == old(simulation.project_sig._app_sigs)',
                'simulation.app_label == old(simulation.app_label)', 'simulation.database == old(simulation.database)',
                OTHERS_SAME % {'a': 'A'},
                # models of this app: those visited and routed here are gone, everything else is as it was
                'forall(Str, lambda k: implies(k in A._model_sigs, k in M0 and A._model_sigs[k] is M0[k]))',
                'forall(range(i), lambda x: implies(model_routed_here(simulation.app_label, sel(i_seq, x).model_name, simulation.database), '
                '       sel(i_seq, x).model_name not in A._model_sigs))',
                'forall(Str, lambda k: implies(k in M0 and not model_routed_here(simulation.app_label, k, simulation.database), '
                '       k in A._model_sigs))',
                'forall(Ref_Model, lambda m: m.model_name == old(m.model_name))',
            ])},
        ensures=[
            OTHERS_SAME % {'a': 'old(simulation.get_app_sig())'} + ' or not truthy(old(simulation.database))',
            APPS_SAME,
            # models routed to another database keep their signature entries
            'implies(truthy(old(simulation.database)), forall(Str, lambda k: implies('
            '        old(k in simulation.get_app_sig()._model_sigs) and '
            '        not model_routed_here(old(simulation.app_label), k, old(simulation.database)), '
            '        k in old(simulation.get_app_sig())._model_sigs)))',
        ],
        note="list(app_sig.model_sigs) is modelled as the snapshot list of the app's model signatures")

    add_delete_model_mutate(w)
    add_delete_application_mutate(w)
    fam = Family('contracts.deletion', w)
    fam.replay['DeleteApplication.mutate'] = replay_delete_app
    fam.syntactic.append(Syntactic('purge_only_on_request', ['C15'], syn_purge_gate,
                                   'Command._add_tasks queues purge tasks only under `if self.purge:`; '
                                   'Evolver.queue_purge_old_apps iterates exactly initial_diff.deleted; no other caller '
                                   'of queue_purge_app/queue_purge_old_apps exists in the package'))
    fam.syntactic.append(Syntactic('delete_model_drop_list', ['C15'], syn_drop_list,
                                   'DeleteModel.mutate calls delete_table exactly twice: once per M2M field (inside the loop, on the '
                                   'field\'s own m2m table) and once on model._meta.db_table'))
    return fam


def replay_delete_app(label, inputs):
    """Native probe of the postcondition of DeleteApplication.mutate: for a small family of stored app signatures
    (every upgrade method, with and without applied migrations, 0-2 models) the real method must hand a DeleteModel
    for every model of the app to mutator.run_mutation (no router is installed, so every model is routed here).
    The solver's counter-model is not decoded; the first failing probe is the reported input."""
    from django_evolution.mutations import DeleteApplication
    from django_evolution.signature import ProjectSignature, AppSignature, ModelSignature

    class Rec(object):
        def __init__(self, project_sig):
            self.database, self.app_label, self.project_sig, self.database_state = 'default', 'tests', project_sig, None
            self.ran = []

        def run_mutation(self, mutation):
            self.ran.append(mutation.model_name)
    for method in (None, 'evolutions', 'migrations'):
        for applied in (None, [], ['0001_initial']):
            for names in ([], ['A'], ['A', 'B']):
                ps = ProjectSignature()
                app = AppSignature('tests', upgrade_method=method, applied_migrations=applied)
                for n in names:
                    app.add_model_sig(ModelSignature(model_name=n, table_name='tests_' + n.lower()))
                ps.add_app_sig(app)
                rec = Rec(ps)
                try:
                    DeleteApplication().mutate(rec)
                except Exception as e:      # noqa
                    return {'reproduced': True, 'inputs': {'upgrade_method': method, 'applied_migrations': applied,
                                                           'models': names}, 'raised': repr(e)}
                if sorted(rec.ran) != sorted(names):
                    return {'reproduced': True, 'inputs': {'upgrade_method': method, 'applied_migrations': applied,
                                                           'models': names}, 'deleted': rec.ran, 'expected': names}
    return {'reproduced': False, 'note': 'all probes satisfy the postcondition'}


def syn_purge_gate():
    import ast, os, glob
    from pyvc import extract
    ex = extract.find(CMD, 'Command._add_tasks')
    ok_gate = False
    for n in ast.walk(ex.node):
        if isinstance(n, ast.If) and ast.unparse(n.test) == 'self.purge':
            calls = [ast.unparse(c.func) for c in ast.walk(n) if isinstance(c, ast.Call)]
            ok_gate = calls == ['evolver.queue_purge_old_apps']
    outside = []
    for n in ast.walk(ex.node):
        if isinstance(n, ast.Call) and 'purge' in ast.unparse(n.func):
            outside.append(ast.unparse(n.func))
    ex2 = extract.find(EVOLVER, 'Evolver.queue_purge_old_apps')
    loops = [n for n in ast.walk(ex2.node) if isinstance(n, ast.For)]
    ok_iter = len(loops) == 1 and ast.unparse(loops[0].iter) == 'self.initial_diff.deleted' and \
        ast.unparse(loops[0].body[0]).startswith('self.queue_purge_app(app_label)')
    callers = []
    root = os.path.join(extract.REPO, 'django_evolution')
    for path in glob.glob(root + '/**/*.py', recursive=True):
        if '/tests/' in path:
            continue
        src = open(path).read()
        for name in ('queue_purge_old_apps(', 'queue_purge_app('):
            for i, line in enumerate(src.splitlines()):
                if name in line and 'def ' not in line:
                    callers.append('%s:%d' % (os.path.relpath(path, extract.REPO), i + 1))
    expected = {'django_evolution/management/commands/evolve.py', 'django_evolution/evolve/evolver.py'}
    ok_callers = {c.split(':')[0] for c in callers} <= expected
    return ok_gate and ok_iter and ok_callers and outside == ['evolver.queue_purge_old_apps'], \
        'gate=%s iter=%s callers=%r purge-calls-in-_add_tasks=%r' % (ok_gate, ok_iter, callers, outside)


def syn_drop_list():
    import ast
    from pyvc import extract
    ex = extract.find(DELM, 'DeleteModel.mutate')
    calls = []

    def walk(n, in_loop):
        for ch in ast.iter_child_nodes(n):
            if isinstance(ch, ast.Call) and ast.unparse(ch.func).endswith('delete_table'):
                calls.append((in_loop, ast.unparse(ch.args[0]) if ch.args else ''))
            walk(ch, in_loop or isinstance(ch, (ast.For, ast.While)))
    walk(ex.node, False)
    ok = sorted(calls) == sorted([(True, 'm2m_table'), (False, 'model._meta.db_table')])
    return ok, 'delete_table calls: %r' % (calls,)


# ------------------------------------------------------------------------------------------ DeleteModel.mutate

def add_delete_application_mutate(w):
    """DeleteApplication.mutate: a DeleteModel is run for every model of the app that is routed to this database, for
    none that is not, whatever the app's upgrade method."""
    w.cls('AppMutatorD', {'database': K.Opt(K.Str), 'app_label': K.Str, 'project_sig': K.Ref('ProjectSignature'),
                          'database_state': K.Atom('DatabaseState')})
    w.ghost_var('ran', K.Seq(K.Str))        # model names handed to mutator.run_mutation as DeleteModel, in order
    w.stub('AppMutatorD.run_mutation', params={'self': K.Ref('AppMutatorD'), 'mutation': K.Ref('DeleteModel')},
           effects=['ran = ran + [mutation.model_name]'],
           note='AppMutator.run_mutation: simulates the DeleteModel and queues its DROP TABLE statements '
                '(DeleteModel.mutate is verified separately)')
    w.spec_funcs['no_models'] = lambda it: K.empty_seq(K.Ref('ModelSignature'))
    ROUTED = 'model_routed_here(mutator.app_label, %s, mutator.database)'
    w.contract(
        'DeleteApplication.mutate', module=DELA, serves=['C15', 'C16'],
        params={'self': K.Ref('DeleteApplication'), 'mutator': K.Ref('AppMutatorD')},
        requires=['len(ran) == 0',
                  # the app being deleted has a signature entry (the purge task is only queued for such apps)
                  'mutator.project_sig.get_app_sig(mutator.app_label) is not None'],
        raises={}, modifies=['ran', 'DeleteModel.model_name'],
        locals={'model_name': K.Str},
        ghost_before={'if mutator.database:': ['MS = no_models()'],
                      'mutator.run_mutation(mutation)': ['R0 = ran']},
        ghost_in_body={'app_sig = mutator.project_sig.get_app_sig(': ['MS = list(app_sig.model_sigs)'],
                       'mutator.run_mutation(mutation)': [       # proof hints: the log grew by exactly this model
            'assert len(ran) == len(R0) + 1', 'assert sel(ran, len(R0)) == model_name',
            'assert forall(range(len(R0)), lambda j: sel(ran, j) == sel(R0, j))']},
        invariants={1: LoopInv(
            'for model_sig in list(app_sig.model_sigs):', index='i', clauses=[
                'same(i_seq, MS)',
                'mutator.app_label == old(mutator.app_label)', 'mutator.database == old(mutator.database)',
                'forall(Ref_Model, lambda m: m.model_name == old(m.model_name))',
                'forall(range(i), lambda x: implies(%s, exists(range(len(ran)), lambda j: sel(ran, j) == sel(MS, x).model_name)))'
                % (ROUTED % 'sel(MS, x).model_name'),
                'forall(range(len(ran)), lambda j: exists(range(i), lambda x: sel(ran, j) == sel(MS, x).model_name and %s))'
                % (ROUTED % 'sel(MS, x).model_name'),
            ])},
        ensures=[
            # nothing without a database; otherwise exactly the app's models that live on this database are dropped
            'implies(not truthy(mutator.database), len(ran) == 0)',
            'implies(truthy(mutator.database), forall(range(len(MS)), lambda x: implies(%s, '
            '        exists(range(len(ran)), lambda j: sel(ran, j) == sel(MS, x).model_name))))' % (ROUTED % 'sel(MS, x).model_name'),
            'implies(truthy(mutator.database), forall(range(len(ran)), lambda j: exists(range(len(MS)), lambda x: '
            '        sel(ran, j) == sel(MS, x).model_name and %s)))' % (ROUTED % 'sel(MS, x).model_name'),
        ],
        note="MS = list(app_sig.model_sigs), the snapshot the loop iterates over")


def add_delete_model_mutate(w):
    import z3
    SR = K.Ref('SQLResult')
    w.cls('SQLResult', {'drops_table': K.Str})
    w.cls('FieldObj', {})
    w.cls('MetaObj', {'db_table': K.Str})
    w.cls('MockModel', {'_meta': K.Ref('MetaObj')})
    w.cls('Backend', {})
    w.cls('ModelMutator', {'model_sig': K.Ref('ModelSignature'), 'evolver': K.Ref('Backend')})
    w.ghost_var('added', K.Seq(K.Tuple(SR, K.Str)))        # (receiving result object, table dropped) in order
    w.ghost_var('submitted', K.Opt(SR))                    # the result handed to mutator.add_sql
    w.ghost_var('submit_count', K.Int)

    def m2m_table_of(it, model, field_name):
        f = it.p.ctx.ufunc('m2m_table_of', z3.IntSort(), z3.StringSort(), z3.StringSort())
        return K.vstr(f(model.t, field_name.t))
    w.spec_funcs['m2m_table_of'] = m2m_table_of
    w.stub('SQLResult.__init__', params={'self': SR}, modifies=['SQLResult.drops_table[self]'])
    w.stub('MetaObj.get_field', params={'self': K.Ref('MetaObj'), 'name': K.Str}, returns=K.Ref('FieldObj'), pure=True, reads=())
    w.stub('FieldObj._get_m2m_db_table', params={'self': K.Ref('FieldObj'), 'opts': K.Ref('MetaObj')}, returns=K.Str,
           pure=True, reads=(), note="Django: the automatically created table of a ManyToManyField")
    w.stub('Backend.delete_table', params={'self': K.Ref('Backend'), 'table_name': K.Str}, returns=SR,
           modifies=['SQLResult.drops_table'],
           ensures=['fresh_ref(result)', 'result.drops_table == table_name',
                    'forall(Ref_SQLResult, lambda r: implies(not fresh_ref(r), r.drops_table == old(r.drops_table)))'],
           note='DROP TABLE <name> as a new result object')
    w.kinds['Ref_SQLResult'] = SR
    w.stub('SQLResult.add', params={'self': SR, 'sql_or_result': SR},
           effects=['added = added + [(self, sql_or_result.drops_table)]'],
           note='merges the statements of the argument into self')
    w.stub('ModelMutator.add_sql', params={'self': K.Ref('ModelMutator'), 'mutation': K.Ref('DeleteModel'), 'sql': SR},
           effects=['submitted = sql', 'submit_count = submit_count + 1'],
           note='queues the SQL for execution')
    FS = 'mutator.model_sig._field_sigs'
    TABLE_OF = ("FieldObj__get_m2m_db_table(model._meta.get_field({fs}[key_at({fs}, {x})].field_name), model._meta)"
                .format(fs=FS, x='{x}'))
    w.define('m2m_table_at', ['mutator', 'model', 'x'],
             "model._meta.get_field(%s[key_at(%s, x)].field_name)._get_m2m_db_table(model._meta)" % (FS, FS))
    w.contract(
        'DeleteModel.mutate', module=DELM, serves=['C15'],
        params={'self': K.Ref('DeleteModel'), 'mutator': K.Ref('ModelMutator'), 'model': K.Ref('MockModel')},
        requires=['len(added) == 0', 'submit_count == 0'],
        modifies=['added', 'submitted', 'submit_count', 'SQLResult.drops_table'],
        raises={},
        invariants={1: LoopInv('for field_sig in mutator.model_sig.field_sigs:', index='i', clauses=[
            'submit_count == 0', 'mutator.model_sig._field_sigs == old(mutator.model_sig._field_sigs)',
            'model._meta.db_table == old(model._meta.db_table)',
            # every drop so far went into the one result object that will be submitted
            'forall(range(len(added)), lambda a: sel(added, a)[0] is sql_result)',
            # the auto-created table of every many-to-many field seen so far is dropped ...
            'forall(range(i), lambda x: implies(live(%s, x) and is_m2m(%s[key_at(%s, x)].field_type), '
            '       exists(range(len(added)), lambda a: sel(added, a)[1] == m2m_table_at(mutator, model, x))))' % (FS, FS, FS),
            # ... and nothing else is
            'forall(range(len(added)), lambda a: exists(range(i), lambda x: live(%s, x) and '
            '       is_m2m(%s[key_at(%s, x)].field_type) and sel(added, a)[1] == m2m_table_at(mutator, model, x)))' % (FS, FS, FS),
        ])},
        ensures=[
            'submit_count == 1', 'submitted is not None',
            'forall(range(len(added)), lambda a: sel(added, a)[0] is some(submitted))',
            # exactly: the M2M tables of the model, then the model's own table
            'len(added) >= 1', 'sel(added, len(added) - 1)[1] == old(model._meta.db_table)',
            'forall(range(log_len(%s)), lambda x: implies(live(%s, x) and is_m2m(%s[key_at(%s, x)].field_type), '
            '       exists(range(len(added) - 1), lambda a: sel(added, a)[1] == m2m_table_at(mutator, model, x))))'
            % (FS, FS, FS, FS),
            'forall(range(len(added) - 1), lambda a: exists(range(log_len(%s)), lambda x: live(%s, x) and '
            '       is_m2m(%s[key_at(%s, x)].field_type) and sel(added, a)[1] == m2m_table_at(mutator, model, x)))'
            % (FS, FS, FS, FS),
        ])
    w.spec_funcs['is_m2m'] = sigsim.is_m2m
