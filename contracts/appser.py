"""C06: AppSignature.serialize / deserialize (signature version 2) and the app-level round-trip lemma.

What is written per app: legacy label, upgrade method (when set), applied migrations (only for the 'migrations' method),
one entry per model.  The model entries themselves go through ModelSignature.serialize/deserialize (uninterpreted here;
bounded suite).  The lemma states which app-level fields survive deserialize(serialize(a)) from the two contracts alone.
"""
from pyvc import kinds as K
from pyvc.world import World, LoopInv
from pyvc.runner import Family, Lemma
from .common import seq_member

SIG = 'django_evolution/signature.py'
MODELD = K.Atom('ModelDict')
APP = K.Ref('AppSignature')
MODEL = K.Ref('ModelSignature')
MODELS = K.Map(K.Str, MODELD)
APPD = K.Rec(legacy_app_label=K.Opt(K.Str), upgrade_method=K.Opt(K.Str), applied_migrations=K.Seq(K.Str), models=MODELS)


def build():
    w = World('appser')
    w.kinds.update({'Str': K.Str, 'Ref_Model': MODEL})
    w.module_names |= {'six'}
    w.exc('InvalidSignatureVersion')
    w.cls('ModelSignature', {'model_name': K.Str}, module=SIG)
    w.cls('AppSignature', {'app_id': K.Str, 'legacy_app_label': K.Opt(K.Str), 'upgrade_method': K.Opt(K.Str),
                           'applied_migrations': K.Opt(K.Set(K.Str)), '_loaded_sig_version': K.Opt(K.Int),
                           '_model_sigs': K.Map(K.Str, MODEL)}, module=SIG)
    w.consts['UpgradeMethod.MIGRATIONS'] = 'migrations'
    w.consts['UpgradeMethod.EVOLUTIONS'] = 'evolutions'
    w.cls('UpgradeMethod', {})
    w.consts['LATEST_SIGNATURE_VERSION'] = 2
    w.consts['DEFAULT_DB_ALIAS'] = 'default'
    w.spec_funcs['member'] = seq_member
    w.stub('validate_sig_version', params={'sig_version': K.Int},
           raises={'InvalidSignatureVersion': 'sig_version != 1 and sig_version != 2'},
           note='raises for anything but the two known versions')
    w.stub('ModelSignature.serialize', params={'self': MODEL, 'sig_version': K.Int}, returns=MODELD, pure=True,
           note='model level: uninterpreted function of the model signature (bounded suite)')
    w.stub('ModelSignature.deserialize', params={'cls': None, 'model_name': K.Str, 'model_sig_dict': MODELD,
                                                 'sig_version': K.Int, 'database': K.Str},
           returns=MODEL, modifies=['ModelSignature.model_name'],
           ensures=['fresh_ref(result)', 'result.model_name == model_name',
                    'forall(Ref_Model, lambda m: implies(not fresh_ref(m), m.model_name == old(m.model_name)))'],
           note='model level: a new ModelSignature named model_name (content: bounded suite)')
    w.contract(
        'AppSignature.serialize', module=SIG, serves=['C06'],
        params={'self': APP, 'sig_version': K.Int}, defaults={'sig_version': 2}, returns=APPD,
        requires=['sig_version == 2'],
        raises={}, modifies=[],
        locals={'app_sig_dict': APPD, 'model_sigs_dict': MODELS},
        # `app_sig_dict['models'] = model_sigs_dict` stores a dict that is filled afterwards (aliasing): the store is
        # replayed at the return, when the dict is complete
        abstract={"app_sig_dict['models'] = model_sigs_dict": ['_alias = 0']},
        ghost_before={'return app_sig_dict': ["app_sig_dict['models'] = model_sigs_dict"]},
        invariants={1: LoopInv('for model_name, model_sig in six.iteritems(self._model_sigs):', index='i', clauses=[
            'forall(range(i), lambda a: implies(live(self._model_sigs, a), key_at(self._model_sigs, a) in model_sigs_dict and '
            '       model_sigs_dict[key_at(self._model_sigs, a)] == '
            '       self._model_sigs[key_at(self._model_sigs, a)].serialize(2)))',
            'forall(Str, lambda k: implies(k in model_sigs_dict, k in self._model_sigs))',
        ])},
        ensures=[
            "'legacy_app_label' in result and result['legacy_app_label'] == self.legacy_app_label",
            "('upgrade_method' in result) == truthy(self.upgrade_method)",
            "implies(truthy(self.upgrade_method), result['upgrade_method'] == self.upgrade_method)",
            "('applied_migrations' in result) == (self.upgrade_method == 'migrations')",
            "implies(self.upgrade_method == 'migrations', forall(Str, lambda m: member(result['applied_migrations'], m) == "
            "        (self.applied_migrations is not None and m in some(self.applied_migrations))))",
            "'models' in result",
            "forall(Str, lambda k: (k in result['models']) == (k in self._model_sigs))",
            "forall(Str, lambda k: implies(k in self._model_sigs, result['models'][k] == "
            "       self._model_sigs[k].serialize(2)))",
        ])
    w.stub('AppSignature.__init__',
           params={'self': APP, 'app_id': K.Str, 'legacy_app_label': K.Opt(K.Str), 'upgrade_method': K.Opt(K.Str),
                   'applied_migrations': K.Opt(K.Seq(K.Str))},
           defaults={'legacy_app_label': None, 'upgrade_method': None, 'applied_migrations': None},
           modifies=['AppSignature.app_id[self]', 'AppSignature.legacy_app_label[self]', 'AppSignature.upgrade_method[self]',
                     'AppSignature.applied_migrations[self]', 'AppSignature._loaded_sig_version[self]',
                     'AppSignature._model_sigs[self]'],
           ensures=['self.app_id == app_id',
                    'self.legacy_app_label == (legacy_app_label if truthy(legacy_app_label) else app_id)',
                    'self.upgrade_method == upgrade_method',
                    '(self.applied_migrations is None) == (applied_migrations is None)',
                    'implies(applied_migrations is not None, forall(Str, lambda m: (m in some(self.applied_migrations)) == '
                    '        member(some(applied_migrations), m)))',
                    'len(self._model_sigs) == 0', 'forall(Str, lambda k: k not in self._model_sigs)'],
           note='constructor + the applied_migrations setter (a list becomes a set, None stays None)')
    w.stub('AppSignature.add_model_sig', params={'self': APP, 'model_sig': MODEL},
           modifies=['AppSignature._model_sigs[self]'],
           ensures=['model_sig.model_name in self._model_sigs', 'self._model_sigs[model_sig.model_name] is model_sig',
                    'forall(Str, lambda k: implies(k != model_sig.model_name, (k in self._model_sigs) == old(k in self._model_sigs) '
                    '       and implies(k in self._model_sigs, self._model_sigs[k] is old(self._model_sigs[k]))))'],
           note='self._model_sigs[model_sig.model_name] = model_sig')
    w.consts['cls'] = __import__('pyvc.engine', fromlist=['PyObj']).PyObj('class', name='AppSignature')
    w.contract(
        'AppSignature.deserialize', module=SIG, serves=['C06'],
        params={'cls': None, 'app_id': K.Str, 'app_sig_dict': APPD, 'sig_version': K.Int, 'database': K.Str},
        defaults={'database': 'default'}, returns=APP,
        requires=['sig_version == 2', "'models' in app_sig_dict", "'legacy_app_label' in app_sig_dict"],
        raises={},
        modifies=['AppSignature.app_id', 'AppSignature.legacy_app_label', 'AppSignature.upgrade_method',
                  'AppSignature.applied_migrations', 'AppSignature._loaded_sig_version', 'AppSignature._model_sigs',
                  'ModelSignature.model_name'],
        locals={'model_sigs_dict': MODELS},
        invariants={1: LoopInv('for model_name, model_sig_dict in six.iteritems(model_sigs_dict):', index='i', clauses=[
            'fresh_ref(app_sig)', 'app_sig.app_id == app_id',
            'app_sig.legacy_app_label == (app_sig_dict["legacy_app_label"] if truthy(app_sig_dict["legacy_app_label"]) else app_id)',
            'app_sig.upgrade_method == (app_sig_dict["upgrade_method"] if "upgrade_method" in app_sig_dict else None)',
            '(app_sig.applied_migrations is None) == ("applied_migrations" not in app_sig_dict)',
            'implies("applied_migrations" in app_sig_dict, forall(Str, lambda m: (m in some(app_sig.applied_migrations)) == '
            '        member(app_sig_dict["applied_migrations"], m)))',
            'forall(range(i), lambda a: implies(live(model_sigs_dict, a), key_at(model_sigs_dict, a) in app_sig._model_sigs))',
            'forall(Str, lambda k: implies(k in app_sig._model_sigs, k in model_sigs_dict))',
        ])},
        ensures=[
            'fresh_ref(result)', 'result.app_id == app_id',
            'result.legacy_app_label == (app_sig_dict["legacy_app_label"] if truthy(app_sig_dict["legacy_app_label"]) else app_id)',
            'result.upgrade_method == (app_sig_dict["upgrade_method"] if "upgrade_method" in app_sig_dict else None)',
            '(result.applied_migrations is None) == ("applied_migrations" not in app_sig_dict)',
            'implies("applied_migrations" in app_sig_dict, forall(Str, lambda m: (m in some(result.applied_migrations)) == '
            '        member(app_sig_dict["applied_migrations"], m)))',
            'forall(Str, lambda k: (k in result._model_sigs) == (k in app_sig_dict["models"]))',
        ])
    fam = Family('contracts.appser', w)
    fam.lemmas.append(Lemma('app_metadata_roundtrip', ['C06'], lemma_roundtrip))
    fam.replay['app_metadata_roundtrip'] = replay_roundtrip
    fam.replay['AppSignature.serialize'] = replay_serialize
    return fam


WF = ['truthy(a.legacy_app_label)',
      "a.upgrade_method is None or a.upgrade_method == 'evolutions' or a.upgrade_method == 'migrations'"]


def lemma_roundtrip(fam):
    """r = deserialize(a.app_id, serialize(a)): same legacy label, upgrade method, applied migrations, model names."""
    from pyvc.lemmas import SpecEnv
    from pyvc.runner import load_known
    import z3
    w = fam.world
    env = SpecEnv(w, {'a': APP, 'p': APPD, 'r': APP})
    ser, de = w.contracts['AppSignature.serialize'], w.contracts['AppSignature.deserialize']
    hyps = [env.t(x) for x in WF]
    import re

    def sub(text, mapping):
        for name, repl in mapping.items():
            text = re.sub(r'(?<![\w.])%s\b' % name, repl, text)
        return text
    hyps += [env.t(sub(e, {'result': 'p', 'self': 'a'})) for e in ser.ensures]
    hyps += [env.t(sub(e, {'result': 'r', 'app_sig_dict': 'p', 'app_id': 'a.app_id'}))
             for e in de.ensures if 'fresh_ref' not in e]
    for k in load_known()['findings']:
        if k.get('obligation') == 'lemma:app_metadata_roundtrip:metadata':
            hyps.append(z3.Not(env.t(k['guard'])))
    goal = env.t('r.legacy_app_label == a.legacy_app_label and r.upgrade_method == a.upgrade_method and '
                 '(r.applied_migrations is None) == (a.applied_migrations is None) and '
                 'implies(a.applied_migrations is not None, forall(Str, lambda m: (m in some(r.applied_migrations)) == '
                 '        (m in some(a.applied_migrations)))) and '
                 'forall(Str, lambda k: (k in r._model_sigs) == (k in a._model_sigs))')

    def decode(m):
        return {'note': 'countermodel of the app-level round trip', 'model': str(m)[:1500]}
    return [('metadata', env.assumptions + hyps, goal, decode)]


def replay_roundtrip(label, inputs):
    """Probe all (upgrade method, applied migrations) shapes natively; `inputs` may restrict to a known class."""
    from django_evolution.signature import AppSignature
    bad = []
    only = inputs.get('shapes')
    for method in (None, 'evolutions', 'migrations'):
        for applied in (None, [], ['0001_initial', '0002_more']):
            if only is not None and [method, applied is not None] not in only:
                continue
            a = AppSignature('app', legacy_app_label='legacy', upgrade_method=method, applied_migrations=applied)
            r = AppSignature.deserialize('app', a.serialize(2), 2)
            if (r.legacy_app_label, r.upgrade_method, r.applied_migrations) != \
                    (a.legacy_app_label, a.upgrade_method, a.applied_migrations):
                bad.append({'upgrade_method': method, 'applied_migrations': applied,
                            'reloaded': [r.upgrade_method, sorted(r.applied_migrations) if r.applied_migrations is not None else None]})
    return {'reproduced': bool(bad), 'failing': bad, 'inputs': inputs}


def replay_serialize(label, inputs):
    """Native probe of the serialize postconditions over every (upgrade method, applied migrations) shape."""
    from django_evolution.signature import AppSignature
    for method in (None, 'evolutions', 'migrations'):
        for applied in (None, [], ['0002_more', '0001_initial']):
            a = AppSignature('app', legacy_app_label='legacy', upgrade_method=method, applied_migrations=applied)
            d = a.serialize(2)
            want = {'legacy_app_label': 'legacy', 'models': {}}
            if method:
                want['upgrade_method'] = method
            if method == 'migrations':
                want['applied_migrations'] = sorted(applied or [])
            got = {k: (dict(v) if k == 'models' else v) for k, v in d.items()}
            if got != want:
                return {'reproduced': True, 'inputs': {'upgrade_method': method, 'applied_migrations': applied},
                        'got': repr(got), 'want': repr(want)}
    return {'reproduced': False, 'note': 'all shapes satisfy the postconditions'}
