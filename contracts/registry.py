"""Which contract families decide which property, and at what claimed level."""
PROPS = {
    'C03': {
        'families': ['contracts.optimizer', 'contracts.optfold', 'contracts.sigsim', 'contracts.rebuild', 'contracts.table_ops', 'contracts.determinism', 'contracts.optfwd', 'contracts.native'],
        'level': 'other',
        'technique': 'frame obligation by a conservative def-use scan of the real AST + contract on the fallback path; bounded native stand-in for result equivalence',
        'text': 'Frame obligation "processing does not alter the evolution definitions" decided by a conservative scan of every store '
                'in the optimiser; contract on _preprocess_mutations (an unsimulatable sequence is handed on unchanged). The result-'
                'equivalence clause (optimised run == one-at-a-time run) is a bounded native run over enumerated sequences, labelled bounded.',
        'level_note': 'The 500-line _process_mutation_batch mutates shared objects through aliases and is outside the symbolic engine; '
                      'only refutations of the equivalence clause that replay on the real code are trusted.',
        'explanation': 'frame scan (sound for absence of writes) + bounded native equivalence runs; the equivalence clause is not proved',
        'not_decided': ['schema/row equality of two executions beyond the enumerated sequences'],
        'design_ref': 'DESIGN.md section 7.6',
    },
    'C01': {
        'families': ['contracts.rebuild', 'contracts.dbstate', 'contracts.optfold', 'contracts.determinism', 'contracts.native'],
        'level': 'proof',
        'technique': 'contract-based deductive verification of the rebuild plan and column clauses; bounded native stand-in for the schema comparison',
        'text': 'Deductive: column set/order and copy plan of a rebuilt table (to_sql prefix) and build_column_schema flag contract '
                '(NULL/NOT NULL, PRIMARY KEY, UNIQUE, REFERENCES, DEFAULT exactly as the field says). Bounded, labelled: evolved '
                'schema vs freshly created schema on real SQLite over an enumerated scenario space.',
        'level_note': 'Trusted: pyvc engine/encoding, Django schema editor and SQLite as oracle for indexes/constraints/FK targets '
                      '(not decidable by contracts over /repo functions: both sides of that comparison are computed by Django and '
                      'interpreted by SQLite).',
        'not_decided': ['indexes, unique/check constraints, FK targets and M2M tables as SQLite ends up holding them (bounded native only)'],
    },
    'C02': {
        'families': ['contracts.rebuild', 'contracts.optfold', 'contracts.native'],
        'level': 'proof',
        'technique': 'contract-based deductive verification of the rebuild plan (copy map / bound parameters), VCs from the real AST, z3/cvc5; bounded native stand-in for row-level clauses',
        'text': 'Copy-map contract on the prefix of SQLiteAlterTableSQLResult.to_sql: surviving old columns are copied from themselves, '
                'exactly the columns with a bound parameter carry a placeholder, and the k-th placeholder in SELECT order is bound to the '
                'initial value declared for that very column (field_initials is the order-preserving restriction of the select list). '
                'Row-level clauses are additionally run natively on real SQLite (bounded, labelled).',
        'level_note': 'Trusted: pyvc engine/encoding; quote_name never yields a placeholder text; SQLite executes the statement as its text '
                      'says; the string assembly of steps 1-5 is outside the cut (syntactic obligation on the INSERT..SELECT shape).',
        'not_decided': ['renames of M2M tables and model renames: one-line ALTER TABLE RENAME statements (bounded native only)'],
    },
    'C14': {
        'families': ['contracts.execution', 'contracts.batches', 'contracts.sigsim', 'contracts.determinism', 'contracts.native'],
        'level': 'other',
        'technique': 'bounded native run of the preview/determinism contract (stand-in; order-insensitivity obligations in progress)',
        'text': 'evolve --sql preview compared statement by statement with the --execute trace, and --sql/--hint output compared across '
                'PYTHONHASHSEED values in fresh interpreters, over generated pending upgrades. Labelled bounded.',
        'level_note': 'Bounded stand-in only so far.',
        'explanation': 'bounded native enumeration; not a proof',
        'not_decided': ['equality of the two separately computed SQL lists (prepare vs batch) beyond the enumerated upgrades'],
    },
    'C06': {
        'families': ['contracts.hints', 'contracts.appser', 'contracts.native'],
        'level': 'other',
        'technique': 'bounded native run of the round-trip contract (stand-in; deductive container-level contracts in progress)',
        'text': 'Round-trip contract (equal, empty diff both ways, same text) evaluated natively over an enumerated space of '
                'signatures through serialize/deserialize, the SignatureField JSON codec, Version.save()/reload on SQLite and v2->v1->v2. '
                'Labelled bounded: nothing here is counted as proved.',
        'level_note': 'Bounded stand-in only: the leaf value codec dispatches on runtime types and calls Django deconstruct()/constructors, '
                      'outside the engine\'s reach.',
        'explanation': 'bounded native enumeration of the round-trip contract; not a proof',
        'not_decided': ['pickle path beyond the v1-expressible subset'],
    },
    'C13': {
        'families': ['contracts.hints', 'contracts.sigsim', 'contracts.native'],
        'level': 'other',
        'technique': 'bounded native run of the faithfulness contract (stand-in; totality contracts on serialize_to_python in progress)',
        'text': 'exec() of the rendered hint text defines mutations with the same signature effect and the same generated SQL as the '
                'hinted mutations, over enumerated mutations and attribute values. Labelled bounded.',
        'level_note': 'Bounded stand-in only: faithfulness needs the meaning of Python source text, which no contract over these functions expresses.',
        'explanation': 'bounded native enumeration of the faithfulness contract; not a proof',
        'not_decided': ['Python parsing semantics of the produced text beyond the enumerated cases'],
    },
    'C05': {
        'families': ['contracts.sigdiff', 'contracts.sigdefaults', 'contracts.sigsim', 'contracts.sigcontainers', 'contracts.native'],
        'level': 'proof',
        'technique': 'contract-based deductive verification + solver-checked lemmas over the contracts; bounded native stand-in for the closure clause',
        'text': 'FieldSignature.get_attr_value/__eq__/diff against abstract views (diff lists exactly the attributes whose '
                'values differ after applying class defaults, plus the type/relation markers); lemmas: diff(s,s) empty, '
                '== implies empty diff both ways, and the converse (fails: known finding).',
        'level_note': 'Trusted: pyvc engine/encoding; the Django field-type comparison as an uninterpreted function; the '
                      '_ATTRIBUTE_DEFAULTS lookup is uninterpreted inside diff/get_attr_value and separately verified against the '
                      'real table (get_attr_default: own-type default over generic over None, contracts.sigdefaults); attribute values as opaque atoms with == as identity of the value. The closure '
                      'clause (hinted evolution resolves the change) and model/app/project levels are decided by the bounded '
                      'native suite only, labelled bounded.',
        'not_decided': ['closure lemma diff -> hint -> simulate at model/app/project level (bounded stand-in only)'],
    },
    'C08': {
        'families': ['contracts.recording', 'contracts.execution', 'contracts.batches'],
        'level': 'proof',
        'technique': 'contract-based deductive verification: VCs from the real AST, z3/cvc5',
        'text': 'Per-run obligations: get_unapplied_evolutions = order-preserving filter of the sequence by "not recorded"; '
                'Evolver._save_project_sig records every new evolution exactly once, attached to the version saved by this run; '
                'Evolver.evolve records only after every task executed and nothing when a task fails.',
        'level_note': 'Trusted: pyvc engine/encoding; the ORM queries (applied labels, bulk_create assumed atomic), evolution module '
                      'discovery. Not decided: histories interleaving mark-evolution-applied/wipe-evolution; runs limited to selected '
                      'apps; an app absent from the stored signature is assumed to have no recorded rows.',
        'not_decided': ['whole-history clauses (interleaved management commands)', 'EvolveAppTask.prepare branch selection (in progress)'],
    },
    'C15': {
        'families': ['contracts.deletion', 'contracts.sigsim', 'contracts.sigcontainers', 'contracts.execution', 'contracts.native'],
        'level': 'proof',
        'technique': 'contract-based deductive verification: whole-view frame postconditions, VCs from the real AST, z3/cvc5',
        'text': 'DeleteModel.simulate removes exactly the named model of the simulated app and leaves every other app entry and the '
                'set of apps unchanged (frame stated over the whole project view); DeleteApplication.simulate removes exactly the '
                'models routed to the evolved database; purge tasks are queued only under --purge (syntactic obligations on the '
                'real AST); DeleteModel.mutate drops the model table and its M2M tables only.',
        'level_note': 'Trusted: pyvc engine/encoding; remove_model_sig stub; is_mutable as an uninterpreted predicate (see C16 known '
                      'finding). Not decided: tables/rows of the real database afterwards (bounded native scenarios).',
        'not_decided': ['actual table list and rows of the database after purge/delete'],
    },
    'C11': {
        'families': ['contracts.refs', 'contracts.sigcontainers', 'contracts.rebuild', 'contracts.optfwd', 'contracts.native'],
        'level': 'proof',
        'technique': 'contract-based deductive verification: nested loop invariants over the three signature levels, VCs from the real AST, z3/cvc5',
        'text': 'Reference-rewrite postconditions of RenameModel.simulate and RenameAppLabel.simulate: after the rename no relation '
                'anywhere in the project (all apps, all models, all fields) still names the old model / old app label, and the '
                'renamed model is reachable under its new name only.',
        'level_note': 'Trusted: pyvc engine/encoding; ModelSignature.clone as a deep-copy stub; add/remove_model_sig stubs. '
                      'Not decided: database foreign keys after execution (SQLite is the oracle; see the bounded native scenarios).',
        'not_decided': ['that database foreign keys point at the renamed table/column and PRAGMA foreign_key_check passes'],
    },
    'C12': {
        'families': ['contracts.sigsim', 'contracts.sigdefaults', 'contracts.sigcontainers', 'contracts.optfold'],
        'level': 'proof',
        'technique': 'contract-based deductive verification: raising postconditions + gate obligation, VCs from the real AST, z3/cvc5',
        'text': 'Gate: _check_simulation returns True only with an empty residual diff, False only when simulation is impossible, '
                'otherwise raises. Raising postconditions of Simulation.get_*_sig/fail and of AddField/ChangeField/DeleteField.simulate '
                '(missing app/model/field, existing field, primary key, non-null without initial). The defaults lookup the residual diff '
                'relies on (get_attr_default) against the real table. Effect obligation: the prepare chain '
                'contains no SQL-executing call; only CannotSimulate is swallowed.',
        'level_note': "Trusted: pyvc engine/encoding; Django field-type comparison (_get_field_type_change) as an uninterpreted predicate; "
                      "issubclass(field_type, ManyToManyField) uninterpreted; the effect obligations are syntactic (AST) checks. "
                      "Reported gap: when can_simulate() is false (raw SQLMutation) the gate lets execution proceed unchecked; the "
                      "property's quantifier (perturbed simulatable evolutions) does not reach it.",
        'not_decided': ['Command.handle as a whole (option parsing, I/O) - only its gate callee is under contract'],
    },
    'C09': {
        'families': ['contracts.graph', 'contracts.graph_edges', 'contracts.depcollect', 'contracts.graph_add', 'contracts.determinism'],
        'level': 'proof',
        'technique': 'contract-based deductive verification: VCs from the real AST (incl. DFS loop invariants), z3/cvc5',
        'text': 'Contracts on DependencyGraph (add_node, add_dependency, remove_dependencies, finalize, get_node, '
                'get_leaf_nodes, get_ordered) for all graphs.',
        'level_note': 'Trusted: pyvc engine/encoding; termination of the DFS not proved.',
        'not_decided': ["Django's own MigrationGraph plan order (trusted)"],
    },
    'C17': {
        'families': ['contracts.execution', 'contracts.batches'],
        'level': 'proof',
        'technique': 'contract-based deductive verification with a ghost lifecycle monitor (typestate): VCs from the real AST, z3/cvc5',
        'text': 'Lifecycle monitor Idle->Evolving->Done|Failed threaded through Evolver.evolve (evolving at most once and before '
                'any task executes; normal return iff evolved after exactly one save; any exception after evolving gives exactly '
                'one evolving_failed), pairing and payload obligations on EvolveAppTask.execute/_create_models, '
                'MigrationExecutor._on_progress, and the evolve-lock receivers. All runs, all failure points.',
        'level_note': 'Trusted: pyvc engine/encoding; Signal.send receivers do not raise; Django calls the migration progress '
                      'callback in apply_start/apply_success pairs; baseline installation in Evolver.__init__ executes SQL '
                      'outside evolve() and is not covered. Not decided: the applying_evolution payload as passed by '
                      'EvolveAppTask.execute_tasks (call site not under contract yet).',
        'not_decided': ['applying_evolution payload at the execute_tasks call site (evolutions= is not passed there)'],
    },
    'C07': {
        'families': ['contracts.execution', 'contracts.batches', 'contracts.determinism'],
        'level': 'proof',
        'technique': 'contract-based deductive verification with ghost transaction/run monitors: VCs from the real AST, z3/cvc5',
        'text': 'Transaction monitor on SQLExecutor (__enter__/__exit__/new_transaction/finish_transaction/ensure_transaction/'
                'run_sql): never commit on the exceptional path, every statement of a transactional batch runs inside a '
                'transaction opened on the executor\'s own database, the raised error carries the failing statement; '
                'run monitor on Evolver.evolve. All statement lists, all failure points.',
        'level_note': "Trusted: pyvc engine/encoding; Django's Atomic semantics (commit on clean exit, rollback when exception "
                      'info is passed), cursor.execute may raise anything, SQLite DDL is transactional (the property\'s own '
                      'hypothesis); generators treated as eager lists; capture rendering abstracted.',
        'not_decided': ['that a retry equals an uninterrupted run needs determinism of the whole pipeline (only partly C14)'],
    },
    'C16': {
        'families': ['contracts.routing', 'contracts.execution', 'contracts.recording', 'contracts.determinism', 'contracts.native'],
        'level': 'proof',
        'technique': 'contract-based deductive verification: VCs generated from the real AST, discharged by z3/cvc5',
        'text': 'is_mutable against an uninterpreted router function (result true iff the routers put the model on the '
                'evolved database), AppSignature.from_app (loop invariant: models added = router-allowed models, in order), '
                'generate_mutations_info (exactly the mutable mutations reach the mutator, once). All inputs/all iterations.',
        'level_note': "Trusted: pyvc engine/encoding; Django's router as uninterpreted route()/router_allows(); stubs for "
                      'get_models, get_app_upgrade_info, AppSignature.__init__/add_model, AppMutator.from_evolver/run_mutations/'
                      'to_sql, ProjectSignature.get_app_sig; dynamic dispatch of is_mutable abstracted as mutable(). Not decided: '
                      'contents of the other database file; executor alias (see C07).',
        'not_decided': ['file contents of the second database', 'DeleteApplication per-model filter (covered under C15)'],
    },
    'C18': {
        'families': ['contracts.table_ops', 'contracts.native'],
        'level': 'proof',
        'technique': 'contract-based deductive verification: VCs generated from the real AST, discharged by z3/cvc5',
        'text': 'Contracts on _are_ops_mergeable (mergeable set taken from the property text), generate_table_op_sql '
                '(result object reused iff both ops mergeable) and generate_table_ops_sql (loop invariants: consecutive '
                'mergeable ops share one AlterTableSQLResult; every result object flattened exactly once), plus a syntactic '
                'obligation that the SQLite to_sql creates TEMP_TABLE at exactly one site outside loops. All inputs, all '
                'iterations; what tests cannot do is quantify over every op sequence.',
        'level_note': 'Trusted: the pyvc engine and its Python encoding (DESIGN.md 2.6); stubs for ModelMutator.create_model/'
                      'finish_op, SQLResult.to_sql, the alter_table_sql_result_cls constructor; the per-op-type dispatch in '
                      'generate_table_op_sql is abstracted to "fills the chosen result object". Not decided: that the optimiser '
                      'never turns rebuild-free ops into rebuild-needing ones.',
        'not_decided': [
            "first sentence only under the 'same queued operations' abstraction: that the optimiser never "
            "turns rebuild-free operations into a rebuild-needing one is not proved (C03 territory)",
        ],
    },
}

NOT_APPLICABLE = {
    'C04': 'whole-history convergence over Evolver + management commands + a real database; conclusion is equality of two '
           'database states, which no contract on /repo functions expresses (DESIGN.md section 8). Contract-shaped pieces '
           'are discharged under C05 (diff(self)=empty), C06 (store/reload), C08 (record once).',
    'C10': "decided almost entirely by Django's MigrationLoader/MigrationExecutor/MigrationRecorder across runs; contracts on "
           'the /repo side would be assumed contracts on Django (DESIGN.md section 8).',
}
SOURCE_COMMITS = []
