"""C14 (determinism clause): no set iteration order reaches generated SQL or hint text.

Syntactic obligation on the real AST of the modules on the preview / hint / SQL-generation path: a name bound to a set
(set(...), a set literal or comprehension, a union/difference of sets) is only ever used in order-free ways - membership,
add/update/discard, len, truth value, sorted(...), any/all/sum/min/max over a comprehension, or as the source of another
set.  Iterating it, list()/tuple()/join()/extend() of it, or concatenating it to a list would make the output depend on
PYTHONHASHSEED.  Conservative and flow-insensitive (a name that is a set anywhere in the function counts as a set
everywhere); accepted occurrences are listed below with the reason.
"""
import ast
import glob
import os

from pyvc.world import World
from pyvc.runner import Family, Syntactic

SCOPE = ['django_evolution/evolve/*.py', 'django_evolution/db/common.py', 'django_evolution/db/sqlite3.py',
         'django_evolution/db/sql_result.py', 'django_evolution/utils/sql.py', 'django_evolution/utils/evolutions.py',
         'django_evolution/utils/graph.py', 'django_evolution/mutations/*.py', 'django_evolution/mutators/*.py',
         'django_evolution/management/commands/evolve.py', 'django_evolution/diff.py']

# (file, function, name, kind of use): reviewed, order not observable
ACCEPTED = {
    ('django_evolution/mutators/app_mutator.py', '_process_mutation_batch', 'model_names', 'comprehension over a set'):
        'builds dict([(name, []) ...]) which is only indexed; the output loop runs over sorted(model_names)',
}

ORDER_FREE_CALLS = ('sorted', 'any', 'all', 'sum', 'min', 'max', 'set', 'frozenset', 'len')


def set_expr(e, tainted):
    if isinstance(e, ast.Call) and isinstance(e.func, ast.Name) and e.func.id in ('set', 'frozenset'):
        return True
    if isinstance(e, (ast.Set, ast.SetComp)):
        return True
    if isinstance(e, ast.Name) and e.id in tainted:
        return True
    if isinstance(e, ast.BinOp) and isinstance(e.op, (ast.BitOr, ast.BitAnd, ast.Sub, ast.BitXor)):
        return set_expr(e.left, tainted) or set_expr(e.right, tainted)
    if isinstance(e, ast.Call) and isinstance(e.func, ast.Attribute) and \
            e.func.attr in ('union', 'intersection', 'difference', 'symmetric_difference', 'copy') and \
            set_expr(e.func.value, tainted):
        return True
    return False


def offenders(func):
    tainted = set()
    for _ in range(3):
        for n in ast.walk(func):
            if isinstance(n, ast.Assign) and set_expr(n.value, tainted):
                tainted |= {t.id for t in n.targets if isinstance(t, ast.Name)}
            if isinstance(n, ast.AugAssign) and isinstance(n.target, ast.Name) and set_expr(n.value, tainted) and \
                    isinstance(n.op, (ast.BitOr, ast.BitAnd, ast.Sub)):
                tainted.add(n.target.id)
    parents = {}
    for n in ast.walk(func):
        for c in ast.iter_child_nodes(n):
            parents[c] = n

    def ordered_use(n):
        p = parents.get(n)
        if isinstance(p, ast.For) and p.iter is n:
            return 'for loop over a set'
        if isinstance(p, ast.comprehension) and p.iter is n:
            comp = parents.get(p)
            gp = parents.get(comp)
            if isinstance(comp, ast.SetComp):
                return None
            if isinstance(gp, ast.Call) and isinstance(gp.func, ast.Name) and gp.func.id in ORDER_FREE_CALLS:
                return None
            return 'comprehension over a set'
        if isinstance(p, ast.Call):
            if isinstance(p.func, ast.Name) and p.func.id in ('list', 'tuple', 'enumerate', 'iter', 'zip') and n in p.args:
                return '%s() of a set' % p.func.id
            if isinstance(p.func, ast.Attribute) and p.func.attr in ('join', 'extend') and n in p.args:
                return '%s() of a set' % p.func.attr
        if isinstance(p, ast.BinOp) and isinstance(p.op, ast.Add):
            return 'set concatenated to a list'
        if isinstance(p, ast.AugAssign) and isinstance(p.op, ast.Add) and p.value is n:
            return 'list += set'
        if isinstance(p, ast.Starred):
            return '*set'
        return None
    out = []
    for n in ast.walk(func):
        if isinstance(n, ast.Name) and n.id in tainted and isinstance(n.ctx, ast.Load):
            why = ordered_use(n)
            if why:
                out.append((n.lineno, n.id, why))
        elif isinstance(n, (ast.Call, ast.Set, ast.SetComp)) and set_expr(n, set()):
            why = ordered_use(n)
            if why:
                out.append((n.lineno, ast.unparse(n)[:40], why))
    return out


def syn_set_order():
    from pyvc import extract
    found = []
    files = []
    for pat in SCOPE:
        files += sorted(glob.glob(os.path.join(extract.REPO, pat)))
    for path in files:
        rel = os.path.relpath(path, extract.REPO)
        tree = ast.parse(open(path).read())
        for fn in ast.walk(tree):
            if isinstance(fn, ast.FunctionDef):
                for ln, name, why in offenders(fn):
                    if (rel, fn.name, name, why) in ACCEPTED:
                        continue
                    found.append('%s:%d %s(): %s `%s`' % (rel, ln, fn.name, why, name))
    found = sorted(set(found))
    if found:
        return False, 'set iteration order can reach generated text: ' + '; '.join(found)
    return True, '%d files scanned, %d accepted occurrence(s)' % (len(files), len(ACCEPTED))


def build():
    w = World('determinism')
    fam = Family('contracts.determinism', w)
    fam.syntactic.append(Syntactic(
        'no_set_order_in_generated_text', ['C14'], syn_set_order,
        'no iteration over / ordered consumption of a set in the modules that generate SQL, hints and previews '
        '(everything set-typed goes through sorted() or an order-free use)'))
    fam.syntactic.append(Syntactic(
        'index_drop_updates_state', ['C01', 'C03'], syn_index_drop_updates_state,
        'every generated DROP INDEX is accompanied by the removal of the index from the in-memory database state'))
    fam.syntactic.append(Syntactic(
        'generators_consumed_once', ['C14', 'C07'], syn_generators_consumed_once,
        'a generator-valued local on the SQL execution path is iterated once, or turned into a list first'))
    fam.syntactic.append(Syntactic(
        'database_argument_threaded', ['C16', 'C09'], syn_database_threaded,
        'every call, on the evolve path, of a repository function with an optional database parameter passes that '
        'parameter (nothing silently falls back to the default alias)'))
    return fam


# ------------------------------------------------------------------------------------------------- C16
DB_PARAMS = ('database', 'database_name', 'db_name', 'using')
DB_SCOPE = ['django_evolution/evolve/*.py', 'django_evolution/utils/evolutions.py', 'django_evolution/utils/graph.py',
            'django_evolution/mutators/*.py', 'django_evolution/management/commands/evolve.py',
            'django_evolution/utils/migrations.py', 'django_evolution/utils/models.py', 'django_evolution/utils/sql.py']
DB_ACCEPTED = {
    ('django_evolution/utils/evolutions.py', 'get_app_upgrade_info', 'get_app_mutations', 'database'):
        'only looks for MoveToDjangoMigrations among the Python mutations; per-database .sql files cannot hold one',
}


def syn_database_threaded():
    """No call on the evolve path relies on the default database alias: a repository function that takes an optional
    database parameter is always given one explicitly."""
    from pyvc import extract
    files = [f for f in glob.glob(os.path.join(extract.REPO, 'django_evolution/**/*.py'), recursive=True) if '/tests/' not in f]
    defs = {}
    for f in files:
        tree = ast.parse(open(f).read())
        for n in ast.walk(tree):
            if isinstance(n, ast.FunctionDef) and not (n.name.startswith('__') and n.name.endswith('__')):
                a = n.args
                names = [x.arg for x in a.posonlyargs + a.args]
                for i, nm in enumerate(names):
                    if nm in DB_PARAMS and i >= len(names) - len(a.defaults):
                        defs.setdefault(n.name, []).append((nm, i, bool(names) and names[0] in ('self', 'cls')))
                for x, d in zip(a.kwonlyargs, a.kw_defaults):
                    if x.arg in DB_PARAMS and d is not None:
                        defs.setdefault(n.name, []).append((x.arg, None, False))
    found = []
    scope = []
    for pat in DB_SCOPE:
        scope += sorted(glob.glob(os.path.join(extract.REPO, pat)))
    for f in scope:
        rel = os.path.relpath(f, extract.REPO)
        tree = ast.parse(open(f).read())
        for fn in ast.walk(tree):
            if not isinstance(fn, ast.FunctionDef):
                continue
            for c in ast.walk(fn):
                if not isinstance(c, ast.Call):
                    continue
                name = c.func.id if isinstance(c.func, ast.Name) else (c.func.attr if isinstance(c.func, ast.Attribute) else None)
                for param, idx, meth in defs.get(name, []):
                    passed = any(k.arg == param or k.arg is None for k in c.keywords) or \
                        any(isinstance(a_, ast.Starred) for a_ in c.args)
                    if idx is not None and len(c.args) > idx - (1 if meth else 0):
                        passed = True
                    if not passed and (rel, fn.name, name, param) not in DB_ACCEPTED:
                        found.append('%s:%d %s(): %s(...) without %s=' % (rel, c.lineno, fn.name, name, param))
    found = sorted(set(found))
    if found:
        return False, 'calls falling back to the default database: ' + '; '.join(found)
    return True, '%d functions with an optional database parameter, %d files scanned' % (len(defs), len(scope))


# ------------------------------------------------------------------------------------------------- C14 / C07
GEN_SCOPE = ['django_evolution/utils/sql.py', 'django_evolution/evolve/*.py', 'django_evolution/db/sql_result.py',
             'django_evolution/db/common.py', 'django_evolution/db/sqlite3.py', 'django_evolution/mutators/*.py']
ITER_CALLS = ('list', 'tuple', 'sorted', 'set', 'enumerate', 'zip', 'any', 'all', 'sum', 'min', 'max')


def syn_generators_consumed_once():
    """A local bound to a generator (a call of a repository generator function, or a generator expression) is iterated at
    most once: every iteration but the last one in the function must come after the name was re-bound to list(...) /
    tuple(...) / sorted(...) in the same or an enclosing block.  (An exhausted generator silently yields nothing: the
    statements a preview lists would not be executed.)"""
    from pyvc import extract
    gens = set()
    for f in glob.glob(os.path.join(extract.REPO, 'django_evolution/**/*.py'), recursive=True):
        if '/tests/' in f:
            continue
        for n in ast.walk(ast.parse(open(f).read())):
            if isinstance(n, ast.FunctionDef) and any(isinstance(x, (ast.Yield, ast.YieldFrom)) for x in ast.walk(n)) \
                    and not any('contextmanager' in ast.unparse(d) for d in n.decorator_list):
                gens.add(n.name)
    found = []
    files = []
    for pat in GEN_SCOPE:
        files += sorted(glob.glob(os.path.join(extract.REPO, pat)))
    for path in files:
        rel = os.path.relpath(path, extract.REPO)
        for fn in ast.walk(ast.parse(open(path).read())):
            if not isinstance(fn, ast.FunctionDef):
                continue
            gen_names = set()
            for n in ast.walk(fn):
                if isinstance(n, ast.Assign) and len(n.targets) == 1 and isinstance(n.targets[0], ast.Name):
                    v = n.value
                    callee = v.func.attr if isinstance(v, ast.Call) and isinstance(v.func, ast.Attribute) else \
                        (v.func.id if isinstance(v, ast.Call) and isinstance(v.func, ast.Name) else None)
                    if isinstance(v, ast.GeneratorExp) or callee in gens:
                        gen_names.add(n.targets[0].id)
            for name in gen_names:
                sites = []          # (lineno, node) of iterations, in source order
                rebinds = []        # linenos of `name = list(name)` style statements

                def is_iteration_of(n, expr, st):
                    # `n` is the generator name used in an iterating position
                    if not (isinstance(n, ast.Name) and n.id == name and isinstance(n.ctx, ast.Load)):
                        return False
                    for par in ast.walk(expr):
                        if isinstance(par, ast.Call) and n in par.args:
                            fname = par.func.id if isinstance(par.func, ast.Name) else \
                                (par.func.attr if isinstance(par.func, ast.Attribute) else '')
                            if fname in ITER_CALLS + ('join', 'extend', 'update', 'reversed', 'chain'):
                                return True
                        if isinstance(par, ast.comprehension) and par.iter is n:
                            return True
                    return isinstance(st, ast.For) and st.iter is n

                def visit(block, enclosing_rebound):
                    rebound = enclosing_rebound
                    for st in block:
                        if isinstance(st, ast.Assign) and len(st.targets) == 1 and isinstance(st.targets[0], ast.Name) \
                                and st.targets[0].id == name and isinstance(st.value, ast.Call) and \
                                isinstance(st.value.func, ast.Name) and st.value.func.id in ('list', 'tuple', 'sorted') \
                                and any(isinstance(a_, ast.Name) and a_.id == name for a_ in st.value.args):
                            rebound = True
                            continue
                        for n in ast.walk(st) if not isinstance(st, (ast.For, ast.If, ast.While, ast.With, ast.Try)) else [st]:
                            pass
                        # iteration sites directly in this statement (not in nested blocks)
                        exprs = [c for c in ast.iter_child_nodes(st) if isinstance(c, ast.expr)]
                        for e in exprs:
                            for n in ast.walk(e):
                                if is_iteration_of(n, e, st):
                                    sites.append((n.lineno, n.col_offset, rebound))
                        for fld in ('body', 'orelse', 'finalbody'):
                            sub = getattr(st, fld, None)
                            if isinstance(sub, list) and sub and isinstance(sub[0], ast.stmt):
                                visit(sub, rebound)
                        for h in getattr(st, 'handlers', []) or []:
                            visit(h.body, rebound)
                visit(fn.body, False)
                sites = sorted(set(sites))
                for ln, _col, rebound in sites[:-1]:
                    if not rebound:
                        found.append('%s:%d %s(): generator `%s` is consumed here and used again later' % (rel, ln, fn.name, name))
    found = sorted(set(found))
    if found:
        return False, '; '.join(found)
    return True, '%d generator functions known, %d files scanned' % (len(gens), len(files))


# ------------------------------------------------------------------------------------------------- C01 / C03
def syn_index_drop_updates_state():
    """DROP INDEX SQL is only ever generated together with the removal of that index from the in-memory database state
    (later operations of the same run decide from that state whether an index has to be created): the raw generator
    get_drop_index_sql is called only by drop_index_by_name (which removes the index first) and by the
    get_drop_unique_constraint_sql wrapper, whose callers remove the index themselves."""
    from pyvc import extract
    found = []
    for path in sorted(glob.glob(os.path.join(extract.REPO, 'django_evolution/db/*.py'))):
        rel = os.path.relpath(path, extract.REPO)
        for fn in ast.walk(ast.parse(open(path).read())):
            if not isinstance(fn, ast.FunctionDef):
                continue
            calls = [c for c in ast.walk(fn) if isinstance(c, ast.Call) and isinstance(c.func, ast.Attribute)]
            names = [c.func.attr for c in calls]
            removes = any(c.func.attr == 'remove_index' for c in calls)
            if 'get_drop_index_sql' in names and fn.name not in ('drop_index_by_name', 'get_drop_unique_constraint_sql'):
                found.append('%s %s(): get_drop_index_sql() without drop_index_by_name()' % (rel, fn.name))
            if fn.name == 'drop_index_by_name' and not removes:
                found.append('%s drop_index_by_name(): no longer removes the index from the database state' % rel)
            if 'get_drop_unique_constraint_sql' in names and not removes and fn.name != 'get_drop_unique_constraint_sql':
                found.append('%s %s(): unique constraint dropped without remove_index()' % (rel, fn.name))
    if found:
        return False, '; '.join(sorted(set(found)))
    return True, 'all DROP INDEX generators go through the state bookkeeping'
