"""C05: signature comparison - FieldSignature.__eq__ / diff / get_attr_value and the lemmas relating them."""
import z3

from pyvc import kinds as K
from pyvc.kinds import V
from pyvc.world import World, LoopInv
from pyvc.runner import Family, Lemma
from . import sigsim

SIG = sigsim.SIG
VAL = sigsim.VAL
OV = K.Opt(VAL)


def default_of(it, ftype, attr):
    """_ATTRIBUTE_DEFAULTS lookup as an uninterpreted function of (field type, attribute name)."""
    f0 = it.p.ctx.ufunc('default!none', sigsim.FTYPE.leaf_sorts()[0], z3.StringSort(), z3.BoolSort())
    f1 = it.p.ctx.ufunc('default!val', sigsim.FTYPE.leaf_sorts()[0], z3.StringSort(), VAL.leaf_sorts()[0])
    return V(OV, [f0(ftype.t, attr.t), f1(ftype.t, attr.t)])


# the attribute value diff() compares: stored value, else the class default
VALUE = "(f.field_attrs[a] if a in f.field_attrs else default_of(f.field_type, a))"
DIFFERS = ("((a in old.field_attrs or a in new.field_attrs) and attr_value(new, a) != attr_value(old, a)) or "
           "(a == 'field_type' and type_changed(old, new)) or "
           "(a == 'related_model' and old.related_model != new.related_model)")


def build():
    w = World('sigdiff')
    sigsim.declare_signature_classes(w)
    w.kinds['Str'] = K.Str
    w.exc('TypeError')
    w.spec_funcs['default_of'] = default_of
    w.define('attr_value', ['f', 'a'], VALUE)
    w.define('differs', ['a', 'old', 'new'], DIFFERS)
    w.stub('FieldSignature.get_attr_default', params={'self': K.Ref('FieldSignature'), 'attr_name': K.Str},
           returns=OV, pure=True, ensures=['result == default_of(self.field_type, attr_name)'],
           note='lookup in the class-level _ATTRIBUTE_DEFAULTS table (keys are Django field classes): uninterpreted '
                'function of (field type, attribute)')
    w.contract(
        'FieldSignature.get_attr_value', module=SIG, serves=['C05'],
        params={'self': K.Ref('FieldSignature'), 'attr_name': K.Str, 'use_default': K.Bool},
        defaults={'use_default': True}, returns=OV, pure=True,
        ensures=['implies(attr_name in self.field_attrs, result == self.field_attrs[attr_name])',
                 'implies(attr_name not in self.field_attrs and use_default, result == default_of(self.field_type, attr_name))',
                 'implies(attr_name not in self.field_attrs and not use_default, result is None)'])
    w.contract(
        'FieldSignature.__eq__', module=SIG, serves=['C05'],
        params={'self': K.Ref('FieldSignature'), 'other': K.Opt(K.Ref('FieldSignature'))},
        returns=K.Bool, pure=True,
        ensures=['result == (other is not None and self.field_name == some(other).field_name and '
                 '           self.field_type == some(other).field_type and '
                 '           forall(Str, lambda k: (k in self.field_attrs) == (k in some(other).field_attrs) and '
                 '                  implies(k in self.field_attrs, self.field_attrs[k] == some(other).field_attrs[k])) and '
                 '           self.related_model == some(other).related_model)'])
    w.stub('type_changed', params={'old': K.Ref('FieldSignature'), 'new': K.Ref('FieldSignature')},
           returns=K.Bool, pure=True, ensures=['implies(old.field_type == new.field_type, not result)'],
           note='instantiates both Django field classes and compares get_internal_type(); only constrained to be false '
                'for identical field types (the `is not` guard in the code)')
    w.contract(
        'FieldSignature.diff', module=SIG, serves=['C05'],
        params={'self': K.Ref('FieldSignature'), 'old_field_sig': K.Ref('FieldSignature')},
        returns=K.Seq(K.Str),
        locals={'changed_attrs': K.Seq(K.Str)},
        abstract={'if old_field_type is not new_field_type:': [
            'if old_field_type is not new_field_type and type_changed(old_field_sig, self):\n'
            "    changed_attrs.append('field_type')"]},
        ghost_in_body={'changed_attrs = [': [
            # proof hint: the filtered list already contains every differing attribute
            'assert forall(Str, lambda a: implies((a in old_field_sig.field_attrs or a in self.field_attrs) and '
            '       attr_value(self, a) != attr_value(old_field_sig, a), '
            '       exists(range(len(changed_attrs)), lambda j: sel(changed_attrs, j) == a)))',
            'n0 = len(changed_attrs)'],
            "if old_field_sig.related_model != self.related_model:": [
            'assert forall(range(n0), lambda j: sel(changed_attrs, j) == sel(changed_attrs, j))']},
        ensures=[
            # the result lists exactly the attributes that differ (defaults applied), plus the two markers
            'forall(range(len(result)), lambda j: differs(sel(result, j), old_field_sig, self))',
            'forall(Str, lambda a: implies((a in old_field_sig.field_attrs or a in self.field_attrs) and '
            '       attr_value(self, a) != attr_value(old_field_sig, a), exists(range(len(result)), lambda j: sel(result, j) == a)))',
            "implies(type_changed(old_field_sig, self), exists(range(len(result)), lambda j: sel(result, j) == 'field_type'))",
            "implies(old_field_sig.related_model != self.related_model, "
            "        exists(range(len(result)), lambda j: sel(result, j) == 'related_model'))",
        ],
        note='Django field instantiation abstracted to type_changed(); isinstance() argument check dropped '
             '(the parameter is declared as a FieldSignature)')
    w.contracts['FieldSignature.diff'].abstract["if not isinstance(old_field_sig, FieldSignature):"] = ['_ok = 0']

    fam = Family('contracts.sigdiff', w)
    fam.lemmas.append(Lemma('field_self_diff_empty', ['C05'], lemma_self_diff))
    fam.lemmas.append(Lemma('field_eq_implies_empty_diff', ['C05'], lemma_eq_implies_empty))
    fam.lemmas.append(Lemma('field_empty_diff_implies_eq', ['C05'], lemma_empty_implies_eq))
    fam.replay['field_empty_diff_implies_eq'] = replay_eq_vs_diff
    return fam


def _env(w):
    from pyvc.lemmas import SpecEnv
    return SpecEnv(w, {'a': K.Ref('FieldSignature'), 'b': K.Ref('FieldSignature'), 'x': K.Str})


def lemma_self_diff(fam):
    """diff(s, s) is empty: no attribute differs from itself (uses only the diff contract)."""
    env = _env(fam.world)
    goal = env.t('forall(Str, lambda x: not differs(x, a, a))')
    return [('no_attr_differs', env.assumptions, goal)]


EQ = ('(a.field_name == b.field_name and a.field_type == b.field_type and '
      ' forall(Str, lambda k: (k in a.field_attrs) == (k in b.field_attrs) and '
      '        implies(k in a.field_attrs, a.field_attrs[k] == b.field_attrs[k])) and a.related_model == b.related_model)')


def lemma_eq_implies_empty(fam):
    env = _env(fam.world)
    hyp = env.t(EQ)
    goal = env.t('forall(Str, lambda x: not differs(x, a, b) and not differs(x, b, a))')
    return [('eq_then_no_diff', env.assumptions + [hyp], goal)]


def lemma_empty_implies_eq(fam):
    """The converse direction of the property's third sentence (same field name assumed: diff is only ever
    taken between signatures of the same field)."""
    env = _env(fam.world)

    def decode(m):
        return {'note': 'countermodel: empty diff both ways but __eq__ false', 'model': str(m)[:1500]}
    hyps = [env.t('a.field_name == b.field_name'),
            env.t('forall(Str, lambda x: not differs(x, a, b) and not differs(x, b, a))')]
    from pyvc.runner import load_known
    for k in load_known()['findings']:
        if k.get('obligation') == 'lemma:field_empty_diff_implies_eq:no_diff_then_eq':
            hyps.append(z3.Not(env.t(k['guard'])))      # proved for every input outside the recorded class
    goal = env.t(EQ)
    return [('no_diff_then_eq', env.assumptions + hyps, goal, decode)]


def replay_eq_vs_diff(label, inputs):
    """Explicit default vs omitted attribute: diff empty both ways, == false."""
    from django.db import models
    from django_evolution.signature import FieldSignature
    a = FieldSignature('f', models.CharField, {'max_length': 10, 'null': False})
    b = FieldSignature('f', models.CharField, {'max_length': 10})
    return {'reproduced': a.diff(b) == [] and b.diff(a) == [] and not (a == b),
            'diff_ab': a.diff(b), 'diff_ba': b.diff(a), 'eq': a == b,
            'inputs': {'a.field_attrs': {'max_length': 10, 'null': False}, 'b.field_attrs': {'max_length': 10}}}
