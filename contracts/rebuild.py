"""C02 / C01 / C18: the SQLite table rebuild plan (db/sqlite3.py SQLiteAlterTableSQLResult.to_sql) and column schema."""
import ast
import z3

from pyvc import kinds as K
from pyvc.world import World, LoopInv
from pyvc.runner import Family, Syntactic

SQLITE = 'django_evolution/db/sqlite3.py'
COMMON = 'django_evolution/db/common.py'

FIELD = K.Ref('Field')
INITV = K.Str        # an initial value / bound parameter, identified with its string image (equality preserved)
ITEM = K.Rec(op=K.Str, field=FIELD, initial=K.Opt(INITV), column=K.Str, old_field=FIELD, new_field=FIELD,
             constraints=K.Seq(K.Atom('Constraint')))
SQLV = K.Atom('SQLItem')
GEN = K.Opt(K.Ref('SQLResult'))


WF_ITEM = ("'op' in {it} and "
           "implies({it}['op'] == 'ADD COLUMN', 'field' in {it} and 'initial' in {it}) and "
           "implies({it}['op'] == 'MODIFY COLUMN', 'field' in {it} and 'initial' in {it}) and "
           "implies({it}['op'] == 'DELETE COLUMN', 'column' in {it}) and "
           "implies({it}['op'] == 'RENAME COLUMN', 'old_field' in {it} and 'new_field' in {it}) and "
           "implies({it}['op'] == 'CHANGE COLUMN TYPE', 'old_field' in {it} and 'new_field' in {it}) and "
           "implies({it}['op'] == 'ADD CONSTRAINTS', 'constraints' in {it}) and "
           "implies({it}['op'] == 'ADD DB INDEX' or {it}['op'] == 'DROP DB INDEX', 'field' in {it})")


def is_ph(it, s):
    """Does a select-list entry consume a bound parameter?  ('%s' or 'coalesce(<col>, %s)')"""
    return K.vbool(z3.Or(s.t == z3.StringVal('%s'), z3.PrefixOf(z3.StringVal('coalesce('), s.t)))


def build():
    w = World('rebuild')
    w.kinds.update({'Str': K.Str, 'Ref_Field': FIELD})
    w.spec_funcs['is_ph'] = is_ph
    w.module_names |= {'models'}
    w.consts['TEMP_TABLE_NAME'] = 'TEMP_TABLE'
    w.exc('ValueError')
    w.cls('Field', {'column': K.Str, 'name': K.Str, 'null': K.Bool, 'primary_key': K.Bool, 'unique': K.Bool,
                    'db_tablespace': K.Opt(K.Str)})
    w.cls('Meta', {'db_table': K.Str, 'local_fields': K.Seq(FIELD), 'db_tablespace': K.Opt(K.Str)})
    w.cls('Model', {'_meta': K.Ref('Meta')})
    w.cls('Ops', {})
    w.cls('Features', {'supports_tablespaces': K.Bool, 'autoindexes_primary_keys': K.Bool})
    w.cls('Conn', {'ops': K.Ref('Ops'), 'features': K.Ref('Features')})
    w.cls('SQLResult', {})
    w.cls('Backend', {'connection': K.Ref('Conn')}, module=COMMON)
    w.cls('SQLiteAlterTableSQLResult', {'evolver': K.Ref('Backend'), 'model': K.Ref('Model'), 'alter_table': K.Seq(ITEM),
                                        'pre_sql': K.Seq(SQLV), 'sql': K.Seq(SQLV), 'post_sql': K.Seq(SQLV)},
          module=SQLITE)
    w.stub('Field.db_type', params={'self': FIELD, 'connection': K.Ref('Conn')}, returns=K.Opt(K.Str), pure=True,
           note="Django: the column type, None for fields without a column (GenericForeignKey...)")
    w.stub('Ops.quote_name', params={'self': K.Ref('Ops'), 'name': K.Str}, returns=K.Str, pure=True,
           ensures=['not is_ph(result)'],
           note="connection.ops.quote_name: a quoted identifier (never the text '%s' or 'coalesce(...')")
    w.stub('Backend.is_column_referenced', params={'self': K.Ref('Backend'), 'table_name': K.Str, 'column_name': K.Str},
           returns=K.Bool, pure=True)
    w.stub('Backend.drop_index', params={'self': K.Ref('Backend'), 'model': K.Ref('Model'), 'f': FIELD}, returns=GEN)
    w.stub('Backend.create_index', params={'self': K.Ref('Backend'), 'model': K.Ref('Model'), 'f': FIELD}, returns=GEN)
    w.stub('SQLiteAlterTableSQLResult.normalize_sql', params={'self': K.Ref('SQLiteAlterTableSQLResult'), 'x': GEN},
           returns=K.Seq(SQLV))
    w.stub('Backend.normalize_initial', params={'self': K.Ref('Backend'), 'initial': INITV},
           returns=K.Tuple(INITV, K.Bool), pure=True,
           ensures=['implies(result[1], not is_ph(result[0]))', 'implies(not result[1], result[0] == initial)'],
           note='verified separately below (callable initials are evaluated; text results are embedded)')

    # declared initial of a column = the initial of the last ADD COLUMN / MODIFY COLUMN item naming it
    DECLARED = ("exists(range(i), lambda k: sel(self.alter_table, k)['initial'] is not None and "
                "some(sel(self.alter_table, k)['initial']) == new_initial[c] and "
                "((sel(self.alter_table, k)['op'] == 'ADD COLUMN' and sel(self.alter_table, k)['field'].column == c) or "
                " (sel(self.alter_table, k)['op'] == 'MODIFY COLUMN' and sel(self.alter_table, k)['field'].column == c)))")
    w.contract(
        'SQLiteAlterTableSQLResult.to_sql', module=SQLITE, serves=['C02', 'C01'],
        params={'self': K.Ref('SQLiteAlterTableSQLResult')}, returns=None,
        cut_before='columns_sql = []',
        requires=["forall(range(len(self.alter_table)), lambda k: %s)" % WF_ITEM.format(it='sel(self.alter_table, k)')],
        raises={'ValueError': True},
        modifies=['*heap'],
        locals={'added_fields': K.Seq(FIELD), 'deleted_columns': K.Set(K.Str), 'renamed_columns': K.Map(K.Str, K.Str),
                'replaced_fields': K.Map(K.Str, FIELD), 'added_constraints': K.Seq(K.Atom('Constraint')),
                'new_initial': K.Map(K.Str, INITV), 'reffed_renamed_cols': K.Seq(K.Tuple(K.Str, K.Str)),
                'added_field_db_indexes': K.Seq(FIELD), 'dropped_field_db_indexes': K.Seq(FIELD),
                'sql': K.Seq(SQLV), 'field_values': K.Map(K.Str, K.Str), 'field_initial_params': K.Map(K.Str, INITV),
                'old_fields': K.Seq(FIELD), 'new_fields': K.Seq(FIELD), 'field_initials': K.Seq(INITV)},
        invariants={
            1: LoopInv('for item in self.alter_table:', index='i', clauses=[
                'self.alter_table == old(self.alter_table)',
                # every recorded initial is the one declared for that very column
                'forall(new_initial, lambda c: %s)' % DECLARED,
                # a deleted column was named by a DELETE COLUMN item
                "forall(deleted_columns, lambda c: exists(range(i), lambda k: sel(self.alter_table, k)['op'] == 'DELETE COLUMN' "
                "       and sel(self.alter_table, k)['column'] == c))",
            ]),
            2: LoopInv('for field in dropped_field_db_indexes:', index='d', clauses=['True']),
            3: LoopInv('for field in added_field_db_indexes:', index='a', clauses=['True']),
            4: LoopInv('for field in old_fields:', index='o', clauses=[
                # old columns are copied from themselves (under their new name), deleted ones are not copied
                "forall(field_values, lambda t: not is_ph(field_values[t]) and "
                "       exists(range(o), lambda x: sel(old_fields, x).column not in deleted_columns and "
                "              t == renamed_columns.get(sel(old_fields, x).column, sel(old_fields, x).column) and "
                "              field_values[t] == qn(sel(old_fields, x).column)))",
                "forall(range(o), lambda x: implies(sel(old_fields, x).column not in deleted_columns, "
                "       renamed_columns.get(sel(old_fields, x).column, sel(old_fields, x).column) in field_values))",
            ]),
            5: LoopInv('for column, initial in six.iteritems(new_initial):', index='n', clauses=[
                # exactly the columns with a bound parameter carry a placeholder
                'forall(field_values, lambda t: is_ph(field_values[t]) == (t in field_initial_params))',
                'forall(field_initial_params, lambda t: t in field_values and t in new_initial and '
                '       field_initial_params[t] == new_initial[t])',
                # only columns already visited have a bound parameter (keys of a dict are distinct)
                'forall(field_initial_params, lambda t: exists(range(n), lambda x: live(new_initial, x) and key_at(new_initial, x) == t))',
            ]),
        },
        ensures=[
            # --- C02: the k-th placeholder of the SELECT list (field_values order) is bound to the declared initial
            #     of that very column: field_initials is the order-preserving restriction of field_values' key order
            'forall(field_values, lambda t: is_ph(field_values[t]) == (t in field_initial_params))',
            'forall(range(len(field_initials)), lambda j: live(field_values, src_index(field_initials, j)) and '
            '       key_at(field_values, src_index(field_initials, j)) in field_initial_params and '
            '       sel(field_initials, j) == field_initial_params[key_at(field_values, src_index(field_initials, j))])',
            'forall((range(len(field_initials)), range(len(field_initials))), lambda j, j2: implies(j < j2, '
            '       src_index(field_initials, j) < src_index(field_initials, j2)))',
            'forall(range(log_len(field_values)), lambda x: implies(live(field_values, x) and '
            '       key_at(field_values, x) in field_initial_params, '
            '       0 <= dst_index(field_initials, x) and dst_index(field_initials, x) < len(field_initials) and '
            '       src_index(field_initials, dst_index(field_initials, x)) == x))',
            'forall(field_initial_params, lambda t: t in new_initial and field_initial_params[t] == new_initial[t])',
            # the declared initial, column by column
            'forall(new_initial, lambda c: %s)' % DECLARED.replace('range(i)', 'range(len(self.alter_table))'),
        ],
        note='analysed up to the first statement of step 1 (string assembly of the CREATE/INSERT statements); the '
             'dropped part lists iterkeys(field_values)/itervalues(field_values) of the same dict and binds '
             'tuple(field_initials) (syntactic obligation insert_select_shape)')
    add_column_schema(w)
    add_item_producers(w)
    fam = Family('contracts.rebuild', w)
    fam.syntactic.append(Syntactic('insert_select_shape', ['C02'], syn_insert_shape,
                                   'the INSERT..SELECT of step 2 lists iterkeys(field_values) and itervalues(field_values) of the '
                                   'same dict, binds tuple(field_initials), and has no WHERE clause'))
    return fam


def add_item_producers(w):
    """The SQLite backend's column operations: each queues exactly one well-formed rebuild item that carries the
    field and the mutation's declared initial value (the producer side of the to_sql copy-map contract)."""
    R = K.Ref('SQLiteAlterTableSQLResult')
    w.cls('MutationObj', {'initial': K.Opt(INITV)})
    w.cls('DbState', {})
    w.cls('EvolutionOperations', {'database_state': K.Ref('DbState'), '_can_rename_cols': K.Bool}, bases=['Backend'],
          module=SQLITE)
    w.classes['Field']['fields']['db_index'] = K.Bool
    w.stub('SQLiteAlterTableSQLResult.__init__',
           params={'self': R, 'evolver': K.Ref('Backend'), 'model': K.Ref('Model'), 'alter_table': K.Seq(ITEM)},
           modifies=['SQLiteAlterTableSQLResult.evolver[self]', 'SQLiteAlterTableSQLResult.model[self]',
                     'SQLiteAlterTableSQLResult.alter_table[self]', 'SQLiteAlterTableSQLResult.pre_sql[self]',
                     'SQLiteAlterTableSQLResult.sql[self]', 'SQLiteAlterTableSQLResult.post_sql[self]'],
           ensures=['self.evolver is evolver', 'self.model is model', 'same(self.alter_table, alter_table)'],
           note='AlterTableSQLResult.__init__ stores its arguments (alter_table or [])')
    # what add_index is told: (table, first column, number of columns, unique) per call, in order
    w.ghost_var('idx_log', K.Seq(K.Tuple(K.Str, K.Str, K.Int, K.Bool)))
    w.stub('DbState.add_index', params={'self': K.Ref('DbState'), 'table_name': K.Str, 'index_name': K.Str,
                                        'columns': K.Seq(K.Str), 'unique': K.Bool}, defaults={'unique': False},
           may_raise=['Exception'],
           effects=['idx_log = idx_log + [(table_name, sel(columns, 0) if len(columns) > 0 else "", len(columns), unique)]'],
           note='records the index in the in-memory database state, which later operations of the same run consult by '
                'column name')
    w.stub('EvolutionOperations.get_new_constraint_name', params={'self': K.Ref('EvolutionOperations'), 'table_name': K.Str,
                                                                  'column': K.Str}, returns=K.Str, pure=True, reads=())
    w.stub('create_index_name', params={'connection': K.Ref('Conn'), 'table_name': K.Str, 'field_names': K.Seq(K.Str),
                                        'col_names': K.Seq(K.Str)}, returns=K.Str, pure=True)
    ONE = "len(result.alter_table) == 1 and %s" % WF_ITEM.format(it='sel(result.alter_table, 0)')
    w.contract(
        'EvolutionOperations.add_column', module=SQLITE, serves=['C02', 'C01', 'C03'],
        params={'self': K.Ref('EvolutionOperations'), 'model': K.Ref('Model'), 'field': FIELD, 'initial': K.Opt(INITV)},
        returns=R, raises={'Exception': True}, modifies=['*heap', 'idx_log'],
        ensures=[ONE, "sel(result.alter_table, 0)['op'] == 'ADD COLUMN'",
                 # the queued item names this field and carries exactly the declared initial value
                 "sel(result.alter_table, 0)['field'] is field", "sel(result.alter_table, 0)['initial'] == initial",
                 'result.model is model', 'fresh_ref(result)',
                 # the index the new column gets is recorded for this table under the COLUMN name, once
                 'len(idx_log) == len(old(idx_log)) + (1 if old(field.unique or field.primary_key or field.db_index) else 0)',
                 'implies(len(idx_log) > len(old(idx_log)), sel(idx_log, len(old(idx_log))) == '
                 '        (old(model._meta.db_table), old(field.column), 1, old(field.unique or field.primary_key)))'])
    w.contract(
        'EvolutionOperations._change_attribute', module=SQLITE, inline=True,
        params={'self': K.Ref('EvolutionOperations'), 'model': K.Ref('Model'), 'field': FIELD, 'attr_name': K.Str,
                'new_attr_value': None, 'initial': K.Opt(INITV)}, defaults={'initial': None}, returns=R)
    w.contract(
        'EvolutionOperations.change_column_attr_null', module=SQLITE, serves=['C02'],
        params={'self': K.Ref('EvolutionOperations'), 'model': K.Ref('Model'), 'mutation': K.Ref('MutationObj'),
                'field': FIELD, 'old_value': K.Bool, 'new_value': K.Bool},
        returns=R, modifies=['*heap'],
        ensures=[ONE, "sel(result.alter_table, 0)['op'] == 'MODIFY COLUMN'",
                 # a null -> non-null change rebuilds with the mutation's own initial value for this very field
                 "sel(result.alter_table, 0)['field'] is field", "sel(result.alter_table, 0)['initial'] == mutation.initial",
                 'field.null == new_value', 'result.model is model'],
        note='_change_attribute is analysed inline (setattr with the constant attribute name "null")')
    for fname, attr, vkind in (('change_column_attr_max_length', 'max_length', K.Int),):
        w.classes['Field']['fields'].setdefault(attr, vkind)
        w.contract(
            'EvolutionOperations.%s' % fname, module=SQLITE, serves=['C02'],
            params={'self': K.Ref('EvolutionOperations'), 'model': K.Ref('Model'), 'mutation': K.Ref('MutationObj'),
                    'field': FIELD, 'old_value': vkind, 'new_value': vkind},
            returns=R, modifies=['*heap'],
            ensures=[ONE, "sel(result.alter_table, 0)['op'] == 'MODIFY COLUMN'", "sel(result.alter_table, 0)['field'] is field",
                     # no stored value is rewritten: the rebuild copies the column as it is
                     "sel(result.alter_table, 0)['initial'] is None", 'result.model is model'])
    w.classes['Field']['fields'].setdefault('_unique', K.Bool)
    w.contract(
        'EvolutionOperations.get_change_unique_sql', module=SQLITE, serves=['C02'],
        params={'self': K.Ref('EvolutionOperations'), 'model': K.Ref('Model'), 'field': FIELD, 'new_unique_value': K.Bool,
                'constraint_name': K.Opt(K.Str), 'initial': K.Opt(INITV)},
        returns=R, modifies=['*heap'],
        ensures=[ONE, "sel(result.alter_table, 0)['op'] == 'MODIFY COLUMN'", "sel(result.alter_table, 0)['field'] is field",
                 # changing uniqueness never replaces NULLs: the mutation's initial value does not travel with it
                 "sel(result.alter_table, 0)['initial'] is None", 'result.model is model'])
    w.contract(
        'EvolutionOperations.delete_column', module=SQLITE, serves=['C02', 'C01'],
        params={'self': K.Ref('EvolutionOperations'), 'model': K.Ref('Model'), 'field': FIELD},
        returns=R, modifies=['*heap'],
        ensures=[ONE, "sel(result.alter_table, 0)['op'] == 'DELETE COLUMN'",
                 "sel(result.alter_table, 0)['column'] == field.column", 'result.model is model'])


KEYWORDS = ('NULL', 'NOT NULL', 'PRIMARY KEY', 'UNIQUE', 'REFERENCES', 'DEFAULT')


def add_column_schema(w):
    """C01(b): the column clauses of a rebuilt/added column are those Django's own column_sql emits."""
    from .common import seq_member
    w.spec_funcs['member'] = seq_member
    w.consts['KEYWORDS'] = KEYWORDS
    w.cls('Remote', {})
    w.cls('PK', {'name': K.Str})
    w.classes['Meta']['fields']['pk'] = K.Ref('PK')
    NOTKW = ['result not in KEYWORDS']
    w.stub('Ops.tablespace_sql', params={'self': K.Ref('Ops'), 'tablespace': K.Str, 'inline': K.Bool}, returns=K.Str,
           pure=True, ensures=NOTKW, note='USING INDEX TABLESPACE ... clause text')
    w.contracts['Ops.quote_name'].ensures.append('result not in KEYWORDS')
    w.stub('get_remote_field', params={'field': FIELD}, returns=K.Opt(K.Ref('Remote')), pure=True,
           note="compat: field.remote_field (None for non-relations)")
    w.stub('get_remote_field_model', params={'rel': K.Ref('Remote')}, returns=K.Ref('Model'), pure=True)
    w.stub('Backend.get_deferrable_sql', params={'self': K.Ref('Backend')}, returns=K.Str, pure=True, ensures=NOTKW)
    w.stub('Backend.get_field_type_allows_default', params={'self': K.Ref('Backend'), 'field': FIELD}, returns=K.Bool,
           pure=True)
    w.contract(
        'BaseEvolutionOperations.build_column_schema', module=COMMON, serves=['C01', 'C11'],
        params={'self': K.Ref('Backend'), 'model': K.Ref('Model'), 'field': FIELD, 'initial': K.Opt(INITV),
                'skip_null_constraint': K.Bool, 'skip_primary_or_unique_constraint': K.Bool, 'skip_references': K.Bool},
        defaults={'initial': None, 'skip_null_constraint': False, 'skip_primary_or_unique_constraint': False,
                  'skip_references': False},
        returns=K.Rec(name=K.Str, db_type=K.Opt(K.Str), definition=K.Seq(K.Str), definition_sql_params=K.Seq(INITV)),
        locals={'column_def': K.Seq(K.Str), 'column_def_sql_params': K.Seq(INITV)},
        ensures=[
            "result['name'] == field.column", "result['db_type'] == field.db_type(self.connection)",
            # nullability
            "implies(not skip_null_constraint, ('NULL' in result['definition']) == field.null and "
            "        ('NOT NULL' in result['definition']) == (not field.null))",
            # primary key / uniqueness
            "implies(not skip_primary_or_unique_constraint, ('PRIMARY KEY' in result['definition']) == field.primary_key and "
            "        ('UNIQUE' in result['definition']) == (field.unique and not field.primary_key))",
            # foreign-key target clause present iff the field is a relation
            "('REFERENCES' in result['definition']) == (get_remote_field(field) is not None and not skip_references)",
            # ... and it names the related model's table and its primary key field AS THEY ARE NOW
            "implies(get_remote_field(field) is not None and not skip_references, "
            "        member(result['definition'], '(%s)' % self.connection.ops.quote_name("
            "               get_remote_field_model(some(get_remote_field(field)))._meta.pk.name)) and "
            "        member(result['definition'], self.connection.ops.quote_name("
            "               get_remote_field_model(some(get_remote_field(field)))._meta.db_table)))",
            # a DEFAULT clause binds exactly the given initial value
            "('DEFAULT' in result['definition']) == (len(result['definition_sql_params']) == 1)",
            "implies(len(result['definition_sql_params']) == 1, initial is not None and "
            "        sel(result['definition_sql_params'], 0) == some(initial))",
            "len(result['definition_sql_params']) <= 1",
        ],
        note="the class is BaseEvolutionOperations in the source; 'Backend' is its name in this sidecar")
    w.classes['BaseEvolutionOperations'] = w.classes['Backend']
    w.cls('BaseEvolutionOperations', dict(w.classes['Backend']['fields']), module=COMMON)
    w.classes['Backend']['bases'] = ['BaseEvolutionOperations']
    for name in list(w.contracts):
        if name.startswith('Backend.'):
            c = w.contracts[name]
            w.contracts['BaseEvolutionOperations.' + name.split('.', 1)[1]] = c


def syn_insert_shape():
    from pyvc import extract
    ex = extract.find(SQLITE, 'SQLiteAlterTableSQLResult.to_sql')
    src = ex.text
    i = src.find("'INSERT INTO %s (%s) SELECT %s FROM %s;'")
    if i < 0:
        return False, 'INSERT ... SELECT format string not found'
    seg = src[i:i + 900]
    ok = ('six.iterkeys(field_values)' in seg and 'six.itervalues(field_values)' in seg and
          'tuple(field_initials)' in seg and 'WHERE' not in seg.upper().split('TUPLE(FIELD_INITIALS)')[0])
    return ok, 'segment: %r' % seg[:300]
