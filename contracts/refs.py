"""C11: reference rewriting in RenameModel / RenameAppLabel / RenameField simulate()."""
import ast
import z3

from pyvc import kinds as K
from pyvc.world import World, LoopInv
from pyvc.runner import Family, Lemma, Syntactic
from . import sigsim

RMODEL = 'django_evolution/mutations/rename_model.py'
RAPP = 'django_evolution/mutations/rename_app_label.py'
SIG = sigsim.SIG

# "no relation in the project names <X>" as nested macros over the three dict levels
FIELDS_OK = "forall(m._field_sigs, lambda fk: m._field_sigs[fk].related_model != bad)"
MODELS_OK = "forall(a._model_sigs, lambda mk: fields_ok(a._model_sigs[mk], bad))"
PROJECT_OK = "forall(p._app_sigs, lambda ak: models_ok(p._app_sigs[ak], bad))"


def declare_views(w):
    w.classes['ProjectSignature']['views'] = {'app_sigs': ('_app_sigs', 'values')}
    w.classes['AppSignature']['views'] = {'model_sigs': ('_model_sigs', 'values')}
    w.classes['ModelSignature']['views'] = {'field_sigs': ('_field_sigs', 'values')}
    w.define('fields_ok', ['m', 'bad'], FIELDS_OK)
    w.define('models_ok', ['a', 'bad'], MODELS_OK)
    w.define('project_ok', ['p', 'bad'], PROJECT_OK)


def build():
    w = World('refs')
    sigsim.declare_signature_classes(w)
    sigsim.declare_accessors(w, [])
    sigsim.declare_simulation(w, [])
    declare_views(w)
    w.kinds['Str'] = K.Str

    w.cls('RenameModel', {'old_model_name': K.Str, 'new_model_name': K.Str, 'db_table': K.Opt(K.Str)},
          bases=['BaseMutation'], module=RMODEL)
    w.stub('ModelSignature.clone', params={'self': K.Ref('ModelSignature')}, returns=K.Ref('ModelSignature'),
           modifies=['ModelSignature.model_name', 'ModelSignature.table_name', 'ModelSignature._field_sigs',
                     'FieldSignature.field_name', 'FieldSignature.field_type', 'FieldSignature.field_attrs',
                     'FieldSignature.related_model'],
           ensures=[
               'fresh_ref(result)', 'result.model_name == self.model_name', 'result.table_name == self.table_name',
               # deep copy: same field names, each a new FieldSignature object with equal content
               'forall(Str, lambda k: (k in result._field_sigs) == (k in self._field_sigs))',
               'forall(self._field_sigs, lambda k: fresh_ref(result._field_sigs[k]) and '
               '       result._field_sigs[k].related_model == self._field_sigs[k].related_model and '
               '       result._field_sigs[k].field_name == self._field_sigs[k].field_name)',
               # nothing that existed before is touched
               'forall(Ref_Model, lambda m: implies(not fresh_ref(m), m._field_sigs == old(m._field_sigs) and '
               '       m.model_name == old(m.model_name) and m.table_name == old(m.table_name)))',
               'forall(Ref_Field, lambda f: implies(not fresh_ref(f), f.related_model == old(f.related_model)))',
           ],
           note='ModelSignature.clone(): deep copy (C05 puts clone itself under contract)')
    w.stub('AppSignature.remove_model_sig', params={'self': K.Ref('AppSignature'), 'model_name': K.Str},
           modifies=['AppSignature._model_sigs[self]'],
           raises={'MissingSignatureError': 'model_name not in self._model_sigs'},
           ensures=['model_name not in self._model_sigs',
                    'forall(Str, lambda k: implies(k != model_name, (k in self._model_sigs) == old(k in self._model_sigs) and '
                    '       implies(k in self._model_sigs, self._model_sigs[k] is old(self._model_sigs[k]))))'],
           note='del self._model_sigs[model_name]')
    w.stub('AppSignature.add_model_sig', params={'self': K.Ref('AppSignature'), 'model_sig': K.Ref('ModelSignature')},
           modifies=['AppSignature._model_sigs[self]'],
           ensures=['model_sig.model_name in self._model_sigs', 'self._model_sigs[model_sig.model_name] is model_sig',
                    'forall(Str, lambda k: implies(k != model_sig.model_name, '
                    '       (k in self._model_sigs) == old(k in self._model_sigs) and '
                    '       implies(k in self._model_sigs, self._model_sigs[k] is old(self._model_sigs[k]))))'],
           note='self._model_sigs[model_sig.model_name] = model_sig')

    OLD = "('%s.%s' % (simulation.app_label, self.old_model_name))"
    NEW = "('%s.%s' % (simulation.app_label, self.new_model_name))"
    REWRITE_FRAME = ("forall(Ref_Field, lambda f: implies(not fresh_ref(f) or True, "
                     "f.related_model == at_loop(f) or (at_loop(f) == %s and f.related_model == %s)))" % (OLD, NEW))
    w.contract(
        'RenameModel.simulate', module=RMODEL, serves=['C11'],
        params={'self': K.Ref('RenameModel'), 'simulation': K.Ref('Simulation')},
        requires=['self.old_model_name != self.new_model_name'],
        raises={'SimulationFailure': True, 'MissingSignatureError': True},
        modifies=['AppSignature._model_sigs', 'ModelSignature.model_name', 'ModelSignature.table_name',
                  'ModelSignature._field_sigs', 'FieldSignature.field_name', 'FieldSignature.field_type',
                  'FieldSignature.field_attrs', 'FieldSignature.related_model'],
        ghost_before={'for cur_app_sig in simulation.project_sig.app_sigs:': [
            "use_lemma('dotted_inj', a=simulation.app_label, o=self.old_model_name, n=self.new_model_name)",
            "P = simulation.project_sig"]},
        invariants={
            1: LoopInv('for cur_app_sig in simulation.project_sig.app_sigs:', index='ai', clauses=[
                'simulation.project_sig is P', 'P._app_sigs == old(P._app_sigs)',
                "forall(range(ai), lambda x: implies(live(P._app_sigs, x), "
                "       models_ok(P._app_sigs[key_at(P._app_sigs, x)], %s)))" % OLD]),
            2: LoopInv('for cur_model_sig in cur_app_sig.model_sigs:', index='mi', clauses=[
                'simulation.project_sig is P', 'P._app_sigs == old(P._app_sigs)',
                "forall(range(ai), lambda x: implies(live(P._app_sigs, x), "
                "       models_ok(P._app_sigs[key_at(P._app_sigs, x)], %s)))" % OLD,
                "forall(range(mi), lambda y: implies(live(cur_app_sig._model_sigs, y), "
                "       fields_ok(cur_app_sig._model_sigs[key_at(cur_app_sig._model_sigs, y)], %s)))" % OLD]),
            3: LoopInv('for cur_field_sig in cur_model_sig.field_sigs:', index='fi', clauses=[
                'simulation.project_sig is P', 'P._app_sigs == old(P._app_sigs)',
                "forall(range(ai), lambda x: implies(live(P._app_sigs, x), "
                "       models_ok(P._app_sigs[key_at(P._app_sigs, x)], %s)))" % OLD,
                "forall(range(mi), lambda y: implies(live(cur_app_sig._model_sigs, y), "
                "       fields_ok(cur_app_sig._model_sigs[key_at(cur_app_sig._model_sigs, y)], %s)))" % OLD,
                "forall(range(fi), lambda z: implies(live(cur_model_sig._field_sigs, z), "
                "       cur_model_sig._field_sigs[key_at(cur_model_sig._field_sigs, z)].related_model != %s))" % OLD]),
        },
        ensures=[
            # after the rename no relation anywhere in the project still names the old model
            "project_ok(simulation.project_sig, %s)" % OLD,
            # the model is reachable under its new name only
            "self.new_model_name in old(simulation.get_app_sig())._model_sigs",
            "self.old_model_name not in old(simulation.get_app_sig())._model_sigs",
            "old(simulation.get_app_sig())._model_sigs[self.new_model_name].model_name == self.new_model_name",
        ])
    w.lemma_texts['dotted_inj'] = (
        ['a', 'o', 'n'], ["o != n"], "('%s.%s' % (a, o)) != ('%s.%s' % (a, n))")

    add_rename_app_label(w)
    fam = Family('contracts.refs', w)
    fam.replay['RenameAppLabel.simulate'] = replay_rename_app_label
    fam.lemmas.append(Lemma('dotted_inj', ['C11'], lemma_dotted_inj))
    fam.lemmas.append(Lemma('app_of_dotted', ['C11'], lemma_app_of_dotted))
    fam.syntactic.append(Syntactic('signature_views', ['C11'], syn_views,
                                   'the app_sigs/model_sigs/field_sigs properties return six.itervalues of the '
                                   'corresponding private dict (the engine models them as dict value views)'))
    return fam


def app_of(it, s):
    """Text before the first dot - exactly the term str.split('.', 1)[0] evaluates to in the engine."""
    t = s.t
    idx = z3.IndexOf(t, z3.StringVal('.'), 0)
    return K.vstr(z3.If(idx >= 0, z3.SubString(t, 0, idx), t))


def add_rename_app_label(w):
    w.spec_funcs['app_of'] = app_of
    w.module_names |= {'UpgradeMethod'}
    w.cls('RenameAppLabel', {'old_app_label': K.Str, 'new_app_label': K.Str, 'legacy_app_label': K.Opt(K.Str),
                             'model_names': K.Opt(K.Set(K.Str))}, bases=['BaseMutation'], module=RAPP)
    # relation text is "<app label>.<model name>"; bad = it still starts with the old label
    w.define('fields_ok2', ['m', 'old'],
             "forall(m._field_sigs, lambda fk: m._field_sigs[fk].related_model is None or "
             "       app_of(some(m._field_sigs[fk].related_model)) != old)")
    w.define('models_ok2', ['a', 'old'], "forall(a._model_sigs, lambda mk: fields_ok2(a._model_sigs[mk], old))")
    w.define('project_ok2', ['p', 'old'], "forall(p._app_sigs, lambda ak: models_ok2(p._app_sigs[ak], old))")
    w.define('dotted', ['p'],
             "forall(Ref_Field, lambda f: f.related_model is None or '.' in some(f.related_model))")
    w.stub('AppSignature.__init__',
           params={'self': K.Ref('AppSignature'), 'app_id': K.Str, 'legacy_app_label': K.Opt(K.Str),
                   'upgrade_method': None},
           modifies=['AppSignature.app_id[self]', 'AppSignature.legacy_app_label[self]', 'AppSignature._model_sigs[self]'],
           ensures=['self.app_id == app_id', 'len(self._model_sigs) == 0',
                    'forall(Str, lambda k: k not in self._model_sigs)'])
    w.stub('ProjectSignature.add_app_sig', params={'self': K.Ref('ProjectSignature'), 'app_sig': K.Ref('AppSignature')},
           modifies=['ProjectSignature._app_sigs[self]'],
           ensures=['app_sig.app_id in self._app_sigs', 'self._app_sigs[app_sig.app_id] is app_sig',
                    'forall(Str, lambda k: implies(k != app_sig.app_id, (k in self._app_sigs) == old(k in self._app_sigs) and '
                    '       implies(k in self._app_sigs, self._app_sigs[k] is old(self._app_sigs[k]))))'])
    w.stub('ProjectSignature.remove_app_sig', params={'self': K.Ref('ProjectSignature'), 'app_id': K.Str},
           modifies=['ProjectSignature._app_sigs[self]'],
           raises={'MissingSignatureError': 'app_id not in self._app_sigs'},
           ensures=['app_id not in self._app_sigs',
                    'forall(Str, lambda k: implies(k != app_id, (k in self._app_sigs) == old(k in self._app_sigs) and '
                    '       implies(k in self._app_sigs, self._app_sigs[k] is old(self._app_sigs[k]))))'])
    w.stub('AppSignature.is_empty', params={'self': K.Ref('AppSignature')}, returns=K.Bool, pure=True,
           ensures=['result == (len(self._model_sigs) == 0)'])
    OLDL, NEWL = 'self.old_app_label', 'self.new_app_label'
    FROZEN = ['project_sig is P', 'P._app_sigs == A0', 'old_app_label == %s' % OLDL, 'new_app_label == %s' % NEWL,
              "'.' not in old_app_label", "'.' not in new_app_label", 'old_app_label != new_app_label',
              'dotted(P)']
    OUTER = ("forall(range(ai), lambda x: implies(live(P._app_sigs, x), "
             "       models_ok2(P._app_sigs[key_at(P._app_sigs, x)], old_app_label)))")
    MID = ("forall(range(mi), lambda y: implies(live(cur_app_sig._model_sigs, y), "
           "       fields_ok2(cur_app_sig._model_sigs[key_at(cur_app_sig._model_sigs, y)], old_app_label)))")
    INNER = ("forall(range(fi), lambda z: implies(live(cur_model_sig._field_sigs, z), "
             "       cur_model_sig._field_sigs[key_at(cur_model_sig._field_sigs, z)].related_model is None or "
             "       app_of(some(cur_model_sig._field_sigs[key_at(cur_model_sig._field_sigs, z)].related_model)) != old_app_label))")
    w.contract(
        'RenameAppLabel.simulate', module=RAPP, serves=['C11'],
        params={'self': K.Ref('RenameAppLabel'), 'simulation': K.Ref('Simulation')},
        requires=['self.old_app_label != self.new_app_label', "'.' not in self.old_app_label",
                  "'.' not in self.new_app_label", 'dotted(simulation.project_sig)'],
        raises={'SimulationFailure': True, 'MissingSignatureError': True},
        modifies=['ProjectSignature._app_sigs', 'AppSignature._model_sigs', 'AppSignature.app_id',
                  'AppSignature.legacy_app_label', 'Simulation.app_label[simulation]', 'FieldSignature.related_model'],
        locals={'model_sigs': K.Seq(K.Ref('ModelSignature'))},
        ghost_before={
            'for cur_app_sig in project_sig.app_sigs:': ['P = project_sig', 'A0 = project_sig._app_sigs'],
            "cur_field_sig.related_model = \\": [
                "use_lemma('app_of_dotted', a=new_app_label, b=parts[1])"],
        },
        invariants={
            1: LoopInv('for model_sig in model_sigs:', index='k', clauses=[
                'dotted(simulation.project_sig)', 'simulation.project_sig is project_sig',
                "forall(Ref_Field, lambda f: f.related_model == old(f.related_model))"]),
            2: LoopInv('for cur_app_sig in project_sig.app_sigs:', index='ai', clauses=FROZEN + [OUTER]),
            3: LoopInv('for cur_model_sig in cur_app_sig.model_sigs:', index='mi', clauses=FROZEN + [OUTER, MID]),
            4: LoopInv('for cur_field_sig in cur_model_sig.field_sigs:', index='fi',
                       clauses=FROZEN + [OUTER, MID, INNER]),
        },
        ensures=[
            # no relation anywhere in the project still points into the old app label
            'project_ok2(simulation.project_sig, self.old_app_label)',
            'simulation.app_label == self.new_app_label',
        ])
    w.lemma_texts['app_of_dotted'] = (['a', 'b'], ["'.' not in a"], "app_of('%s.%s' % (a, b)) == a")


def lemma_app_of_dotted(fam):
    """'.' not in a  ==>  text before the first dot of a + '.' + b is a."""
    a, b = z3.String('a'), z3.String('b')
    dot = z3.StringVal('.')
    s = z3.Concat(a, dot, b)
    idx = z3.IndexOf(s, dot, 0)
    return [('prefix', [z3.Not(z3.Contains(a, dot))],
             z3.If(idx >= 0, z3.SubString(s, 0, idx), s) == a)]


def replay_rename_app_label(label, inputs):
    """RenameAppLabel on a real two-app signature with a cross-app relation into the renamed app."""
    from django.db import models
    from django_evolution.signature import (ProjectSignature, AppSignature, ModelSignature, FieldSignature)
    from django_evolution.mutations import RenameAppLabel
    from django_evolution.db.state import DatabaseState
    p = ProjectSignature()
    a = AppSignature('old_app')
    m = ModelSignature('Target', 'old_app_target')
    m.add_field_sig(FieldSignature('id', models.AutoField, {'primary_key': True}))
    m.add_field_sig(FieldSignature('parent', models.ForeignKey, {}, related_model='old_app.Target'))
    a.add_model_sig(m)
    p.add_app_sig(a)
    b = AppSignature('other')
    m2 = ModelSignature('Ref', 'other_ref')
    m2.add_field_sig(FieldSignature('target', models.ForeignKey, {}, related_model='old_app.Target'))
    m2.add_field_sig(FieldSignature('old', models.ForeignKey, {}, related_model='old_app2.Thing'))
    b.add_model_sig(m2)
    p.add_app_sig(b)
    RenameAppLabel('old_app', 'new_app').run_simulation(
        app_label='old_app', project_sig=p, database_state=DatabaseState('default', scan=False), database='default')
    dangling, wrong = [], []
    for app_sig in p.app_sigs:
        for model_sig in app_sig.model_sigs:
            for f in model_sig.field_sigs:
                if f.related_model:
                    lab, name = f.related_model.split('.', 1)
                    tgt = p.get_app_sig(lab)
                    if lab == 'old_app' or (lab != 'old_app2' and (tgt is None or tgt.get_model_sig(name) is None)):
                        dangling.append('%s.%s.%s -> %s' % (app_sig.app_id, model_sig.model_name, f.field_name, f.related_model))
                    if lab == 'old_app2' and f.related_model != 'old_app2.Thing':
                        wrong.append(f.related_model)
    return {'reproduced': bool(dangling or wrong), 'dangling_relations': dangling, 'wrongly_rewritten': wrong}


def lemma_dotted_inj(fam):
    """'a.o' == 'a.n' implies o == n (string theory; cvc5 --strings-exp or z3 seq)."""
    a, o, n = z3.String('a'), z3.String('o'), z3.String('n')
    dot = z3.StringVal('.')
    return [('inj', [o != n], z3.Concat(a, dot, o) != z3.Concat(a, dot, n))]


def syn_views():
    from pyvc import extract
    want = {('ProjectSignature', 'app_sigs'): 'return six.itervalues(self._app_sigs)',
            ('AppSignature', 'model_sigs'): 'return six.itervalues(self._model_sigs)',
            ('ModelSignature', 'field_sigs'): 'return six.itervalues(self._field_sigs)'}
    bad = []
    for (cls, prop), text in want.items():
        ex = extract.find(SIG, '%s.%s' % (cls, prop))
        body = [st for st in ex.node.body if not (isinstance(st, ast.Expr) and isinstance(st.value, ast.Constant))]
        got = ast.unparse(body[0]) if len(body) == 1 else '<%d statements>' % len(body)
        if got != text or ex.decorators != ['property']:
            bad.append('%s.%s: %s' % (cls, prop, got))
    return not bad, 'unexpected property bodies: %r' % (bad,)
