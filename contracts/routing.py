"""C16: database routing - is_mutable, AppSignature.from_app filter, mutable-filter of generate_mutations_info."""
import z3

from pyvc import kinds as K
from pyvc.kinds import V
from pyvc.world import World, LoopInv
from pyvc.runner import Family

BASE = 'django_evolution/mutations/base.py'
SIG = 'django_evolution/signature.py'
TASK = 'django_evolution/evolve/evolve_app_task.py'
EVBASE = 'django_evolution/evolve/base.py'

MODEL = K.Atom('ModelClass')
MUT = K.Ref('BaseMutation')


def route_fn(it, app, model):
    """Uninterpreted router result: the alias the routers pick for (app, model), or None."""
    f_none = it.p.ctx.ufunc('route!none', z3.StringSort(), z3.StringSort(), z3.BoolSort())
    f_val = it.p.ctx.ufunc('route!val', z3.StringSort(), z3.StringSort(), z3.StringSort())
    return V(K.Opt(K.Str), [f_none(app.t, model.t), f_val(app.t, model.t)])


def allows_fn(it, database, app, model):
    f = it.p.ctx.ufunc('router_allows', z3.StringSort(), z3.StringSort(), MODEL.leaf_sorts()[0], z3.BoolSort())
    return K.vbool(f(database.t, app.t, model.t))


def mutable_fn(it, mutation, app_label, database):
    f = it.p.ctx.ufunc('mutable', z3.IntSort(), z3.StringSort(), z3.BoolSort(), z3.StringSort(), z3.BoolSort())
    database = K.coerce(database, K.Opt(K.Str))
    return K.vbool(f(mutation.t, app_label.t, database.terms[0], database.terms[1]))


def build():
    w = World('routing')
    w.spec_funcs['route'] = route_fn
    w.spec_funcs['router_allows'] = allows_fn
    w.spec_funcs['mutable'] = mutable_fn
    w.cls('BaseMutation', {})
    w.cls('BaseModelMutation', {'model_name': K.Str}, bases=['BaseMutation'], module=BASE)
    w.cls('AppSignature', {}, module=SIG)
    w.cls('Evolver', {'database_name': K.Str, 'project_sig': K.Atom('ProjectSig'),
                      'database_state': K.Atom('DatabaseState')})
    w.cls('BaseEvolutionTask', {'evolver': K.Ref('Evolver')}, module=EVBASE)
    w.cls('EvolveAppTask', {'app_label': K.Str, 'legacy_app_label': K.Opt(K.Str)},
          bases=['BaseEvolutionTask'], module=TASK)
    w.cls('AppMutator', {'project_sig': K.Ref('ProjectSignature')})
    w.cls('ProjectSignature', {})
    w.ghost_var('added_models', K.Seq(MODEL))          # models passed to add_model, in order
    w.ghost_var('ran_mutations', K.Seq(MUT))            # list handed to AppMutator.run_mutations
    w.ghost_var('ran_count', K.Int)

    # ---- is_mutable ---------------------------------------------------------------------------
    w.stub('get_database_for_model_name', params={'app_name': K.Str, 'model_name': K.Str},
           returns=K.Opt(K.Str), pure=True, ensures=['result == route(app_name, model_name)'],
           note="Django's router.db_for_write(get_model(app, model)) as an uninterpreted function route(app, model)")
    w.contract(
        'BaseModelMutation.is_mutable', module=BASE, serves=['C16'],
        params={'self': K.Ref('BaseModelMutation'), 'app_label': K.Str, 'project_sig': K.Atom('ProjectSig'),
                'database_state': K.Atom('DatabaseState'), 'database': K.Opt(K.Str)},
        returns=None,
        # from the property: a mutation is applied to a database iff the routers put its model there
        ensures=["truthy(result) == (truthy(route(app_label, self.model_name)) and "
                 "                   route(app_label, self.model_name) == database)"],
        observe=["route(app_label, self.model_name)", "self.model_name"])

    # ---- AppSignature.from_app ------------------------------------------------------------------
    w.stub('get_app_label', params={'app': K.Atom('App')}, returns=K.Str, pure=True)
    w.stub('get_legacy_app_label', params={'app': K.Atom('App')}, returns=K.Opt(K.Str), pure=True)
    w.stub('get_app_upgrade_info', params={'app': K.Atom('App'), 'simulate_applied': K.Bool, 'database': K.Str},
           returns=K.Rec(upgrade_method=K.Opt(K.Str), applied_migrations=K.Opt(K.Atom('MigrationSet'))),
           note='scans evolutions/migrations of the app; no effect on the signature being built')
    w.stub('get_models', params={'app': K.Atom('App')}, returns=K.Seq(MODEL), pure=True,
           note="Django's app registry: the app's model classes")
    w.stub('db_router_allows_schema_upgrade', params={'database': K.Str, 'app_label': K.Str, 'model_cls': MODEL},
           returns=K.Bool, pure=True, ensures=['result == router_allows(database, app_label, model_cls)'],
           note="Django's router.allow_migrate as an uninterpreted predicate")
    w.stub('AppSignature.__init__',
           params={'self': K.Ref('AppSignature'), 'app_id': K.Str, 'legacy_app_label': K.Opt(K.Str),
                   'upgrade_method': K.Opt(K.Str), 'applied_migrations': K.Opt(K.Atom('MigrationSet'))})
    w.stub('AppSignature.add_model', params={'self': K.Ref('AppSignature'), 'model': MODEL},
           effects=['added_models = added_models + [model]'],
           note='adds ModelSignature.from_model(model) to the app signature (C05/C06 cover its content)')
    w.contract(
        'AppSignature.from_app', module=SIG, serves=['C16'],
        params={'cls': None, 'app': K.Atom('App'), 'database': K.Str},
        returns=K.Ref('AppSignature'),
        requires=['len(added_models) == 0'], modifies=['added_models'],
        raises={},
        invariants={1: LoopInv(
            'for model in get_models(app):', index='i',
            clauses=[
                # added_models is exactly the router-allowed prefix, in order
                'len(added_models) <= i',
                'forall(range(len(added_models)), lambda a: router_allows(database, get_app_label(app), sel(added_models, a)))',
                'forall(range(i), lambda b: implies(router_allows(database, get_app_label(app), sel(get_models(app), b)),'
                '       exists(range(len(added_models)), lambda a: sel(added_models, a) == sel(get_models(app), b))))',
                'forall(range(len(added_models)), lambda a: exists(range(i), lambda b: sel(added_models, a) == sel(get_models(app), b)))',
            ])},
        ensures=[
            'forall(range(len(added_models)), lambda a: router_allows(database, get_app_label(app), sel(added_models, a)))',
            'forall(range(len(get_models(app))), lambda b: implies(router_allows(database, get_app_label(app), sel(get_models(app), b)),'
            '       exists(range(len(added_models)), lambda a: sel(added_models, a) == sel(get_models(app), b))))',
            'forall(range(len(added_models)), lambda a: exists(range(len(get_models(app))), lambda b: sel(added_models, a) == sel(get_models(app), b)))',
        ])
    from pyvc.engine import PyObj
    w.consts['cls'] = PyObj('class', name='AppSignature')

    # ---- generate_mutations_info filter -------------------------------------------------------
    w.stub('BaseMutation.is_mutable',
           params={'self': MUT, 'app_label': K.Str, 'project_sig': K.Atom('ProjectSig'),
                   'database_state': K.Atom('DatabaseState'), 'database': K.Opt(K.Str)},
           returns=K.Bool, pure=True, ensures=['result == mutable(self, app_label, database)'],
           note='dynamic dispatch over mutation classes, abstracted as the predicate mutable(m, app, db); '
                'BaseModelMutation.is_mutable is verified separately against route()')
    w.contract(
        'BaseEvolutionTask.is_mutation_mutable', module=EVBASE, serves=['C16'],
        params={'self': K.Ref('BaseEvolutionTask'), 'mutation': MUT, 'app_label': K.Str},
        returns=K.Bool, pure=True, kwarg='kwargs', kwarg_keys=['app_label'],
        ensures=['result == mutable(mutation, app_label, self.evolver.database_name)'],
        note='**kwargs modelled as the single keyword app_label (its only use in the repository)')
    w.stub('AppMutator.from_evolver',
           params={'evolver': K.Ref('Evolver'), 'app_label': K.Str, 'legacy_app_label': K.Opt(K.Str),
                   'update_evolver': K.Bool}, returns=K.Ref('AppMutator'))
    w.stub('AppMutator.run_mutations', params={'self': K.Ref('AppMutator'), 'mutations': K.Seq(MUT)},
           effects=['ran_mutations = mutations', 'ran_count = ran_count + 1'], may_raise=['Exception'],
           note='optimises, simulates and generates SQL for the given list (C03/C05 territory)')
    w.stub('AppMutator.to_sql', params={'self': K.Ref('AppMutator')}, returns=K.Seq(K.Atom('SQL')))
    w.stub('ProjectSignature.get_app_sig', params={'self': K.Ref('ProjectSignature'), 'app_id': K.Opt(K.Str)},
           returns=K.Opt(K.Ref('AppSigFull')), pure=True)
    w.cls('AppSigFull', {'applied_migrations': K.Opt(K.Atom('MigrationSet')), 'upgrade_method': K.Opt(K.Str)})
    w.contract(
        'EvolveAppTask.generate_mutations_info', module=TASK, serves=['C16'],
        params={'self': K.Ref('EvolveAppTask'), 'pending_mutations': K.Seq(MUT), 'update_evolver': K.Bool},
        returns=None, requires=['ran_count == 0'], modifies=['ran_mutations', 'ran_count'],
        raises={'Exception': True},
        ensures=[
            # only mutations routed to this database reach the mutator ...
            'implies(ran_count > 0, forall(range(len(ran_mutations)), lambda a: '
            '        mutable(sel(ran_mutations, a), old(self.app_label), old(self.evolver.database_name))))',
            # ... all of them do, in order (nothing routed here is dropped)
            'forall(range(len(pending_mutations)), lambda b: implies('
            '       mutable(sel(pending_mutations, b), old(self.app_label), old(self.evolver.database_name)), ran_count == 1 and '
            '       exists(range(len(ran_mutations)), lambda a: sel(ran_mutations, a) is sel(pending_mutations, b))))',
            'ran_count <= 1',
        ],
        ensures_exc=['ran_count <= 1'])

    add_pending_filter(w)
    fam = Family('contracts.routing', w)
    fam.replay['BaseModelMutation.is_mutable'] = replay_is_mutable
    return fam


def add_pending_filter(w):
    """get_app_pending_mutations: only mutations on models whose signature differs on THIS database are kept
    (the signature passed in is the router-filtered one, so this is what skips models routed elsewhere)."""
    EVUTIL = 'django_evolution/utils/evolutions.py'
    w.kinds['Str'] = K.Str
    w.cls('ModelSig', {'model_name': K.Str})
    w.cls('AppSig2', {'_model_sigs': K.Map(K.Str, K.Ref('ModelSig'))},
          views={'model_sigs': ('_model_sigs', 'values')})
    w.cls('ProjectSig2', {})
    w.cls('RenameModel', {}, bases=['BaseModelMutation'])
    w.stub('ModelSig.__eq__', params={'self': K.Ref('ModelSig'), 'other': K.Ref('ModelSig')}, returns=K.Bool,
           pure=True, note='ModelSignature.__eq__ (C05 puts it under contract); here an uninterpreted relation')
    w.stub('AppSig2.get_model_sig', params={'self': K.Ref('AppSig2'), 'model_name': K.Str},
           returns=K.Opt(K.Ref('ModelSig')), pure=True,
           ensures=['iff(result is None, model_name not in self._model_sigs)',
                    'implies(result is not None, result is self._model_sigs[model_name])'],
           note='verified in contracts.sigsim')
    w.stub('AppSig2.is_empty', params={'self': K.Ref('AppSig2')}, returns=K.Bool, pure=True,
           ensures=['result == (len(self._model_sigs) == 0)'], note='return not bool(self._model_sigs)')
    w.stub('ProjectSig2.get_app_sig', params={'self': K.Ref('ProjectSig2'), 'app_id': K.Str},
           returns=K.Opt(K.Ref('AppSig2')), pure=True, note='verified in contracts.sigsim')
    w.stub('get_app_mutations', params={'app': K.Atom('App'), 'evolution_labels': K.Seq(K.Str), 'database': K.Str},
           returns=K.Seq(MUT))
    # a model counts as changed when its current signature differs from the stored one, or it is gone
    CHANGED = ("(exists(range(log_len(A._model_sigs)), lambda q: live(A._model_sigs, q) and "
               "   O.get_model_sig(A._model_sigs[key_at(A._model_sigs, q)].model_name) not in "
               "       (None, A._model_sigs[key_at(A._model_sigs, q)]) and "
               "   k == A._model_sigs[key_at(A._model_sigs, q)].model_name) or "
               " exists(range(log_len(O._model_sigs)), lambda q: live(O._model_sigs, q) and "
               "   A.get_model_sig(O._model_sigs[key_at(O._model_sigs, q)].model_name) is None and "
               "   k == O._model_sigs[key_at(O._model_sigs, q)].model_name))")
    w.define('changed_in', ['k', 'A', 'O'], CHANGED)
    KEEP = ("(not dtype_in(m, 'BaseModelMutation') or dtype_is(m, 'RenameModel') or "
            " changed_in(model_name_of(m), some(some(project_sig).get_app_sig(get_app_label(app))), "
            "            some(some(old_project_sig).get_app_sig(get_app_label(app)))))")
    w.define('keep', ['m', 'app', 'old_project_sig', 'project_sig'], KEEP)
    w.spec_funcs['dtype_in'] = lambda it, v, name: K.vbool(__import__('z3').Or(*[
        it.p.ctx.dtype(v.t) == it.p.ctx.class_id(c) for c in it.w.subclasses(__import__('z3').simplify(name.t).as_string())]))
    w.spec_funcs['model_name_of'] = lambda it, v: it.heap_read(v, 'BaseModelMutation.model_name', K.Str)
    BOTH = ("some(old_project_sig).get_app_sig(get_app_label(app)) is not None and "
            "some(project_sig).get_app_sig(get_app_label(app)) is not None")
    w.contract(
        'get_app_pending_mutations', module=EVUTIL, serves=['C16'],
        params={'app': K.Atom('App'), 'evolution_labels': K.Seq(K.Str), 'mutations': K.Opt(K.Seq(MUT)),
                'old_project_sig': K.Opt(K.Ref('ProjectSig2')), 'project_sig': K.Opt(K.Ref('ProjectSig2')),
                'database': K.Str},
        defaults={'mutations': None, 'old_project_sig': None, 'project_sig': None, 'database': 'default'},
        requires=['mutations is not None', 'old_project_sig is not None', 'project_sig is not None'],
        returns=K.Seq(MUT),
        ensures=[
            'forall(range(len(result)), lambda j: exists(range(len(some(mutations))), lambda i: sel(result, j) is sel(some(mutations), i)))',
            # with a stored and a current signature for the app: exactly the mutations that touch a model whose
            # signature differs on this database (plus model renames and non-model mutations) survive, in order
            'implies(%s, forall(range(len(result)), lambda j: keep(sel(result, j), app, old_project_sig, project_sig)))' % BOTH,
            'implies(%s, forall(range(len(some(mutations))), lambda i: implies(keep(sel(some(mutations), i), app, old_project_sig, project_sig), '
            '        exists(range(len(result)), lambda j: sel(result, j) is sel(some(mutations), i)))))' % BOTH,
            'implies(not (%s), result == some(mutations))' % BOTH,
        ],
        note='the three defaulting branches (load mutations / stored signature / current signature from the database) '
             'are excluded by the precondition: callers on the evolve path pass or default them, ORM access is trusted')


def replay_is_mutable(label, inputs):
    """Real is_mutable with the router lookup replaced by the counter-model's route value."""
    from django_evolution.mutations import base
    route = inputs.get('observe:route(app_label, self.model_name)', inputs.get('route'))
    model_name = inputs.get('observe:self.model_name') or (inputs.get('self') or {}).get('model_name', 'M')
    m = base.BaseModelMutation(model_name)
    orig = base.get_database_for_model_name
    base.get_database_for_model_name = lambda app, model: route
    try:
        got = m.is_mutable(inputs['app_label'], None, None, inputs['database'])
    finally:
        base.get_database_for_model_name = orig
    want = bool(route) and route == inputs['database']
    return {'reproduced': bool(got) != want, 'observed': repr(got), 'expected': want,
            'route': route, 'database': inputs['database']}
