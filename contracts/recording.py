"""C08: which evolutions a run applies and records (utils/evolutions.py, EvolveAppTask.prepare)."""
from pyvc import kinds as K
from pyvc.world import World, LoopInv
from pyvc.runner import Family

EVUTIL = 'django_evolution/utils/evolutions.py'
TASK = 'django_evolution/evolve/evolve_app_task.py'
APP = K.Atom('App')


def build():
    w = World('recording')
    w.kinds['Str'] = K.Str
    w.stub('get_app_label', params={'app': APP}, returns=K.Str, pure=True)
    w.stub('get_evolution_sequence', params={'app': APP}, returns=K.Seq(K.Str), pure=True,
           note="the app's SEQUENCE of evolution labels (module discovery trusted)")
    w.stub('applied_labels', params={'app_label': K.Str, 'database': K.Str}, returns=K.Set(K.Str), pure=True,
           note='set(Evolution.objects.using(db).filter(app_label=...).values_list("label", flat=True)): the labels '
                'recorded as applied (ORM query trusted)')
    w.contract(
        'get_unapplied_evolutions', module=EVUTIL, serves=['C08', 'C16'],
        params={'app': APP, 'database': K.Str}, defaults={'database': 'default'}, returns=K.Seq(K.Str),
        abstract={'applied = set(': ['applied = applied_labels(get_app_label(app), database)']},
        ensures=[
            # evolutions already recorded are never offered again ...
            'forall(range(len(result)), lambda j: sel(result, j) not in applied_labels(get_app_label(app), database))',
            # ... everything offered comes from the sequence, in sequence order ...
            'forall((range(len(result)), range(len(result))), lambda j, j2: implies(j < j2, '
            '       exists((range(len(get_evolution_sequence(app))), range(len(get_evolution_sequence(app)))), lambda i, i2: '
            '              i < i2 and sel(get_evolution_sequence(app), i) == sel(result, j) and '
            '              sel(get_evolution_sequence(app), i2) == sel(result, j2))))',
            'forall(range(len(result)), lambda j: exists(range(len(get_evolution_sequence(app))), lambda i: '
            '       sel(get_evolution_sequence(app), i) == sel(result, j)))',
            # ... and nothing unrecorded is left out
            'forall(range(len(get_evolution_sequence(app))), lambda i: implies('
            '       sel(get_evolution_sequence(app), i) not in applied_labels(get_app_label(app), database), '
            '       exists(range(len(result)), lambda j: sel(result, j) == sel(get_evolution_sequence(app), i))))',
            'len(result) <= len(get_evolution_sequence(app))',
        ])
    add_prepare(w)
    fam = Family('contracts.recording', w)
    return fam


# ------------------------------------------------------------------------------------ EvolveAppTask.prepare

MUT = K.Atom('Mutation')
SQL = K.Atom('SQLItem')
MODELCLS = K.Atom('ModelClass')
EVO = K.Rec(label=K.Str, mutations=K.Seq(MUT))
INFO = K.Rec(app_mutator=K.Ref('AppMutator'), sql=K.Seq(SQL), mutations=K.Seq(MUT),
             applied_migrations=K.Atom('MigNames'), upgrade_method=K.Opt(K.Str))


def add_prepare(w):
    w.module_names |= {'MigrationList', 'UpgradeMethod'}
    w.consts['UpgradeMethod.MIGRATIONS'] = 'migrations'
    w.consts['UpgradeMethod.EVOLUTIONS'] = 'evolutions'
    w.consts['supports_migrations'] = True
    w.cls('AppMutator', {'can_simulate': K.Bool})
    w.cls('AppSig', {'upgrade_method': K.Opt(K.Str)})
    w.cls('ProjectSig', {})
    w.cls('DiffObj', {})
    w.cls('EvolutionRow', {})
    w.cls('EvolverP', {'database_name': K.Str, 'project_sig': K.Ref('ProjectSig'),
                       'target_project_sig': K.Ref('ProjectSig'), 'database_state': K.Atom('DatabaseState'),
                       'initial_diff': K.Ref('DiffObj')})
    w.cls('EvolveAppTask', {
        'app': APP, 'app_label': K.Str, 'legacy_app_label': K.Opt(K.Str), 'evolver': K.Ref('EvolverP'),
        'new_models': K.Seq(MODELCLS), 'new_model_names': K.Atom('Names'), 'app_sig_is_new': K.Bool,
        'can_simulate': K.Bool, 'evolution_required': K.Bool, '_evolutions': K.Opt(K.Seq(EVO)),
        'hinted_evolution': K.Opt(K.Ref('EvolutionRow')), '_pending_mutations': K.Opt(K.Seq(MUT)),
        'sql': K.Seq(SQL), '_mutations': K.Opt(K.Seq(MUT)), 'applied_migrations': K.Opt(K.Atom('MigList')),
        '_new_models_sql': K.Seq(SQL), '_new_models_deferred_sql': K.Seq(SQL), 'upgrade_method': K.Opt(K.Str),
        'app_sig': K.Opt(K.Ref('AppSig')), 'new_evolutions': K.Seq(K.Str)}, module=TASK)
    w.ghost_var('gmi_calls', K.Int)             # calls of generate_mutations_info (= SQL generation for evolutions)
    w.ghost_var('gmi_arg', K.Seq(MUT))
    w.ghost_var('pending_labels', K.Seq(K.Str))  # labels handed to get_app_pending_mutations
    w.stub('db_get_installable_models_for_app', params={'app': APP, 'db_state': K.Atom('DatabaseState')},
           returns=K.Seq(MODELCLS), note='models of the app without a table yet')
    w.stub('names_of', params={'models': K.Seq(MODELCLS)}, returns=K.Atom('Names'), pure=True)
    w.stub('ProjectSig.get_app_sig', params={'self': K.Ref('ProjectSig'), 'app_id': K.Opt(K.Str), 'required': K.Bool},
           defaults={'required': False}, returns=K.Opt(K.Ref('AppSig')), pure=True,
           raises={'MissingSignatureError': True}, raises_exact=False,
           ensures=['implies(required, result is not None)'],
           note='verified in contracts.sigsim (C12)')
    w.exc('MissingSignatureError')
    w.stub('AppSig.clone', params={'self': K.Ref('AppSig')}, returns=K.Ref('AppSig'),
           modifies=['AppSig.upgrade_method'],
           ensures=['fresh_ref(result)', 'result.upgrade_method == self.upgrade_method',
                    'forall(Ref_AppSig, lambda a: implies(not fresh_ref(a), a.upgrade_method == old(a.upgrade_method)))'])
    w.kinds['Ref_AppSig'] = K.Ref('AppSig')
    w.stub('ProjectSig.add_app_sig', params={'self': K.Ref('ProjectSig'), 'app_sig': K.Ref('AppSig')})
    w.stub('get_app_upgrade_info', params={'app': APP, 'simulate_applied': K.Bool, 'database': K.Str},
           returns=K.Rec(upgrade_method=K.Opt(K.Str)))
    w.stub('add_new_model_sigs', params={'app_sig': K.Ref('AppSig'), 'target_app_sig': K.Ref('AppSig'),
                                         'new_models': K.Seq(MODELCLS)}, may_raise=['MissingSignatureError'],
           note='the loop cloning the target model signatures of new models into the stored app signature')
    w.stub('DiffObj.evolution', params={'self': K.Ref('DiffObj')}, returns=K.Map(K.Str, K.Seq(MUT)))
    w.stub('Evolution', params={'app_label': K.Str, 'label': K.Str}, returns=K.Ref('EvolutionRow'),
           ensures=['fresh_ref(result)'])
    w.stub('get_app_pending_mutations', params={'app': APP, 'evolution_labels': K.Seq(K.Str), 'database': K.Str},
           returns=K.Seq(MUT), effects=['pending_labels = evolution_labels'],
           note='mutations of exactly the given evolution labels (filtered to changed models)')
    w.stub('EvolveAppTask.generate_mutations_info',
           params={'self': K.Ref('EvolveAppTask'), 'pending_mutations': K.Seq(MUT), 'update_evolver': K.Bool},
           returns=K.Opt(INFO), may_raise=['Exception'],
           effects=['gmi_calls = gmi_calls + 1', 'gmi_arg = pending_mutations'],
           effects_exc=['gmi_calls = gmi_calls + 1'],
           note='verified in contracts.routing (C16): optimises, simulates and generates SQL')
    w.stub('MigrationList.from_names', params={'app_label': K.Str, 'names': K.Atom('MigNames')},
           returns=K.Atom('MigList'))
    w.stub('sql_create_models', params={'models': K.Seq(MODELCLS), 'db_name': K.Str, 'return_deferred': K.Bool},
           returns=K.Tuple(K.Seq(SQL), K.Seq(SQL)), note='CREATE TABLE SQL for new models (not evolution SQL)')
    w.stub('rows_for', params={'app_label': K.Str, 'labels': K.Seq(K.Str)}, returns=K.Seq(K.Str), pure=True,
           ensures=['result == labels'],
           note='[Evolution(app_label=app_label, label=label) for label in evolutions]: one row per label, in order '
                '(modelled by the label list itself)')
    w.contract(
        'EvolveAppTask.prepare', module=TASK, serves=['C08'],
        params={'self': K.Ref('EvolveAppTask'), 'hinted': K.Bool, 'kwargs': None}, kwarg='kwargs',
        defaults={'hinted': False},
        requires=['gmi_calls == 0', 'len(self.sql) == 0'],
        raises={'Exception': True},
        modifies=['*heap', 'gmi_calls', 'gmi_arg', 'pending_labels'],
        locals={'evolutions': K.Seq(K.Str), 'pending_mutations': K.Seq(MUT), 'app_sig': K.Opt(K.Ref('AppSig')),
                'upgrade_method': K.Opt(K.Str), 'orig_upgrade_method': K.Opt(K.Str)},
        abstract={
            'self.new_model_names = [': ['self.new_model_names = names_of(new_models)'],
            'for model in new_models:': ['add_new_model_sigs(app_sig, target_app_sig, new_models)'],
            # one Evolution row per chosen label, in order: modelled by the label list itself
            'self.new_evolutions = [': ['self.new_evolutions = evolutions'],
        },
        invariants={2: LoopInv('for evolution in self._evolutions:', index='ei', clauses=[
            'len(evolutions) == ei', 'gmi_calls == 0', 'len(self.sql) == 0', 'self._evolutions == old(self._evolutions)',
            "forall(range(ei), lambda a: sel(evolutions, a) == sel(some(self._evolutions), a)['label'])",
            'self.app_sig_is_new == False' if False else 'True'])},
        ensures=[
            # an app installed fresh has its whole sequence recorded without any of it being executed
            'implies(self.app_sig_is_new, self.new_evolutions == get_evolution_sequence(old(self.app)) and '
            '        gmi_calls == 0 and len(self.sql) == 0)',
            # evolution SQL is generated at most once per task and only for apps not on migrations
            'gmi_calls <= 1',
            # a normal upgrade of an existing app records exactly the unapplied evolutions it generated SQL for
            'implies(not self.app_sig_is_new and gmi_calls == 1 and old(self._evolutions) is None and not hinted, '
            '        self.new_evolutions == get_unapplied_evolutions(old(self.app), old(self.evolver.database_name)) and '
            '        pending_labels == self.new_evolutions)',
            # custom evolutions: exactly their labels, in order
            'implies(not self.app_sig_is_new and gmi_calls == 1 and old(self._evolutions) is not None, '
            '        len(self.new_evolutions) == len(some(old(self._evolutions))) and '
            "        forall(range(len(self.new_evolutions)), lambda a: sel(self.new_evolutions, a) == sel(some(old(self._evolutions)), a)['label']))",
            # hinted runs record nothing
            'implies(not self.app_sig_is_new and gmi_calls == 1 and old(self._evolutions) is None and hinted, '
            '        len(self.new_evolutions) == 0)',
            # no SQL without a generation step
            'implies(gmi_calls == 0, len(self.sql) == 0 and (self.app_sig_is_new or len(self.new_evolutions) == 0))',
        ])
    w.contracts['get_unapplied_evolutions'].pure = True
