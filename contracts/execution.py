"""C07 / C17 (and the executor clause of C16): SQLExecutor, Evolver.evolve, task execution.

Effects are ghost monitors (DESIGN.md 2.4): trusted stubs for the effectful externals emit events
by updating ghost globals; the obligations are about the monitor state at every exit.
"""
from pyvc import kinds as K
from pyvc.world import World, LoopInv
from pyvc.runner import Family

SQLPY = 'django_evolution/utils/sql.py'
EVOLVER = 'django_evolution/evolve/evolver.py'
TASK = 'django_evolution/evolve/evolve_app_task.py'
PURGE = 'django_evolution/evolve/purge_app_task.py'
EVBASE = 'django_evolution/evolve/base.py'

RUNMOD = ['SQLExecutor._latest_transaction', 'AtomicCM.using', 'tx', 'tx_db', 'exec_n', 'failed', 'failed_stmt', 'exec_log']
EXC = K.Opt(K.Atom('ExcInfo'))
PARAMS = K.Opt(K.Seq(K.Atom('Param')))     # None or a tuple of bound parameters
STMT = K.Tuple(K.Str, PARAMS)
BATCH = K.Tuple(K.Seq(STMT), K.Bool)
SQL = K.Atom('SQLItem')

# transaction monitor states
NOTX, INTX, COMMITTED, ROLLEDBACK, TXERROR = 0, 1, 2, 3, 4
# run lifecycle monitor states
IDLE, EVOLVING, DONE, FAILED, LERROR = 0, 1, 2, 3, 4

# representation invariant tying the executor's field to the transaction monitor
INV = "iff(self._latest_transaction is not None, tx == INTX)"
INV_EX = "iff(sql_executor._latest_transaction is not None, tx == INTX)"


def build():
    w = World('execution')
    for n, v in dict(NOTX=NOTX, INTX=INTX, COMMITTED=COMMITTED, ROLLEDBACK=ROLLEDBACK, TXERROR=TXERROR,
                     IDLE=IDLE, EVOLVING=EVOLVING, DONE=DONE, FAILED=FAILED, LERROR=LERROR).items():
        w.consts[n] = v
    w.module_names |= {'evolving', 'evolved', 'evolving_failed', 'creating_models', 'created_models',
                       'applying_evolution', 'applied_evolution', 'EvolveAppTask'}
    w.exc('TransactionManagementError')
    w.exc('EvolutionException')
    w.exc('EvolutionExecutionError', 'EvolutionException')
    w.exc('DatabaseError')

    w.cls('Features', {'can_rollback_ddl': K.Bool})
    w.cls('Connection', {'in_atomic_block': K.Bool, 'features': K.Ref('Features')})
    w.cls('Cursor', {})
    w.cls('Backend', {})
    w.cls('AtomicCM', {'using': K.Opt(K.Str)})
    w.cls('SQLExecutor', {
        '_check_constraints': K.Bool, '_connection': K.Ref('Connection'), '_database': K.Str,
        '_constraints_disabled': K.Bool, '_cursor': K.Opt(K.Ref('Cursor')),
        '_evolver_backend': K.Opt(K.Ref('Backend')), '_latest_transaction': K.Opt(K.Ref('AtomicCM'))},
        module=SQLPY)

    w.ghost_var('tx', K.Int)                    # transaction monitor
    w.ghost_var('tx_db', K.Opt(K.Str))          # alias the open transaction was started on
    w.ghost_var('exec_n', K.Int)                # number of cursor.execute calls
    w.ghost_var('exec_log', K.Seq(STMT))        # every (statement, params) handed to cursor.execute, in order
    w.ghost_var('failed', K.Bool)               # a cursor.execute raised
    w.ghost_var('failed_stmt', STMT)            # ... on this statement

    # ---- trusted externals ----------------------------------------------------------------------
    w.stub('atomic', params={'using': K.Opt(K.Str)}, defaults={'using': None}, returns=K.Ref('AtomicCM'),
           ensures=['fresh_ref(result)', 'result.using == using'], modifies=['AtomicCM.using'],
           note='compat.db.atomic(using): contextmanager around django.db.transaction.atomic(using); '
                'using=None means the default database')
    w.contracts['atomic'].ensures.append(
        "forall(Ref_AtomicCM, lambda r: implies(not fresh_ref(r), r.using == old(r.using)))")
    w.kinds['Ref_AtomicCM'] = K.Ref('AtomicCM')
    w.stub('AtomicCM.__enter__', params={'self': K.Ref('AtomicCM')},
           effects=['tx = ite(tx == INTX, TXERROR, INTX)', 'tx_db = self.using'],
           note='opens an atomic block on connection self.using')
    w.stub('AtomicCM.__exit__', params={'self': K.Ref('AtomicCM'), 'exc_type': EXC, 'exc_value': EXC,
                                        'traceback': EXC},
           effects=['tx = ite(tx != INTX, TXERROR, ite(exc_type is None, COMMITTED, ROLLEDBACK))'],
           note="Django's documented Atomic semantics through contextlib: commit on (None, None, None), "
                'roll back when exception info is passed; assumed not to raise')
    w.stub('Cursor.execute', params={'self': K.Ref('Cursor'), 'statement': K.Str, 'params': PARAMS},
           may_raise=['DatabaseError'],
           effects=['exec_n = exec_n + 1', 'exec_log = exec_log + [(statement, params)]'],
           effects_exc=['exec_n = exec_n + 1', 'exec_log = exec_log + [(statement, params)]',
                        'failed = True', 'failed_stmt = (statement, params)'],
           note='database cursor; may raise any database error')
    w.stub('Cursor.close', params={'self': K.Ref('Cursor')})
    w.stub('Connection.cursor', params={'self': K.Ref('Connection')}, returns=K.Ref('Cursor'))
    w.stub('Connection.disable_constraint_checking', params={'self': K.Ref('Connection')}, returns=K.Bool)
    w.stub('Connection.enable_constraint_checking', params={'self': K.Ref('Connection')})
    w.stub('EvolutionOperationsMulti', params={'database': K.Str}, returns=K.Ref('OpsMulti'))
    w.cls('OpsMulti', {})
    w.stub('OpsMulti.get_evolver', params={'self': K.Ref('OpsMulti')}, returns=K.Ref('Backend'))

    # ---- SQLExecutor ------------------------------------------------------------------------------
    w.contract(
        'SQLExecutor.finish_transaction', module=SQLPY, serves=['C07'],
        params={'self': K.Ref('SQLExecutor'), 'exc_type': EXC, 'exc_value': EXC, 'traceback': EXC},
        defaults={'exc_type': None, 'exc_value': None, 'traceback': None},
        requires=[INV, 'tx != TXERROR'],
        modifies=['SQLExecutor._latest_transaction', 'tx'],
        ensures=[INV, 'self._latest_transaction is None', 'tx != TXERROR',
                 'implies(old(tx) == INTX and exc_type is None, tx == COMMITTED)',
                 'implies(old(tx) == INTX and exc_type is not None, tx == ROLLEDBACK)',
                 'implies(old(tx) != INTX, tx == old(tx))',
                 "forall(Ref_SQLExecutor, lambda r: implies(r is not self, "
                 "       r._latest_transaction == old(r._latest_transaction)))"])
    w.kinds['Ref_SQLExecutor'] = K.Ref('SQLExecutor')
    w.kinds['Int'] = K.Int
    w.contract(
        'SQLExecutor.new_transaction', module=SQLPY, serves=['C07', 'C16'],
        params={'self': K.Ref('SQLExecutor')},
        requires=[INV, 'tx != TXERROR'],
        modifies=['SQLExecutor._latest_transaction', 'tx', 'tx_db', 'AtomicCM.using'],
        ensures=[INV, 'tx == INTX',
                 # the transaction is opened on the database this executor (and its cursor) belongs to
                 'tx_db == self._database',
                 "forall(Ref_SQLExecutor, lambda r: implies(r is not self, "
                 "       r._latest_transaction == old(r._latest_transaction)))"])
    w.contract(
        'SQLExecutor.ensure_transaction', module=SQLPY, serves=['C07'],
        params={'self': K.Ref('SQLExecutor')},
        requires=[INV, 'tx != TXERROR', 'implies(tx == INTX, tx_db == self._database)'],
        modifies=['SQLExecutor._latest_transaction', 'tx', 'tx_db', 'AtomicCM.using'],
        ensures=[INV, 'tx == INTX', 'tx_db == self._database'])
    w.contract(
        'SQLExecutor.__enter__', module=SQLPY, serves=['C07'],
        params={'self': K.Ref('SQLExecutor')}, returns=K.Ref('SQLExecutor'),
        requires=[INV],
        modifies=['SQLExecutor._constraints_disabled[self]', 'SQLExecutor._cursor[self]',
                  'SQLExecutor._evolver_backend[self]'],
        ensures=[INV, 'result is self', 'self._cursor is not None', 'self._evolver_backend is not None',
                 'tx == old(tx)'])
    w.contract(
        'SQLExecutor.__exit__', module=SQLPY, serves=['C07'],
        params={'self': K.Ref('SQLExecutor'), 'exc_type': EXC, 'exc_value': EXC, 'traceback': EXC},
        vararg='args', kwarg='kwargs',
        requires=[INV, 'tx != TXERROR', 'self._cursor is not None'],
        modifies=['SQLExecutor._latest_transaction', 'SQLExecutor._cursor', 'tx'],
        ensures=[INV, 'self._cursor is None', 'tx != TXERROR',
                 # from the property: a block left by an exception must not commit
                 'implies(old(tx) == INTX and exc_type is not None, tx == ROLLEDBACK)',
                 'implies(old(tx) == INTX and exc_type is None, tx == COMMITTED)',
                 'implies(old(tx) != INTX, tx == old(tx))'],
        observe=['tx'])
    w.contracts['SQLExecutor.__exit__'].params['args'] = None
    w.contracts['SQLExecutor.__exit__'].params['kwargs'] = None

    w.stub('SQLExecutor._prepare_sql', params={'self': K.Ref('SQLExecutor'), 'sql': K.Seq(SQL)},
           returns=K.Seq(K.Atom('Prepared')), may_raise=['Exception'],
           note='generator flattening the SQL list (callables evaluated lazily with the cursor: abstracted '
                'as an opaque producer that may raise)')
    w.stub('SQLExecutor._prepare_transaction_batches',
           params={'self': K.Ref('SQLExecutor'), 'prepared_sql': K.Seq(K.Atom('Prepared'))},
           returns=K.Seq(BATCH),
           note='groups prepared statements into (statements, use_transaction) batches; generator treated as '
                'an eager list (laziness listed as an unmodelled assumption)')
    w.stub('Backend.quote_sql_param', params={'self': K.Ref('Backend'), 'param': K.Atom('Param')},
           returns=K.Atom('Quoted'), pure=True, note='quoting of one SQL parameter for display (C14)')
    w.stub('render_sql', params={'statement': K.Str, 'params': PARAMS}, returns=K.Str, pure=True,
           note="statement % tuple(quote_sql_param(p) for p in params): the preview's rendering (C14)")
    w.contract(
        'SQLExecutor.run_sql', module=SQLPY, serves=['C07', 'C14'],
        params={'self': K.Ref('SQLExecutor'), 'sql': K.Seq(SQL), 'capture': K.Bool, 'execute': K.Bool},
        defaults={'capture': False, 'execute': False},
        returns=K.Seq(K.Str),
        requires=[INV, 'tx != TXERROR', 'self._cursor is not None', 'self._evolver_backend is not None',
                  'not failed', 'implies(tx == INTX, tx_db == self._database)'],
        locals={'out_sql': K.Seq(K.Str), 'statement': K.Opt(K.Str), 'params': PARAMS},
        raises={'Exception': True}, modifies=RUNMOD,
        exc_fields={'last_sql_statement': K.Tuple(K.Opt(K.Str), PARAMS)},

        invariants={
            1: LoopInv('for batch, use_transaction in batches:', index='b0',
                       clauses=[INV, 'tx == old(tx)', 'not failed', 'exec_n == old(exec_n)',
                                'statement is None', 'params is None']),
            2: LoopInv('for i, (batch, use_transaction) in enumerate(batches):', index='bi',
                       clauses=[INV, 'tx != TXERROR', 'not failed',
                                # the preview lists exactly the statements handed to the cursor, in order
                                # one preview line per statement handed to the cursor, in lockstep (plus one marker per later batch)
                                'implies(capture and execute, len(out_sql) == exec_n - old(exec_n) + ite(bi > 0, bi - 1, 0))',
                                'implies(not capture, len(out_sql) == 0)', 'implies(not execute, exec_log == old(exec_log))',
                                'len(exec_log) - len(old(exec_log)) == exec_n - old(exec_n)',
                                'implies(not execute, tx == old(tx) and exec_n == old(exec_n))',
                                'implies(tx == INTX, tx_db == self._database)',
                                'self._cursor is not None', 'self._cursor == old(self._cursor)',
                                'self._database == old(self._database)']),
            3: LoopInv('for statement, params in batch:', index='si',
                       clauses=[INV, 'tx != TXERROR', 'not failed',
                                'implies(capture and execute, len(out_sql) == exec_n - old(exec_n) + bi)',
                                'implies(not capture, len(out_sql) == 0)', 'implies(not execute, exec_log == old(exec_log))',
                                'len(exec_log) - len(old(exec_log)) == exec_n - old(exec_n)',
                                'implies(not execute, tx == old(tx) and exec_n == old(exec_n))',
                                # every statement of a transactional batch runs inside a transaction on this database
                                'implies(execute and use_transaction, tx == INTX and tx_db == self._database)',
                                'implies(tx == INTX, tx_db == self._database)',
                                'self._cursor is not None', 'self._cursor == old(self._cursor)',
                                'self._database == old(self._database)',
                                'implies(si > 0, statement is not None and (some(statement), params) == sel(batch, si - 1))']),
        },
        ensures=[INV, 'tx != TXERROR', 'not failed',
                 'implies(not execute, tx == old(tx) and exec_n == old(exec_n))',
                 'implies(tx == INTX, tx_db == self._database)',
                 # C14: for one and the same SQL list, what the preview shows is what gets executed
                 'implies(capture and execute, exists(Int, lambda m: m >= 0 and len(result) == exec_n - old(exec_n) + m))',
                 'implies(not capture, len(result) == 0)',
                 'implies(not execute, exec_log == old(exec_log))'],
        ensures_exc=[INV, 'tx != TXERROR',
                     'implies(tx == INTX, tx_db == self._database)',
                     # error identification: the augmented exception names the failing statement
                     "has_exc_attr('last_sql_statement')",
                     "implies(failed, exc_attr('last_sql_statement', failed_stmt) == (failed_stmt[0], failed_stmt[1]))"],
        note='capture rendering abstracted to render_sql(); see C14')

    add_run_contracts(w)
    fam = Family('contracts.execution', w)
    from pyvc.runner import Syntactic
    fam.syntactic.append(Syntactic('evolve_lock_receivers', ['C17'], syn_lock_receivers,
                                   "_on_evolving is connected to exactly 'evolving' and _on_evolving_done to exactly "
                                   "'evolved' and 'evolving_failed' (decorator arguments), so the lock is balanced "
                                   'whenever evolving is answered by exactly one of them'))
    from pyvc.runner import Bounded
    from adapters import exec_harness
    fam.bounded.append(Bounded('run_sql_fault_injection', ['C07'], exec_harness.check_run_sql_contract,
                               scope='5 statements x every failure index, real SQLite',
                               stands_in_for='native cross-check of the SQLExecutor contracts (and their fallback when '
                                             'run_sql leaves the engine\'s subset)'))
    fam.replay['SQLExecutor.run_sql'] = lambda label, inputs: _as_replay(exec_harness.check_run_sql_contract())
    fam.replay['bounded:run_sql_fault_injection'] = lambda label, inputs: _as_replay(exec_harness.check_run_sql_contract())
    fam.replay['SQLExecutor.__exit__'] = replay_executor_exit
    fam.replay['MigrationExecutor._on_progress'] = replay_on_progress
    fam.replay['SQLExecutor.new_transaction'] = replay_new_transaction
    return fam


def add_run_contracts(w):
    """Evolver.evolve and the task execute methods: run-lifecycle monitor (C07 clause 4, C17)."""
    ROW = K.Ref('EvolutionRow')
    from .common import seq_member
    w.spec_funcs['hasrow'] = seq_member
    w.cls('EvolutionRow', {'version': K.Opt(K.Ref('Version'))})
    w.cls('Version', {})
    w.cls('DatabaseState', {})
    w.cls('TaskClass', {})
    w.cls('BaseEvolutionTask', {'new_evolutions': K.Seq(ROW), 'sql': K.Seq(SQL), 'evolution_required': K.Bool,
                                'evolver': K.Ref('Evolver')}, module=EVBASE)
    w.cls('EvolveAppTask', {'app_label': K.Str, 'new_model_names': K.Atom('Names'), '_new_models_sql': K.Seq(SQL),
                            '_new_models_deferred_sql': K.Seq(SQL)}, bases=['BaseEvolutionTask'], module=TASK)
    w.cls('Evolver', {'evolved': K.Bool, '_tasks_by_class': K.Map(K.Ref('TaskClass'), K.Seq(K.Ref('BaseEvolutionTask'))),
                      'database_state': K.Ref('DatabaseState'), 'database_name': K.Str,
                      'version': K.Opt(K.Ref('Version')), 'project_sig': K.Atom('ProjectSig'),
                      '_tasks_prepared': K.Bool}, module=EVOLVER)
    w.ghost_var('life', K.Int)                 # run lifecycle monitor
    w.ghost_var('saved', K.Int)                # number of Version.save calls that succeeded
    w.ghost_var('recorded', K.Seq(ROW))        # Evolution rows written by bulk_create
    w.ghost_var('exec_failed', K.Bool)         # some execute_tasks raised
    w.ghost_var('exec_after_save', K.Bool)     # tasks executed after the signature was saved
    # signal stubs: receivers are assumed not to raise (outside the property's fault model)
    w.stub('sig.evolving', params={'sender': K.Ref('Evolver')},
           effects=['life = ite(life == IDLE, EVOLVING, LERROR)'],
           note='signals.evolving.send: receivers assumed not to raise')
    w.stub('sig.evolved', params={'sender': K.Ref('Evolver')},
           effects=['life = ite(life == EVOLVING and saved > 0, DONE, LERROR)'],
           note='signals.evolved.send')
    w.stub('sig.evolving_failed', params={'sender': K.Ref('Evolver'), 'exception': None},
           effects=['life = ite(life == EVOLVING, FAILED, LERROR)'], note='signals.evolving_failed.send')
    w.externals.update({'evolving.send': 'sig.evolving', 'evolved.send': 'sig.evolved',
                        'evolving_failed.send': 'sig.evolving_failed'})
    w.stub('TaskClass.execute_tasks', params={'self': K.Ref('TaskClass'), 'evolver': K.Ref('Evolver'),
                                              'tasks': K.Seq(K.Ref('BaseEvolutionTask'))},
           may_raise=['Exception'],
           effects=['life = ite(life == EVOLVING, life, LERROR)', 'exec_after_save = exec_after_save or saved > 0'],
           effects_exc=['life = ite(life == EVOLVING, life, LERROR)', 'exec_failed = True',
                        'exec_after_save = exec_after_save or saved > 0'],
           note='class-level execution of a task list (EvolveAppTask/PurgeAppTask.execute_tasks): runs SQL, may raise')
    w.stub('TaskClass.prepare_tasks', params={'self': K.Ref('TaskClass'), 'evolver': K.Ref('Evolver'),
                                              'tasks': K.Seq(K.Ref('BaseEvolutionTask')), 'hinted': K.Bool},
           may_raise=['Exception'], note='prepare chain: generates SQL, executes none (C12 effect obligation)')
    w.stub('DatabaseState.rescan_tables', params={'self': K.Ref('DatabaseState')}, may_raise=['Exception'],
           note='introspection queries only')
    w.stub('Evolver._prepare_tasks', params={'self': K.Ref('Evolver')}, may_raise=['Exception'],
           modifies=['Evolver._tasks_prepared'], ensures=['self._tasks_by_class == old(self._tasks_by_class)'] if False else [],
           note='prepares queued tasks; executes no SQL')
    w.stub('Version.__init__', params={'self': K.Ref('Version'), 'signature': K.Atom('ProjectSig')})
    w.stub('Version.save', params={'self': K.Ref('Version'), 'using': K.Str}, may_raise=['Exception'],
           effects=['saved = saved + 1'], note='ORM save of the project version row')
    w.stub('bulk_create_evolutions', params={'using': K.Str, 'rows': K.Seq(ROW)}, may_raise=['Exception'],
           effects=['recorded = recorded + rows'],
           note='Evolution.objects.using(db).bulk_create(rows); assumed atomic (nothing written when it raises)')
    w.contract(
        'Evolver._save_project_sig', module=EVOLVER, serves=['C07', 'C17', 'C08', 'C15'],
        params={'self': K.Ref('Evolver'), 'new_evolutions': K.Seq(ROW)},
        raises={'EvolutionExecutionError': True},
        modifies=['Evolver.version', 'EvolutionRow.version', 'saved', 'recorded'],
        abstract={'Evolution.objects.using(self.database_name).bulk_create(':
                  ['bulk_create_evolutions(self.database_name, new_evolutions)']},
        invariants={1: LoopInv('for evolution in new_evolutions:', index='i',
                               clauses=['saved == old(saved) + 1', 'recorded == old(recorded)',
                                        'self.version is not None', 'version is some(self.version)',
                                        'forall(range(i), lambda a: sel(new_evolutions, a).version is version)'])},
        ensures=['saved == old(saved) + 1',
                 # every row is recorded once, attached to the version saved by this run
                 'len(recorded) == len(old(recorded)) + len(new_evolutions)',
                 'forall(range(len(new_evolutions)), lambda a: sel(recorded, len(old(recorded)) + a) is sel(new_evolutions, a))',
                 'forall(range(len(new_evolutions)), lambda a: sel(new_evolutions, a).version is self.version)',
                 'self.version is not None'],
        ensures_exc=['recorded == old(recorded)', 'saved <= old(saved) + 1'])
    w.contract(
        'Evolver.evolve', module=EVOLVER, serves=['C07', 'C17', 'C08', 'C15'],
        params={'self': K.Ref('Evolver')},
        requires=['life == IDLE', 'saved == 0', 'len(recorded) == 0', 'not exec_failed', 'not exec_after_save'],
        locals={'new_evolutions': K.Seq(ROW)},
        raises={'EvolutionException': True, 'Exception': True},
        modifies=['Evolver._tasks_prepared', 'Evolver.evolved[self]', 'Evolver.version', 'EvolutionRow.version',
                  'life', 'saved', 'recorded', 'exec_failed', 'exec_after_save'],
        invariants={
            1: LoopInv('for task_cls, tasks in six.iteritems(self._tasks_by_class):', index='ci',
                       clauses=['life == EVOLVING', 'saved == 0', 'len(recorded) == 0', 'not exec_failed',
                                'not exec_after_save', 'not self.evolved',
                                'self._tasks_by_class == old(self._tasks_by_class)' if False else 'True'],
                       # what earlier task classes contributed stays in the list that will be recorded
                       ghost_pre=['prev = new_evolutions'],
                       ghost_post=['assert len(new_evolutions) >= len(prev)',
                                   'assert forall(range(len(prev)), lambda q: sel(new_evolutions, q) is sel(prev, q))']),
            2: LoopInv('for task in tasks:', index='ti',
                       clauses=['life == EVOLVING', 'saved == 0', 'len(recorded) == 0', 'not exec_failed',
                                'not exec_after_save', 'not self.evolved',
                                'len(new_evolutions) >= len(prev)',
                                'forall(range(len(prev)), lambda q: sel(new_evolutions, q) is sel(prev, q))',
                                # every row of every task visited so far has been collected
                                'forall(range(ti), lambda t: forall(range(len(sel(ti_seq, t).new_evolutions)), lambda r: '
                                '       hasrow(new_evolutions, sel(sel(ti_seq, t).new_evolutions, r))))'],
                       ghost_pre=['ne0 = new_evolutions'],
                       ghost_post=[  # proof hints for the += of this iteration
                           'assert len(new_evolutions) == len(ne0) + len(task.new_evolutions)',
                           'assert forall(range(len(ne0)), lambda q: sel(new_evolutions, q) is sel(ne0, q))',
                           'assert forall(range(len(task.new_evolutions)), lambda r: '
                           '       sel(new_evolutions, len(ne0) + r) is sel(task.new_evolutions, r))']),
        },
        ensures=[
            # normal return <=> evolved emitted last, after exactly one save
            'life == DONE', 'self.evolved', 'saved == 1', 'not exec_after_save'],
        ensures_exc=[
            # evolving at most once; every evolving answered by exactly one evolving_failed on failure
            'life == IDLE or life == FAILED',
            'implies(not old(self.evolved), not self.evolved)',
            # a failing task means nothing was saved or recorded
            'implies(exec_failed, saved == 0 and len(recorded) == 0)',
            'implies(life == IDLE, saved == 0 and len(recorded) == 0)'])

    # ---- task execution: error annotation + paired signals -----------------------------------------
    w.ghost_var('sig_log', K.Seq(K.Tuple(K.Int, K.Ref('BaseEvolutionTask'))))   # (signal code, task) in emission order
    for n, v in dict(S_CREATING=1, S_CREATED=2, S_APPLYING=3, S_APPLIED=4).items():
        w.consts[n] = v
    w.ghost_var('applying_payload', K.Seq(ROW))
    w.ghost_var('run_sql_arg', K.Seq(SQL))
    w.ghost_var('run_sql_calls', K.Int)
    w.stub('sig.creating_models', params={'sender': K.Ref('Evolver'), 'app_label': K.Str,
                                          'model_names': K.Atom('Names')},
           effects=['creating_n = creating_n + 1', 'creating_log = creating_log + [(app_label, model_names)]'])
    w.stub('sig.created_models', params={'sender': K.Ref('Evolver'), 'app_label': K.Str,
                                         'model_names': K.Atom('Names')},
           effects=['created_n = created_n + 1', 'created_log = created_log + [(app_label, model_names)]'])
    w.stub('sig.applying_evolution', params={'sender': K.Ref('Evolver'), 'task': K.Ref('BaseEvolutionTask'),
                                             'evolutions': K.Seq(ROW)},
           effects=['applying_n = applying_n + 1', 'applying_payload = evolutions'])
    w.stub('sig.applied_evolution', params={'sender': K.Ref('Evolver'), 'task': K.Ref('BaseEvolutionTask'),
                                            'evolutions': K.Seq(ROW)},
           effects=['applied_n = applied_n + 1', 'applied_ok = applied_ok and evolutions == applying_payload'])
    for g in ('creating_n', 'created_n', 'applying_n', 'applied_n'):
        w.ghost_var(g, K.Int)
    w.ghost_var('applied_ok', K.Bool)
    w.ghost_var('creating_log', K.Seq(K.Tuple(K.Str, K.Atom('Names'))))
    w.ghost_var('created_log', K.Seq(K.Tuple(K.Str, K.Atom('Names'))))
    w.externals.update({'creating_models.send': 'sig.creating_models', 'created_models.send': 'sig.created_models',
                        'applying_evolution.send': 'sig.applying_evolution',
                        'applied_evolution.send': 'sig.applied_evolution'})
    add_task_contracts(w, ROW)
    add_signal_glue(w)


def add_signal_glue(w):
    """C17: migration progress -> signals, and the process-global evolve lock."""
    MIG = 'django_evolution/utils/migrations.py'
    MGMT = 'django_evolution/management/__init__.py'
    w.module_names |= {'applying_migration', 'applied_migration'}
    w.cls('MigrationExecutor', {'_signal_sender': K.Atom('Sender')}, module=MIG)
    w.ghost_var('mig_applying', K.Seq(K.Opt(K.Atom('Migration'))))
    w.ghost_var('mig_applied', K.Seq(K.Opt(K.Atom('Migration'))))
    w.stub('sig.applying_migration', params={'sender': K.Atom('Sender'), 'migration': K.Opt(K.Atom('Migration'))},
           effects=['mig_applying = mig_applying + [migration]'])
    w.stub('sig.applied_migration', params={'sender': K.Atom('Sender'), 'migration': K.Opt(K.Atom('Migration'))},
           effects=['mig_applied = mig_applied + [migration]'])
    w.externals.update({'applying_migration.send': 'sig.applying_migration',
                        'applied_migration.send': 'sig.applied_migration'})
    w.contract(
        'MigrationExecutor._on_progress', module=MIG, serves=['C17'],
        params={'self': K.Ref('MigrationExecutor'), 'action': K.Str, 'migration': K.Opt(K.Atom('Migration')),
                'args': None, 'kwargs': None}, vararg='args', kwarg='kwargs',
        defaults={'migration': None}, modifies=['mig_applying', 'mig_applied'],
        ensures=[
            # Django reports apply_start / apply_success around each migration: each becomes exactly one signal
            "implies(action == 'apply_start', len(mig_applying) == len(old(mig_applying)) + 1 and "
            "        sel(mig_applying, len(old(mig_applying))) == migration and mig_applied == old(mig_applied))",
            "implies(action == 'apply_success', len(mig_applied) == len(old(mig_applied)) + 1 and "
            "        sel(mig_applied, len(old(mig_applied))) == migration and mig_applying == old(mig_applying))",
            "implies(action != 'apply_start' and action != 'apply_success', "
            "        mig_applied == old(mig_applied) and mig_applying == old(mig_applying))"])
    w.ghost_var('_evolve_lock', K.Int)
    w.contract('_on_evolving', module=MGMT, serves=['C17'], params={'kwargs': None}, kwarg='kwargs',
               modifies=['_evolve_lock'], ensures=['_evolve_lock == old(_evolve_lock) + 1'])
    w.contract('_on_evolving_done', module=MGMT, serves=['C17'], params={'kwargs': None}, kwarg='kwargs',
               modifies=['_evolve_lock'], ensures=['_evolve_lock == old(_evolve_lock) - 1'])


def add_task_contracts(w, ROW):
    SIGMOD = ['creating_n', 'created_n', 'applying_n', 'applied_n', 'applied_ok', 'creating_log', 'created_log', 'applying_payload']
    RUNPRE = ["sql_executor is not None",
              "iff(some(sql_executor)._latest_transaction is not None, tx == INTX)", "tx != TXERROR",
              "some(sql_executor)._cursor is not None", "some(sql_executor)._evolver_backend is not None",
              "not failed", "implies(tx == INTX, tx_db == some(sql_executor)._database)"]
    RUNPOST = ["iff(some(sql_executor)._latest_transaction is not None, tx == INTX)", "tx != TXERROR",
               "implies(tx == INTX, tx_db == some(sql_executor)._database)", "not failed"]
    ERRPOST = ["raised('EvolutionExecutionError') or raised('AssertionError')",
               # the reported error identifies the failing statement
               "implies(raised('EvolutionExecutionError'), has_exc_attr('last_sql_statement'))",
               "implies(raised('EvolutionExecutionError') and failed, "
               "        exc_attr('last_sql_statement', failed_stmt) == (failed_stmt[0], failed_stmt[1]))"]
    w.contract(
        'EvolveAppTask._apply_deferred_sql', module=TASK, serves=['C07'],
        params={'cls': None, 'sql_executor': K.Opt(K.Ref('SQLExecutor')), 'evolver': K.Ref('Evolver'),
                'sql': K.Seq(SQL)},
        returns=K.Seq(K.Str), requires=RUNPRE[1:], modifies=RUNMOD,
        raises={'EvolutionExecutionError': True, 'AssertionError': True},
        ensures=RUNPOST, ensures_exc=ERRPOST)
    w.contract(
        'EvolveAppTask._create_models', module=TASK, serves=['C07', 'C17'],
        params={'cls': None, 'sql_executor': K.Opt(K.Ref('SQLExecutor')), 'evolver': K.Ref('Evolver'),
                'tasks': K.Seq(K.Ref('EvolveAppTask')), 'sql': K.Seq(SQL)},
        returns=K.Seq(K.Str), requires=RUNPRE[1:],
        modifies=RUNMOD + ['creating_n', 'created_n', 'creating_log', 'created_log'],
        raises={'EvolutionExecutionError': True, 'AssertionError': True},
        invariants={
            1: LoopInv('for task in tasks:', index='i', clauses=[
                'creating_n == old(creating_n) + i', 'created_n == old(created_n)',
                'len(creating_log) == len(old(creating_log)) + i',
                'forall(range(len(old(creating_log))), lambda a: sel(creating_log, a) == sel(old(creating_log), a))',
                'forall(range(i), lambda a: sel(creating_log, len(old(creating_log)) + a) == '
                '       (sel(tasks, a).app_label, sel(tasks, a).new_model_names))',
                'not failed', 'tx == old(tx)']),
            2: LoopInv('for task in tasks:', index='j', clauses=[
                'creating_n == old(creating_n) + len(tasks)', 'created_n == old(created_n) + j',
                'len(created_log) == len(old(created_log)) + j',
                'forall(range(j), lambda a: sel(created_log, len(old(created_log)) + a) == '
                '       (sel(tasks, a).app_label, sel(tasks, a).new_model_names))',
                'not failed']),
        },
        ensures=[
            # every creating_models is answered by created_models carrying the same app/model names
            'creating_n == old(creating_n) + len(tasks)', 'created_n == old(created_n) + len(tasks)',
            'forall(range(len(tasks)), lambda a: sel(creating_log, len(old(creating_log)) + a) == '
            '       (sel(tasks, a).app_label, sel(tasks, a).new_model_names))',
            'forall(range(len(tasks)), lambda a: sel(created_log, len(old(created_log)) + a) == '
            '       (sel(tasks, a).app_label, sel(tasks, a).new_model_names))'] + RUNPOST,
        ensures_exc=ERRPOST + ['created_n == old(created_n)'])
    w.contract(
        'EvolveAppTask.execute', module=TASK, serves=['C07', 'C17'],
        params={'self': K.Ref('EvolveAppTask'), 'cursor': K.Opt(K.Atom('LegacyCursor')),
                'sql_executor': K.Opt(K.Ref('SQLExecutor')), 'sql': K.Opt(K.Seq(SQL)),
                'evolutions': K.Opt(K.Seq(ROW)), 'create_models_now': K.Bool},
        defaults={'cursor': None, 'sql_executor': None, 'sql': None, 'evolutions': None,
                  'create_models_now': False},
        requires=RUNPRE[1:] + ['applied_ok'], modifies=RUNMOD + SIGMOD,
        raises={'EvolutionExecutionError': True, 'AssertionError': True},
        ensures=[
            'applying_n - old(applying_n) == applied_n - old(applied_n)', 'applying_n <= old(applying_n) + 1',
            'applied_ok',
            # the signal carries the evolutions the caller named for this SQL (or the task's own list)
            'implies(applying_n > old(applying_n) and evolutions is not None, applying_payload == some(evolutions))',
            'implies(applying_n > old(applying_n) and evolutions is None, applying_payload == old(self.new_evolutions))']
        + RUNPOST,
        ensures_exc=ERRPOST + ['applied_n == old(applied_n)', 'applying_n <= old(applying_n) + 1'])
    w.cls('PurgeAppTask', {'app_label': K.Str}, bases=['BaseEvolutionTask'], module=PURGE)
    w.contract(
        'PurgeAppTask.execute', module=PURGE, serves=['C07'],
        params={'self': K.Ref('PurgeAppTask'), 'cursor': K.Opt(K.Atom('LegacyCursor')),
                'sql_executor': K.Opt(K.Ref('SQLExecutor'))},
        defaults={'cursor': None, 'sql_executor': None}, kwarg='kwargs',
        requires=RUNPRE[1:], modifies=RUNMOD,
        raises={'EvolutionExecutionError': True, 'AssertionError': True},
        ensures=RUNPOST, ensures_exc=ERRPOST)
    w.contracts['PurgeAppTask.execute'].params['kwargs'] = None


# ------------------------------------------------------------------------------ replay adapters

def _scratch_db():
    """Use the test settings' default sqlite database (file lives in the scratch cwd)."""
    from django.db import connections
    return connections


def replay_on_progress(label, inputs):
    """Call the real progress callback with the action (and any further positional arguments Django passes: the
    `fake` flag) of the counter-model and count the signals it sends."""
    import inspect
    from django.db import connection
    from django_evolution.signals import applying_migration, applied_migration
    from django_evolution.utils.migrations import MigrationExecutor
    action = inputs.get('action')
    if action not in ('apply_start', 'apply_success'):
        return {'reproduced': False, 'note': 'counter-model action %r is not a Django progress action' % (action,)}
    extra = {k: v for k, v in inputs.items() if k not in ('self', 'action', 'migration', 'args', 'kwargs')}
    seen = {'applying': 0, 'applied': 0}

    def on_applying(**kw):
        seen['applying'] += 1

    def on_applied(**kw):
        seen['applied'] += 1
    applying_migration.connect(on_applying)
    applied_migration.connect(on_applied)
    try:
        ex = MigrationExecutor(connection)
        names = [n for n in inspect.signature(ex._on_progress).parameters if n in extra]
        # Django calls progress_callback(action, migration, fake): further declared parameters are passed positionally
        ex._on_progress(action, object(), *[extra[n] for n in names])
    finally:
        applying_migration.disconnect(on_applying)
        applied_migration.disconnect(on_applied)
    want = {'applying': 1 if action == 'apply_start' else 0, 'applied': 1 if action == 'apply_success' else 0}
    return {'reproduced': seen != want, 'signals_sent': seen, 'signals_expected': want,
            'inputs': dict(action=action, **extra)}


def replay_executor_exit(label, inputs):
    """Run the real SQLExecutor: open a transaction, create a table, leave the block with/without exception."""
    from django.db import connection
    from django_evolution.utils.sql import SQLExecutor
    exc_given = inputs.get('exc_type') is not None
    tname = 'zz_verif_exit_%d' % (1 if exc_given else 0)
    with connection.cursor() as c:
        c.execute('DROP TABLE IF EXISTS %s' % tname)
    raised = None
    try:
        with SQLExecutor('default') as ex:
            ex.run_sql(['CREATE TABLE %s (a integer);' % tname], execute=True)
            if exc_given:
                raise RuntimeError('injected')
    except RuntimeError as e:
        raised = repr(e)
    persists = tname in connection.introspection.table_names()
    with connection.cursor() as c:
        c.execute('DROP TABLE IF EXISTS %s' % tname)
    want_persist = not exc_given
    return {'reproduced': persists != want_persist, 'table_persists': persists,
            'expected_persists': want_persist, 'raised': raised}


def replay_new_transaction(label, inputs):
    """Which connection is in an atomic block after new_transaction() on a non-default executor?"""
    from django.db import connections
    from django_evolution.utils.sql import SQLExecutor
    ex = SQLExecutor('db_multi')
    ex.__enter__()
    try:
        ex.new_transaction()
        in_multi = connections['db_multi'].in_atomic_block
        in_default = connections['default'].in_atomic_block
    finally:
        ex.__exit__(None, None, None)
    return {'reproduced': not in_multi, 'db_multi_in_atomic_block': in_multi,
            'default_in_atomic_block': in_default}


def syn_lock_receivers():
    from pyvc import extract
    a = extract.find('django_evolution/management/__init__.py', '_on_evolving').decorators
    b = extract.find('django_evolution/management/__init__.py', '_on_evolving_done').decorators
    ok = a == ['receiver(evolving)'] and b in (['receiver([evolved, evolving_failed])'],
                                                ['receiver([evolving_failed, evolved])'])
    return ok, 'decorators: %r / %r' % (a, b)


def _as_replay(res):
    return {'reproduced': bool(res['failures']), 'failures': res['failures'][:3], 'evaluations': res['evaluations']}
