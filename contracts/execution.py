"""C07 / C17 (and the executor clause of C16): SQLExecutor, Evolver.evolve, task execution.

Effects are ghost monitors (DESIGN.md 2.4): trusted stubs for the effectful externals emit events
by updating ghost globals; the obligations are about the monitor state at every exit.
"""
from pyvc import kinds as K
from pyvc.world import World, LoopInv
from pyvc.runner import Family

SQLPY = 'django_evolution/utils/sql.py'
EVOLVER = 'django_evolution/evolve/evolver.py'
TASK = 'django_evolution/evolve/evolve_app_task.py'
PURGE = 'django_evolution/evolve/purge_app_task.py'
EVBASE = 'django_evolution/evolve/base.py'

EXC = K.Opt(K.Atom('ExcInfo'))
PARAMS = K.Opt(K.Atom('Params'))
STMT = K.Tuple(K.Str, PARAMS)
BATCH = K.Tuple(K.Seq(STMT), K.Bool)
SQL = K.Atom('SQLItem')

# transaction monitor states
NOTX, INTX, COMMITTED, ROLLEDBACK, TXERROR = 0, 1, 2, 3, 4
# run lifecycle monitor states
IDLE, EVOLVING, DONE, FAILED, LERROR = 0, 1, 2, 3, 4

# representation invariant tying the executor's field to the transaction monitor
INV = "iff(self._latest_transaction is not None, tx == INTX)"
INV_EX = "iff(sql_executor._latest_transaction is not None, tx == INTX)"


def build():
    w = World('execution')
    for n, v in dict(NOTX=NOTX, INTX=INTX, COMMITTED=COMMITTED, ROLLEDBACK=ROLLEDBACK, TXERROR=TXERROR,
                     IDLE=IDLE, EVOLVING=EVOLVING, DONE=DONE, FAILED=FAILED, LERROR=LERROR).items():
        w.consts[n] = v
    w.module_names |= {'evolving', 'evolved', 'evolving_failed', 'creating_models', 'created_models',
                       'applying_evolution', 'applied_evolution', 'EvolveAppTask'}
    w.exc('TransactionManagementError')
    w.exc('EvolutionException')
    w.exc('EvolutionExecutionError', 'EvolutionException')
    w.exc('DatabaseError')

    w.cls('Features', {'can_rollback_ddl': K.Bool})
    w.cls('Connection', {'in_atomic_block': K.Bool, 'features': K.Ref('Features')})
    w.cls('Cursor', {})
    w.cls('Backend', {})
    w.cls('AtomicCM', {'using': K.Opt(K.Str)})
    w.cls('SQLExecutor', {
        '_check_constraints': K.Bool, '_connection': K.Ref('Connection'), '_database': K.Str,
        '_constraints_disabled': K.Bool, '_cursor': K.Opt(K.Ref('Cursor')),
        '_evolver_backend': K.Opt(K.Ref('Backend')), '_latest_transaction': K.Opt(K.Ref('AtomicCM'))},
        module=SQLPY)

    w.ghost_var('tx', K.Int)                    # transaction monitor
    w.ghost_var('tx_db', K.Opt(K.Str))          # alias the open transaction was started on
    w.ghost_var('exec_n', K.Int)                # number of cursor.execute calls
    w.ghost_var('failed', K.Bool)               # a cursor.execute raised
    w.ghost_var('failed_stmt', STMT)            # ... on this statement

    # ---- trusted externals ----------------------------------------------------------------------
    w.stub('atomic', params={'using': K.Opt(K.Str)}, defaults={'using': None}, returns=K.Ref('AtomicCM'),
           ensures=['fresh_ref(result)', 'result.using == using'], modifies=['AtomicCM.using'],
           note='compat.db.atomic(using): contextmanager around django.db.transaction.atomic(using); '
                'using=None means the default database')
    w.contracts['atomic'].ensures.append(
        "forall(Ref_AtomicCM, lambda r: implies(not fresh_ref(r), r.using == old(r.using)))")
    w.kinds['Ref_AtomicCM'] = K.Ref('AtomicCM')
    w.stub('AtomicCM.__enter__', params={'self': K.Ref('AtomicCM')},
           effects=['tx = ite(tx == INTX, TXERROR, INTX)', 'tx_db = self.using'],
           note='opens an atomic block on connection self.using')
    w.stub('AtomicCM.__exit__', params={'self': K.Ref('AtomicCM'), 'exc_type': EXC, 'exc_value': EXC,
                                        'traceback': EXC},
           effects=['tx = ite(tx != INTX, TXERROR, ite(exc_type is None, COMMITTED, ROLLEDBACK))'],
           note="Django's documented Atomic semantics through contextlib: commit on (None, None, None), "
                'roll back when exception info is passed; assumed not to raise')
    w.stub('Cursor.execute', params={'self': K.Ref('Cursor'), 'statement': K.Str, 'params': PARAMS},
           may_raise=['DatabaseError'],
           effects=['exec_n = exec_n + 1'],
           effects_exc=['exec_n = exec_n + 1',
                        'failed = True', 'failed_stmt = (statement, params)'],
           note='database cursor; may raise any database error')
    w.stub('Cursor.close', params={'self': K.Ref('Cursor')})
    w.stub('Connection.cursor', params={'self': K.Ref('Connection')}, returns=K.Ref('Cursor'))
    w.stub('Connection.disable_constraint_checking', params={'self': K.Ref('Connection')}, returns=K.Bool)
    w.stub('Connection.enable_constraint_checking', params={'self': K.Ref('Connection')})
    w.stub('EvolutionOperationsMulti', params={'database': K.Str}, returns=K.Ref('OpsMulti'))
    w.cls('OpsMulti', {})
    w.stub('OpsMulti.get_evolver', params={'self': K.Ref('OpsMulti')}, returns=K.Ref('Backend'))

    # ---- SQLExecutor ------------------------------------------------------------------------------
    w.contract(
        'SQLExecutor.finish_transaction', module=SQLPY, serves=['C07'],
        params={'self': K.Ref('SQLExecutor'), 'exc_type': EXC, 'exc_value': EXC, 'traceback': EXC},
        defaults={'exc_type': None, 'exc_value': None, 'traceback': None},
        requires=[INV, 'tx != TXERROR'],
        modifies=['SQLExecutor._latest_transaction', 'tx'],
        ensures=[INV, 'self._latest_transaction is None', 'tx != TXERROR',
                 'implies(old(tx) == INTX and exc_type is None, tx == COMMITTED)',
                 'implies(old(tx) == INTX and exc_type is not None, tx == ROLLEDBACK)',
                 'implies(old(tx) != INTX, tx == old(tx))',
                 "forall(Ref_SQLExecutor, lambda r: implies(r is not self, "
                 "       r._latest_transaction == old(r._latest_transaction)))"])
    w.kinds['Ref_SQLExecutor'] = K.Ref('SQLExecutor')
    w.contract(
        'SQLExecutor.new_transaction', module=SQLPY, serves=['C07', 'C16'],
        params={'self': K.Ref('SQLExecutor')},
        requires=[INV, 'tx != TXERROR'],
        modifies=['SQLExecutor._latest_transaction', 'tx', 'tx_db', 'AtomicCM.using'],
        ensures=[INV, 'tx == INTX',
                 # the transaction is opened on the database this executor (and its cursor) belongs to
                 'tx_db == self._database',
                 "forall(Ref_SQLExecutor, lambda r: implies(r is not self, "
                 "       r._latest_transaction == old(r._latest_transaction)))"])
    w.contract(
        'SQLExecutor.ensure_transaction', module=SQLPY, serves=['C07'],
        params={'self': K.Ref('SQLExecutor')},
        requires=[INV, 'tx != TXERROR', 'implies(tx == INTX, tx_db == self._database)'],
        ensures=[INV, 'tx == INTX', 'tx_db == self._database'])
    w.contract(
        'SQLExecutor.__enter__', module=SQLPY, serves=['C07'],
        params={'self': K.Ref('SQLExecutor')}, returns=K.Ref('SQLExecutor'),
        requires=[INV], modifies=[],
        ensures=[INV, 'result is self', 'self._cursor is not None', 'self._evolver_backend is not None',
                 'tx == old(tx)'])
    w.contract(
        'SQLExecutor.__exit__', module=SQLPY, serves=['C07'],
        params={'self': K.Ref('SQLExecutor'), 'exc_type': EXC, 'exc_value': EXC, 'traceback': EXC},
        vararg='args', kwarg='kwargs',
        requires=[INV, 'tx != TXERROR', 'self._cursor is not None'],
        modifies=['SQLExecutor._latest_transaction', 'SQLExecutor._cursor', 'tx'],
        ensures=[INV, 'self._cursor is None', 'tx != TXERROR',
                 # from the property: a block left by an exception must not commit
                 'implies(old(tx) == INTX and exc_type is not None, tx == ROLLEDBACK)',
                 'implies(old(tx) == INTX and exc_type is None, tx == COMMITTED)',
                 'implies(old(tx) != INTX, tx == old(tx))'],
        observe=['tx'])
    w.contracts['SQLExecutor.__exit__'].params['args'] = None
    w.contracts['SQLExecutor.__exit__'].params['kwargs'] = None

    w.stub('SQLExecutor._prepare_sql', params={'self': K.Ref('SQLExecutor'), 'sql': K.Seq(SQL)},
           returns=K.Seq(K.Atom('Prepared')), may_raise=['Exception'],
           note='generator flattening the SQL list (callables evaluated lazily with the cursor: abstracted '
                'as an opaque producer that may raise)')
    w.stub('SQLExecutor._prepare_transaction_batches',
           params={'self': K.Ref('SQLExecutor'), 'prepared_sql': K.Seq(K.Atom('Prepared'))},
           returns=K.Seq(BATCH),
           note='groups prepared statements into (statements, use_transaction) batches; generator treated as '
                'an eager list (laziness listed as an unmodelled assumption)')
    w.stub('render_sql', params={'statement': K.Str, 'params': PARAMS}, returns=K.Str, pure=True,
           note="statement % tuple(quote_sql_param(p) for p in params): the preview's rendering (C14)")
    w.contract(
        'SQLExecutor.run_sql', module=SQLPY, serves=['C07'],
        params={'self': K.Ref('SQLExecutor'), 'sql': K.Seq(SQL), 'capture': K.Bool, 'execute': K.Bool},
        defaults={'capture': False, 'execute': False},
        returns=K.Seq(K.Str),
        requires=[INV, 'tx != TXERROR', 'self._cursor is not None', 'self._evolver_backend is not None',
                  'not failed', 'implies(tx == INTX, tx_db == self._database)'],
        locals={'out_sql': K.Seq(K.Str), 'statement': K.Opt(K.Str), 'params': PARAMS},
        raises={'Exception': True},
        exc_fields={'last_sql_statement': K.Tuple(K.Opt(K.Str), PARAMS)},
        abstract={"if capture:\n                        if params:":
                  ["if capture:\n    out_sql = out_sql + [render_sql(statement, params)]"],
                  "qp = self._evolver_backend.quote_sql_param": ["qp = None"]},
        invariants={
            1: LoopInv('for batch, use_transaction in batches:', index='b0',
                       clauses=[INV, 'tx == old(tx)', 'not failed', 'exec_n == old(exec_n)',
                                'statement is None', 'params is None']),
            2: LoopInv('for i, (batch, use_transaction) in enumerate(batches):', index='bi',
                       clauses=[INV, 'tx != TXERROR', 'not failed',
                                'implies(not execute, tx == old(tx) and exec_n == old(exec_n))',
                                'implies(tx == INTX, tx_db == self._database)',
                                'self._cursor is not None', 'self._cursor == old(self._cursor)',
                                'self._database == old(self._database)']),
            3: LoopInv('for statement, params in batch:', index='si',
                       clauses=[INV, 'tx != TXERROR', 'not failed',
                                'implies(not execute, tx == old(tx) and exec_n == old(exec_n))',
                                # every statement of a transactional batch runs inside a transaction on this database
                                'implies(execute and use_transaction, tx == INTX and tx_db == self._database)',
                                'implies(tx == INTX, tx_db == self._database)',
                                'self._cursor is not None', 'self._cursor == old(self._cursor)',
                                'self._database == old(self._database)',
                                'implies(si > 0, statement is not None and (some(statement), params) == sel(batch, si - 1))']),
        },
        ensures=[INV, 'tx != TXERROR', 'not failed',
                 'implies(not execute, tx == old(tx) and exec_n == old(exec_n))',
                 'implies(tx == INTX, tx_db == self._database)'],
        ensures_exc=[INV, 'tx != TXERROR',
                     'implies(tx == INTX, tx_db == self._database)',
                     # error identification: the augmented exception names the failing statement
                     "has_exc_attr('last_sql_statement')",
                     "implies(failed, exc_attr('last_sql_statement') == (failed_stmt[0], failed_stmt[1]))"],
        note='capture rendering abstracted to render_sql(); see C14')

    fam = Family('contracts.execution', w)
    fam.replay['SQLExecutor.__exit__'] = replay_executor_exit
    fam.replay['SQLExecutor.new_transaction'] = replay_new_transaction
    return fam


# ------------------------------------------------------------------------------ replay adapters

def _scratch_db():
    """Use the test settings' default sqlite database (file lives in the scratch cwd)."""
    from django.db import connections
    return connections


def replay_executor_exit(label, inputs):
    """Run the real SQLExecutor: open a transaction, create a table, leave the block with/without exception."""
    from django.db import connection
    from django_evolution.utils.sql import SQLExecutor
    exc_given = inputs.get('exc_type') is not None
    tname = 'zz_verif_exit_%d' % (1 if exc_given else 0)
    with connection.cursor() as c:
        c.execute('DROP TABLE IF EXISTS %s' % tname)
    raised = None
    try:
        with SQLExecutor('default') as ex:
            ex.run_sql(['CREATE TABLE %s (a integer);' % tname], execute=True)
            if exc_given:
                raise RuntimeError('injected')
    except RuntimeError as e:
        raised = repr(e)
    persists = tname in connection.introspection.table_names()
    with connection.cursor() as c:
        c.execute('DROP TABLE IF EXISTS %s' % tname)
    want_persist = not exc_given
    return {'reproduced': persists != want_persist, 'table_persists': persists,
            'expected_persists': want_persist, 'raised': raised}


def replay_new_transaction(label, inputs):
    """Which connection is in an atomic block after new_transaction() on a non-default executor?"""
    from django.db import connections
    from django_evolution.utils.sql import SQLExecutor
    ex = SQLExecutor('db_multi')
    ex.__enter__()
    try:
        ex.new_transaction()
        in_multi = connections['db_multi'].in_atomic_block
        in_default = connections['default'].in_atomic_block
    finally:
        ex.__exit__(None, None, None)
    return {'reproduced': not in_multi, 'db_multi_in_atomic_block': in_multi,
            'default_in_atomic_block': in_default}
