"""C03: the reverse (last-to-first) pass of AppMutator._process_mutation_batch.

The optimiser as a whole is not equivalence-preserving (see the C03 entries in known_findings.json), so no contract can
state "same outcome" for it.  What this family proves of the real reverse pass, for every batch, are the necessary
conditions the pass is built on:

* a mutation is dropped only if it concerns a field (model) that is deleted later in the batch, or it is a ChangeField
  that was folded into an earlier mutation;
* a ChangeField is folded at most once, and only into a mutation that addresses the very same field - names are traced
  backwards through the RenameFields / RenameModels / AddFields in between by ghost state, not compared as text.

Ghost state (all function-local):
  track[c]      the name, at the current position, of the field ChangeField c changes (None: not yet created there)
  doomed[k]     the field called k at the current position is deleted later in the batch
  doomedm[n]    the model called n at the current position is deleted later in the batch
  folded        ChangeFields already folded into an earlier mutation
  legit         mutations whose removal is justified by one of the two reasons above
  seen          the mutations already visited
The forward pass (second loop) is cut off: it renames through aliased nested dicts the value-semantic engine cannot
follow; the bounded native suite covers it.
"""
from pyvc import kinds as K
from pyvc.kinds import V
from pyvc.world import World, LoopInv
from pyvc.runner import Family

APPMUT = 'django_evolution/mutators/app_mutator.py'
MUT = K.Ref('BaseModelMutation')
ID = K.Packed(K.Str, K.Str)
INFO = K.Rec(can_process=K.Bool, mutations=K.Seq(MUT))
VAL = K.Atom('MetaVal')
FT = K.Atom('FieldType')
ATTRS = K.Map(K.Str, K.Opt(VAL))

GHOST_INIT = [
    'track = fun(Ref_Mut, lambda c: no_id())',
    'doomed = fun(Id, lambda k: False)',
    'doomedm = fun(Str, lambda n: False)',
    'folded = mutset()', 'legit = mutset()', 'seen = mutset()', 'ok = True',
    # the Meta value that wins per model: the one of the LAST ChangeMeta in the batch (first one visited here)
    'ut_seen = fun(Str, lambda n: False)', 'ut_val = fun(Str, lambda n: no_val())',
    'ix_seen = fun(Str, lambda n: False)', 'ix_val = fun(Str, lambda n: no_val())',
]

# backward step of the ghost state over the mutation just visited (runs at the end of each iteration; `doomed` /
# `doomedm` still describe the position AFTER the mutation when `legit` is updated)
GHOST_STEP = ['''
seen.add(mutation)
if isinstance(mutation, AddField):
    if doomed[fid(mutation)]:
        legit.add(mutation)
    track = fun(Ref_Mut, lambda c: ite(track[c] == fid(mutation), None, track[c]))
    doomed[fid(mutation)] = False
elif isinstance(mutation, ChangeField):
    if doomed[fid(mutation)]:
        legit.add(mutation)
    track[mutation] = fid(mutation)
elif isinstance(mutation, DeleteField):
    if fid(mutation) in last_change_mutations:
        ok = False          # a later ChangeField names the field right after its deletion: invalid one at a time
    doomed[fid(mutation)] = True
elif isinstance(mutation, RenameField):
    if (mutation.model_name, mutation.old_field_name) in last_change_mutations or \
            doomed[(mutation.model_name, mutation.old_field_name)]:
        ok = False          # a later mutation names the field by the name it was just renamed away from
    if doomed[(mutation.model_name, mutation.new_field_name)]:
        legit.add(mutation)
        doomed[(mutation.model_name, mutation.new_field_name)] = False
        doomed[(mutation.model_name, mutation.old_field_name)] = True
    track = fun(Ref_Mut, lambda c: ite(track[c] == (mutation.model_name, mutation.new_field_name),
                                       (mutation.model_name, mutation.old_field_name), track[c]))
elif isinstance(mutation, DeleteModel):
    doomedm[mutation.model_name] = True
elif isinstance(mutation, ChangeMeta):
    if mutation.prop_name == 'unique_together' and not ut_seen[mutation.model_name]:
        ut_seen[mutation.model_name] = True
        ut_val[mutation.model_name] = mutation.new_value
    elif mutation.prop_name == 'indexes' and not ix_seen[mutation.model_name]:
        ix_seen[mutation.model_name] = True
        ix_val[mutation.model_name] = mutation.new_value
elif isinstance(mutation, RenameModel):
    if doomedm[mutation.new_model_name]:
        legit.add(mutation)
        doomedm[mutation.new_model_name] = False
        doomedm[mutation.old_model_name] = True
    track = fun(Ref_Mut, lambda c: ite(track[c] is not None and some(track[c])[0] == mutation.new_model_name,
                                       (mutation.old_model_name, some(track[c])[1]), track[c]))
    doomed = fun(Id, lambda k: ite(k[0] == mutation.old_model_name, doomed[(mutation.new_model_name, k[1])],
                                   ite(k[0] == mutation.new_model_name, False, doomed[k])))
''']

FOLD = [
    # the ChangeField being folded changes exactly the field this mutation addresses, and has not been folded before
    'assert implies(ok, track[last_change_mutation] == fid(mutation))',
    'assert implies(ok, last_change_mutation not in folded)',
    'folded.add(last_change_mutation)', 'legit.add(last_change_mutation)',
]

INV = [
    # bookkeeping of the visited suffix
    'forall(range(len(mutations)), lambda a: (sel(mutations, a) in seen) == (a > len(mutations) - 1 - i))',
    'forall(Ref_Mut, lambda c: implies(c in removed_mutations, c in seen))',
    'forall(Ref_Mut, lambda c: implies(c in folded, c in removed_mutations))',
    # every tracked "latest ChangeField" is a visited, not yet folded or dropped ChangeField ...
    'forall(last_change_mutations, lambda k: last_change_mutations[k] in seen and '
    "       dtype_is(last_change_mutations[k], 'ChangeField'))",
    # ... filed under the name its field has at this position
    'implies(ok, forall(last_change_mutations, lambda k: track[last_change_mutations[k]] == k))',
    # deleted_fields / deleted_models are exactly the names doomed at this position
    'forall(Id, lambda k: (k in deleted_fields) == doomed[k])',
    'forall(Str, lambda n: (n in deleted_models) == doomedm[n])',
    # the rename records are complete
    "forall(renames, lambda k: 'mutations' in renames[k] and 'can_process' in renames[k])",
    "forall(model_renames, lambda n: 'mutations' in model_renames[n] and 'can_process' in model_renames[n])",
    # only justified removals
    'forall(Ref_Mut, lambda c: implies(c in removed_mutations, c in legit))',
    # no tracked ChangeField addresses a field that is deleted later on, none was dropped or folded already
    'implies(ok, forall(last_change_mutations, lambda k: k not in deleted_fields))',
    'implies(ok, forall(last_change_mutations, lambda k: last_change_mutations[k] not in removed_mutations))',
    # per model, the recorded unique_together / indexes value is the one of the last ChangeMeta of the batch, whatever
    # that value is (an empty list included)
    'forall(Str, lambda n: (n in unique_together) == ut_seen[n] and implies(ut_seen[n], unique_together[n] == ut_val[n]))',
    'forall(Str, lambda n: (n in model_meta_indexes) == ix_seen[n] and implies(ix_seen[n], model_meta_indexes[n] == ix_val[n]))',
]


def build():
    w = World('optfold')
    w.kinds.update({'Ref_Mut': MUT, 'Id': ID, 'Str': K.Str})
    w.cls('BaseModelMutation', {'model_name': K.Str})
    for name, fields in [
            ('AddField', {'field_name': K.Str, 'field_attrs': ATTRS, 'field_type': K.Opt(FT), 'initial': K.Opt(VAL)}),
            ('ChangeField', {'field_name': K.Str, 'field_attrs': ATTRS, 'field_type': K.Opt(FT), 'initial': K.Opt(VAL)}),
            ('DeleteField', {'field_name': K.Str}),
            ('RenameField', {'old_field_name': K.Str, 'new_field_name': K.Str}),
            ('DeleteModel', {}), ('RenameModel', {'old_model_name': K.Str, 'new_model_name': K.Str}),
            ('ChangeMeta', {'prop_name': K.Str, 'new_value': VAL}),
            ]:
        w.cls(name, fields, bases=['BaseModelMutation'])
    # not a BaseModelMutation: never part of a processable batch (its branch in the pass is unreachable)
    w.cls('RenameAppLabel', {'old_app_label': K.Str, 'new_app_label': K.Str})
    w.cls('AppMutator', {'app_label': K.Str}, module=APPMUT)
    w.define('fid', ['m'], '(m.model_name, m.field_name)')
    w.spec_funcs['no_id'] = lambda it: K.opt_none(ID)
    w.spec_funcs['mutset'] = lambda it: K.empty_set(MUT)
    w.spec_funcs['no_val'] = lambda it: V(VAL, VAL.default_terms())
    w.kinds['Ref_Add'] = K.Ref('AddField')
    w.kinds['Ref_Change'] = K.Ref('ChangeField')
    # folding a later ChangeField into the earlier mutation: the later statement wins attribute by attribute, a type or
    # initial value it does not state is kept, nothing else changes
    POPULATES = {
        'AddField': 'old(dest_mutation.initial) is not None',
        'ChangeField': "old(dest_mutation.initial) is not None and old('null' in dest_mutation.field_attrs) and "
                       "not truthy(old(dest_mutation.field_attrs['null']))"}
    for dest_cls in ('AddField', 'ChangeField'):
        other = 'ChangeField' if dest_cls == 'AddField' else 'AddField'
        w.contract(
            'AppMutator._copy_change_attrs', module=APPMUT, serves=['C03', 'C01', 'C02'],
            params={'self': K.Ref('AppMutator'), 'source_mutation': K.Ref('ChangeField'), 'dest_mutation': K.Ref(dest_cls)},
            requires=['source_mutation is not dest_mutation'] if dest_cls == 'ChangeField' else [],
            raises={},
            modifies=['%s.field_attrs[dest_mutation]' % dest_cls, '%s.field_type[dest_mutation]' % dest_cls,
                      '%s.initial[dest_mutation]' % dest_cls],
            ensures=[
                'forall(Str, lambda k: (k in dest_mutation.field_attrs) == '
                '       (k in old(dest_mutation.field_attrs) or k in old(source_mutation.field_attrs)))',
                'forall(Str, lambda k: implies(k in old(source_mutation.field_attrs), '
                '       dest_mutation.field_attrs[k] == old(source_mutation.field_attrs[k])))',
                'forall(Str, lambda k: implies(k in old(dest_mutation.field_attrs) and k not in old(source_mutation.field_attrs), '
                '       dest_mutation.field_attrs[k] == old(dest_mutation.field_attrs[k])))',
                'dest_mutation.field_type == (old(source_mutation.field_type) if old(source_mutation.field_type) is not None '
                '                             else old(dest_mutation.field_type))',
                # the initial value of the mutation that populates the column (an AddField, or a ChangeField making it
                # non-null) stays in effect; otherwise the later statement's value is taken over
                'dest_mutation.initial == (old(dest_mutation.initial) if %s else '
                '    (old(source_mutation.initial) if old(source_mutation.initial) is not None else old(dest_mutation.initial)))'
                % POPULATES[dest_cls],
            ],
            note='verified once per destination class (AddField, ChangeField)')
        c = w.contracts.pop('AppMutator._copy_change_attrs')
        c.name = 'AppMutator._copy_change_attrs#' + dest_cls
        w.contracts['AppMutator._copy_change_attrs#' + dest_cls] = c
    w.stub('AppMutator._copy_change_attrs',
           params={'self': K.Ref('AppMutator'), 'source_mutation': MUT, 'dest_mutation': MUT},
           note='call-site view inside the reverse pass: only WHICH pairs are folded matters there; what a fold copies is '
                'verified by the two _copy_change_attrs contracts')
    w.contract(
        'AppMutator._get_mutation_id', module=APPMUT, serves=['C03', 'C12', 'C02'],
        params={'self': K.Ref('AppMutator'), 'mutation': MUT, 'field_name': K.Opt(K.Str)},
        defaults={'field_name': None}, returns=ID, pure=True, reads=(),
        requires=["(field_name is not None and some(field_name) != '') or dtype_is(mutation, 'AddField') or dtype_is(mutation, 'ChangeField') or "
                  "dtype_is(mutation, 'DeleteField')"],
        abstract={'assert hasattr(': ['_ok = 0'], 'assert field_name or hasattr(': ['_ok = 0']},
        ensures=["result == (mutation.model_name, "
                 "           some(field_name) if field_name is not None and some(field_name) != '' else mutation.field_name)"],
        note='the two hasattr() assertions are dropped (the classes are declared with those attributes)')
    w.contract(
        'AppMutator._rename_dict_key', module=APPMUT, inline=True, inout=['d'],
        params={'self': K.Ref('AppMutator'), 'd': None, 'old_key': None, 'new_key': None},
        note='analysed inline at each call site (it is used on four differently typed dicts)')
    w.contract(
        'AppMutator._process_mutation_batch', module=APPMUT, serves=['C03', 'C01', 'C12', 'C02'],
        params={'self': K.Ref('AppMutator'), 'mutation_batch': K.Tuple(K.Bool, K.Seq(MUT))},
        returns=None,
        requires=[
            'mutation_batch[0]',
            # the batch lists distinct mutation objects
            'forall((range(len(mutation_batch[1])), range(len(mutation_batch[1]))), lambda a, b: implies(a != b, '
            '       sel(mutation_batch[1], a) is not sel(mutation_batch[1], b)))',
            # field names are non-empty strings (`field_name or mutation.field_name` in _get_mutation_id)
            "forall(range(len(mutation_batch[1])), lambda a: implies(dtype_is(sel(mutation_batch[1], a), 'RenameField'), "
            "       sel(mutation_batch[1], a).old_field_name != '' and sel(mutation_batch[1], a).new_field_name != ''))",
            # a rename changes the name (a rename to the same name makes _rename_dict_key delete the entry it just moved)
            "forall(range(len(mutation_batch[1])), lambda a: implies(dtype_is(sel(mutation_batch[1], a), 'RenameField'), "
            "       sel(mutation_batch[1], a).old_field_name != sel(mutation_batch[1], a).new_field_name))",
            "forall(range(len(mutation_batch[1])), lambda a: implies(dtype_is(sel(mutation_batch[1], a), 'RenameModel'), "
            "       sel(mutation_batch[1], a).old_model_name != sel(mutation_batch[1], a).new_model_name))",
        ],
        raises={}, modifies=[],
        cut_before='if (noop_fields or renames or model_renames',
        locals={'removed_mutations': K.Set(MUT), 'deleted_fields': K.Set(ID), 'deleted_models': K.Set(K.Str),
                'noop_fields': K.Set(ID), 'model_names': K.Set(K.Str), 'unique_together': K.Map(K.Str, VAL),
                'model_meta_indexes': K.Map(K.Str, VAL), 'last_change_mutations': K.Map(ID, MUT),
                'renames': K.Map(ID, INFO), 'model_renames': K.Map(K.Str, INFO),
                'app_label_renames': K.Map(K.Str, INFO), 'mutations': K.Seq(MUT)},
        ghost_in_body={'removed_mutations = set()': GHOST_INIT, 'if remove_mutation:': GHOST_STEP},
        ghost_before={'self._copy_change_attrs(last_change_mutation,': FOLD},
        invariants={1: LoopInv('for mutation in reversed(mutations):', index='i', clauses=INV)},
        ensures=[
            'forall(Ref_Mut, lambda c: implies(c in removed_mutations, c in legit))',
            'forall(Ref_Mut, lambda c: implies(c in folded, c in removed_mutations))',
        ],
        note='prefix up to the forward pass; postconditions are stated over the locals at the cut')
    fam = Family('contracts.optfold', w)
    fam.replay['AppMutator._process_mutation_batch'] = replay_batch
    fam.replay['AppMutator._copy_change_attrs#AddField'] = lambda label, inputs: replay_copy('AddField', label, inputs)
    fam.replay['AppMutator._copy_change_attrs#ChangeField'] = lambda label, inputs: replay_copy('ChangeField', label, inputs)
    return fam


def replay_copy(dest_cls, label, inputs):
    """Native check of the fold postconditions on concrete mutations shaped like the counter-model: which of
    field_type / initial each side states, and which attribute names they share."""
    from django.db import models
    from django_evolution import mutations as M
    from django_evolution.mutators import AppMutator

    def stated(side, f):
        v = (inputs.get(side) or {}).get(f)
        return v is not None and v != 'None'
    shapes = [(stated('source_mutation', 'field_type'), stated('dest_mutation', 'field_type'),
               stated('source_mutation', 'initial'), stated('dest_mutation', 'initial'))]
    shapes += [(a, b, c, d) for a in (True, False) for b in (True, False) for c in (True, False) for d in (True, False)]
    for s_type, d_type, s_init, d_init in shapes:
        src = M.ChangeField('T', 'f', initial=('s-init' if s_init else None),
                            field_type=(models.TextField if s_type else None), max_length=30, null=True)
        if dest_cls == 'AddField':
            dst = M.AddField('T', 'f', models.CharField if d_type else None, initial=('d-init' if d_init else None),
                             max_length=10, db_index=True)
        else:
            dst = M.ChangeField('T', 'f', initial=('d-init' if d_init else None),
                                field_type=(models.CharField if d_type else None), max_length=10, null=False)
        want_attrs = dict(dst.field_attrs)
        want_attrs.update(src.field_attrs)
        want_type = src.field_type if src.field_type is not None else dst.field_type
        populates = dst.initial is not None and (dest_cls == 'AddField' or dst.field_attrs.get('null') is False)
        want_init = dst.initial if populates else (src.initial if src.initial is not None else dst.initial)
        AppMutator._copy_change_attrs(None, src, dst)
        got = (dict(dst.field_attrs), dst.field_type, dst.initial)
        want = (want_attrs, want_type, want_init)
        part = {'post[3]': slice(1, 2), 'post[4]': slice(2, 3)}.get(label, slice(0, 1) if label.startswith('post[') else slice(0, 3))
        if got[part] != want[part]:
            return {'reproduced': True, 'got': repr(got), 'want': repr((want_attrs, want_type, want_init)),
                    'inputs': {'source states type/initial': [s_type, s_init], 'dest states type/initial': [d_type, d_init]}}
    return {'reproduced': False, 'note': 'all shapes satisfy the postconditions'}


def replay_batch(label, inputs):
    """Run the real _process_mutation_batch on a listed batch; `must_survive` names a mutation that has to come out
    unfolded and undropped (it addresses a field nothing later in the batch deletes or changes)."""
    muts = inputs.get('muts')
    if not muts:
        return {'reproduced': False, 'note': 'no concrete batch to run'}
    from django_evolution import mutations as M
    from django_evolution.mutators import AppMutator
    from django_evolution.signature import ProjectSignature, AppSignature

    class Bare(AppMutator):
        def __init__(self):
            self.app_label = 'tests'
            self.project_sig = ProjectSignature()
            self.project_sig.add_app_sig(AppSignature('tests'))

    def mk(d):
        kind = d[0]
        if kind == 'ChangeField':
            return M.ChangeField(d[1], d[2], initial=None, **d[3])
        if kind == 'DeleteField':
            return M.DeleteField(d[1], d[2])
        if kind == 'RenameModel':
            return M.RenameModel(d[1], d[2], db_table=d[3])
        if kind == 'RenameField':
            return M.RenameField(d[1], d[2], d[3])
        raise ValueError(kind)
    objs = [mk(d) for d in muts]
    before = [str(o) for o in objs]
    out = Bare()._process_mutation_batch((True, list(objs)))
    keep = objs[inputs['must_survive']]
    survived = any(o is keep for o in out)
    later_changed = [str(o) for o in out]
    return {'reproduced': not survived or
            any(str(o) != b and not isinstance(o, (M.RenameModel, M.RenameField)) for o, b in zip(objs, before)),
            'before': before, 'after': later_changed, 'inputs': inputs}
