"""Bounded native suites (adapters/suites_*.py) wired in as labelled bounded stand-ins."""
from pyvc.world import World
from pyvc.runner import Family, Bounded


def _suite(modname, prop):
    def run(tier='quick', seed=0):
        import importlib
        mod = importlib.import_module(modname)
        return getattr(mod, 'suite_' + prop)(tier=tier, seed=seed)
    return run


def _replay(modname, prop):
    def run(label, inputs):
        import importlib
        mod = importlib.import_module(modname)
        return getattr(mod, 'replay_' + prop)(inputs)
    return run


SUITES = {
    'C01': ('adapters.suites_db', 'start models x mutation catalogue (add/delete/rename/change/Meta/rename-model/delete) run on real SQLite: '
                                  'evolved schema (columns, indexes, constraints, FKs) == schema of freshly created target models'),
    'C02': ('adapters.suites_db', 'orderings of 1-3 initial-carrying mutations x 0/1/6 rows incl. NULLs, boundary values: surviving cells unchanged, '
                                  'added columns hold the declared initial, null->not-null fills exactly the NULLs'),
    'C03': ('adapters.suites_db', 'mutation sequences (exhaustive to length 3 over a small alphabet + samples): one-at-a-time vs one optimised run vs the '
                                  'same objects a second time vs the real Evolver pipeline: same signature, schema, rows'),
    'C18': ('adapters.suites_db', 'same sequence space: table rebuilds batched <= one-at-a-time; runs of mergeable ops rebuild once'),
    'C11': ('adapters.suites_refs', 'two-app projects with cross-app/self relations x rename/delete mutations through AppMutator on real SQLite: '
                                    'every relation in the signature resolves, database foreign keys point at the renamed tables/columns, fk check passes'),
    'C14': ('adapters.suites_refs', 'evolve --sql preview vs the execute trace; output identical across PYTHONHASHSEED values (subprocesses)'),
    'C15': ('adapters.suites_refs', 'purge / DeleteApplication / DeleteModel over 2-4 app projects with prefix-named tables: exactly the named tables and signature entries go'),
    'C16': ('adapters.suites_refs', 'models split between two SQLite databases by a router x evolutions touching both sides, each database evolved in turn'),
    'C05': ('adapters.suites_sig', 'signature pairs over the field/Meta variant catalog: hinted evolution resolves the diff; '
                                   'eq iff diff empty; self/clone diff empty'),
    'C06': ('adapters.suites_sig', 'signatures through serialize/deserialize, SignatureField JSON, Version.save()/reload on SQLite, v2->v1->v2'),
    'C13': ('adapters.suites_sig', 'hinted evolution text exec()d and compared (signature effect and generated SQL) with the hinted mutations'),
}


def build():
    w = World('native')
    fam = Family('contracts.native', w)
    for prop, (modname, scope) in SUITES.items():
        import os
        if not os.path.exists(os.path.join(os.path.dirname(os.path.dirname(os.path.abspath(__file__))),
                                           *modname.split('.')) + '.py'):
            continue            # suite module not delivered (a broken module must fail loudly instead)
        fam.bounded.append(Bounded('native_suite_%s' % prop, [prop], _suite(modname, prop), scope=scope,
                                   stands_in_for='clauses of %s that no contract within the engine\'s reach decides '
                                                 '(database/codec/Python-text semantics); same clauses, run natively' % prop))
        fam.replay['bounded:native_suite_%s' % prop] = _replay(modname, prop)
    return fam
