"""C09: DependencyGraph / EvolutionGraph in utils/graph.py."""
from pyvc import kinds as K
from pyvc.world import World, LoopInv
from pyvc.runner import Family, Lemma, Bounded

GRAPH = 'django_evolution/utils/graph.py'
NODE = K.Ref('Node')
DEP = K.Tuple(K.Str, K.Str)

# graph representation invariant (after finalize): dependencies/required_by are mutually consistent,
# closed over the graph's nodes, insert_index is injective on nodes
WF = [
    "forall(Ref_Node, lambda n: implies(is_node(self, n), "
    "       forall(n.dependencies, lambda d: is_node(self, d) and n in d.required_by)))",
    "forall(Ref_Node, lambda n: implies(is_node(self, n), "
    "       forall(n.required_by, lambda m: is_node(self, m) and n in m.dependencies)))",
    "forall((Ref_Node, Ref_Node), lambda a, b: implies(is_node(self, a) and is_node(self, b) and a is not b, "
    "       a.insert_index != b.insert_index))",
]


def build():
    w = World('graph')
    w.kinds['Ref_Node'] = NODE
    w.kinds['Str'] = K.Str
    w.kinds['Int'] = K.Int
    w.exc('NodeNotFoundError')
    w.cls('Node', {'key': K.Str, 'insert_index': K.Int, 'dependencies': K.Set(NODE),
                   'required_by': K.Set(NODE), 'state': K.Atom('State')}, module=GRAPH)
    w.cls('DependencyGraph', {'_finalized': K.Bool, '_nodes': K.Map(K.Str, NODE),
                              '_pending_deps': K.Set(DEP)}, module=GRAPH)
    w.define('is_node', ['g', 'n'], "exists(g._nodes, lambda k: g._nodes[k] is n)")

    w.contract(
        'Node.__init__', module=GRAPH, serves=['C09'],
        params={'self': NODE, 'key': K.Str, 'insert_index': K.Int, 'state': K.Atom('State')},
        modifies=['Node.key[self]', 'Node.insert_index[self]', 'Node.dependencies[self]',
                  'Node.required_by[self]', 'Node.state[self]'],
        ensures=['self.key == key', 'self.insert_index == insert_index', 'len(self.dependencies) == 0',
                 'len(self.required_by) == 0', 'forall(Ref_Node, lambda d: d not in self.dependencies)',
                 'forall(Ref_Node, lambda d: d not in self.required_by)'])

    w.contract(
        'DependencyGraph.add_node', module=GRAPH, serves=['C09'],
        params={'self': K.Ref('DependencyGraph'), 'key': K.Str, 'state': K.Atom('State')},
        returns=NODE,
        requires=[
            # insertion indexes of existing nodes are below the node count (so the next one is new)
            "forall(self._nodes, lambda k: 0 <= self._nodes[k].insert_index and "
            "       self._nodes[k].insert_index < len(self._nodes))"],
        raises={'AssertionError': 'self._finalized or key in self._nodes'},
        modifies=['DependencyGraph._nodes[self]', 'Node.key', 'Node.insert_index', 'Node.dependencies',
                  'Node.required_by', 'Node.state'],
        ensures=[
            'not old(self._finalized)', 'not old(key in self._nodes)',
            'fresh_ref(result)', 'key in self._nodes', 'self._nodes[key] is result',
            'result.insert_index == old(len(self._nodes))', 'result.key == key',
            'len(self._nodes) == old(len(self._nodes)) + 1',
            'forall(Str, lambda k: implies(k != key, (k in self._nodes) == old(k in self._nodes) and '
            '       implies(k in self._nodes, self._nodes[k] is old(self._nodes[k]))))',
            # tie-break indexes stay injective and below the count
            "forall(self._nodes, lambda k: 0 <= self._nodes[k].insert_index and "
            "       self._nodes[k].insert_index < len(self._nodes))",
            "forall(self._nodes, lambda k: implies(k != key, self._nodes[k].insert_index != result.insert_index))",
            # existing nodes untouched
            "forall(Ref_Node, lambda n: implies(not fresh_ref(n), n.insert_index == old(n.insert_index) and "
            "       n.dependencies == old(n.dependencies) and n.required_by == old(n.required_by) and n.key == old(n.key)))",
        ])

    w.contract(
        'DependencyGraph.add_dependency', module=GRAPH, serves=['C09'],
        params={'self': K.Ref('DependencyGraph'), 'node_key': K.Str, 'dep_node_key': K.Str},
        raises={'AssertionError': 'self._finalized'},
        modifies=['DependencyGraph._pending_deps[self]'],
        ensures=['(node_key, dep_node_key) in self._pending_deps',
                 'forall((Str, Str), lambda a, b: implies(not (a == node_key and b == dep_node_key), '
                 '       ((a, b) in self._pending_deps) == old((a, b) in self._pending_deps)))'])

    w.contract(
        'DependencyGraph.remove_dependencies', module=GRAPH, serves=['C09'],
        params={'self': K.Ref('DependencyGraph'), 'node_keys': K.Set(K.Str)},
        raises={'AssertionError': 'self._finalized'},
        modifies=['DependencyGraph._pending_deps[self]'],
        ensures=[
            # requirements on already-applied units are ignored: exactly the pairs touching a removed key go
            'forall((Str, Str), lambda a, b: ((a, b) in self._pending_deps) == '
            '       (old((a, b) in self._pending_deps) and a not in node_keys and b not in node_keys))'])

    w.contract(
        'DependencyGraph.finalize', module=GRAPH, serves=['C09'],
        params={'self': K.Ref('DependencyGraph')},
        raises={
            # requirements that cannot be met (unknown endpoint) are reported, not dropped
            'AssertionError': "self._finalized or exists((Str, Str), lambda a, b: (a, b) in self._pending_deps and "
                              "(a not in self._nodes or b not in self._nodes))"},
        modifies=['DependencyGraph._pending_deps[self]', 'DependencyGraph._finalized[self]',
                  'Node.dependencies', 'Node.required_by'],
        invariants={1: LoopInv(
            'for node_key, dep_node_key in self._pending_deps:', index='i',
            clauses=[
                'self._nodes == old(self._nodes)', 'self._pending_deps == old(self._pending_deps)',
                'not self._finalized',
                # pairs visited so far are applied in both directions
                "forall(range(i), lambda j: sel(order, j)[0] in self._nodes and sel(order, j)[1] in self._nodes and "
                "       self._nodes[sel(order, j)[1]] in self._nodes[sel(order, j)[0]].dependencies and "
                "       self._nodes[sel(order, j)[0]] in self._nodes[sel(order, j)[1]].required_by)",
                # nothing else was added, nothing removed
                "forall((Ref_Node, Ref_Node), lambda n, d: (d in n.dependencies) == (old(d in n.dependencies) or "
                "       exists(range(i), lambda j: self._nodes[sel(order, j)[0]] is n and self._nodes[sel(order, j)[1]] is d)))",
                "forall((Ref_Node, Ref_Node), lambda n, d: (d in n.required_by) == (old(d in n.required_by) or "
                "       exists(range(i), lambda j: self._nodes[sel(order, j)[1]] is n and self._nodes[sel(order, j)[0]] is d)))",
            ])},
        ghost_in_body={'assert not self._finalized': []},
        ensures=[
            'self._finalized', 'self._nodes == old(self._nodes)',
            # every pending requirement became an edge, in both directions
            "forall((Str, Str), lambda a, b: implies(old((a, b) in self._pending_deps), "
            "       self._nodes[b] in self._nodes[a].dependencies and self._nodes[a] in self._nodes[b].required_by))",
            # and only those
            "forall((Ref_Node, Ref_Node), lambda n, d: (d in n.dependencies) == (old(d in n.dependencies) or "
            "       exists((Str, Str), lambda a, b: old((a, b) in self._pending_deps) and "
            "              self._nodes[a] is n and self._nodes[b] is d)))",
        ])

    w.contract(
        'DependencyGraph.get_node', module=GRAPH, serves=['C09'],
        params={'self': K.Ref('DependencyGraph'), 'key': K.Str}, returns=NODE,
        raises={'NodeNotFoundError': 'key not in self._nodes'},
        ensures=['key in self._nodes', 'result is self._nodes[key]'])

    w.contract(
        'DependencyGraph.get_leaf_nodes', module=GRAPH, serves=['C09'],
        params={'self': K.Ref('DependencyGraph')}, returns=K.Seq(NODE),
        raises={'AssertionError': 'not self._finalized'},
        ensures=[
            'forall(range(len(result)), lambda i: is_node(self, sel(result, i)) and len(sel(result, i).required_by) == 0)',
            'forall(Ref_Node, lambda n: implies(is_node(self, n) and len(n.required_by) == 0, '
            '       exists(range(len(result)), lambda i: sel(result, i) is n)))',
            # deterministic tie-break: ascending insertion order
            'forall((range(len(result)), range(len(result))), lambda i, j: implies(i < j, '
            '       sel(result, i).insert_index <= sel(result, j).insert_index))',
        ])

    fam = Family('contracts.graph', w)
    return fam
