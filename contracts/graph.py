"""C09: DependencyGraph / EvolutionGraph in utils/graph.py."""
from pyvc import kinds as K
from pyvc.world import World, LoopInv
from pyvc.runner import Family, Lemma, Bounded

GRAPH = 'django_evolution/utils/graph.py'
NODE = K.Ref('Node')
DEP = K.Tuple(K.Str, K.Str)

# graph representation invariant (after finalize): dependencies/required_by are mutually consistent,
# closed over the graph's nodes, insert_index is injective on nodes
WF = [
    "forall(Ref_Node, lambda n: implies(is_node(self, n), "
    "       forall(n.dependencies, lambda d: is_node(self, d) and n in d.required_by)))",
    "forall(Ref_Node, lambda n: implies(is_node(self, n), "
    "       forall(n.required_by, lambda m: is_node(self, m) and n in m.dependencies)))",
    "forall((Ref_Node, Ref_Node), lambda a, b: implies(is_node(self, a) and is_node(self, b) and a is not b, "
    "       a.insert_index != b.insert_index))",
]


def build():
    w = World('graph')
    w.kinds['Ref_Node'] = NODE
    w.kinds['Str'] = K.Str
    w.kinds['Int'] = K.Int
    w.exc('NodeNotFoundError')
    w.cls('Node', {'key': K.Str, 'insert_index': K.Int, 'dependencies': K.Set(NODE),
                   'required_by': K.Set(NODE), 'state': K.Atom('State')}, module=GRAPH)
    w.cls('DependencyGraph', {'_finalized': K.Bool, '_nodes': K.Map(K.Str, NODE),
                              '_pending_deps': K.Set(DEP)}, module=GRAPH)
    w.define('is_node', ['g', 'n'], "exists(g._nodes, lambda k: g._nodes[k] is n)")

    w.contract(
        'Node.__init__', module=GRAPH, serves=['C09'],
        params={'self': NODE, 'key': K.Str, 'insert_index': K.Int, 'state': K.Atom('State')},
        modifies=['Node.key[self]', 'Node.insert_index[self]', 'Node.dependencies[self]',
                  'Node.required_by[self]', 'Node.state[self]'],
        ensures=['self.key == key', 'self.insert_index == insert_index', 'len(self.dependencies) == 0',
                 'len(self.required_by) == 0', 'forall(Ref_Node, lambda d: d not in self.dependencies)',
                 'forall(Ref_Node, lambda d: d not in self.required_by)'])

    w.contract(
        'DependencyGraph.add_node', module=GRAPH, serves=['C09'],
        params={'self': K.Ref('DependencyGraph'), 'key': K.Str, 'state': K.Atom('State')},
        returns=NODE,
        requires=[
            # insertion indexes of existing nodes are below the node count (so the next one is new)
            "forall(self._nodes, lambda k: 0 <= self._nodes[k].insert_index and "
            "       self._nodes[k].insert_index < len(self._nodes))"],
        raises={'AssertionError': 'self._finalized or key in self._nodes'},
        modifies=['DependencyGraph._nodes[self]', 'Node.key', 'Node.insert_index', 'Node.dependencies',
                  'Node.required_by', 'Node.state'],
        ensures=[
            'not old(self._finalized)', 'not old(key in self._nodes)',
            'fresh_ref(result)', 'key in self._nodes', 'self._nodes[key] is result',
            'result.insert_index == old(len(self._nodes))', 'result.key == key',
            'len(self._nodes) == old(len(self._nodes)) + 1',
            'forall(Str, lambda k: implies(k != key, (k in self._nodes) == old(k in self._nodes) and '
            '       implies(k in self._nodes, self._nodes[k] is old(self._nodes[k]))))',
            # tie-break indexes stay injective and below the count
            "forall(self._nodes, lambda k: 0 <= self._nodes[k].insert_index and "
            "       self._nodes[k].insert_index < len(self._nodes))",
            "forall(self._nodes, lambda k: implies(k != key, self._nodes[k].insert_index != result.insert_index))",
            # existing nodes untouched
            "forall(Ref_Node, lambda n: implies(not fresh_ref(n), n.insert_index == old(n.insert_index) and "
            "       n.dependencies == old(n.dependencies) and n.required_by == old(n.required_by) and n.key == old(n.key)))",
        ])

    w.contract(
        'DependencyGraph.add_dependency', module=GRAPH, serves=['C09'],
        params={'self': K.Ref('DependencyGraph'), 'node_key': K.Str, 'dep_node_key': K.Str},
        raises={'AssertionError': 'self._finalized'},
        modifies=['DependencyGraph._pending_deps[self]'],
        ensures=['(node_key, dep_node_key) in self._pending_deps',
                 'forall((Str, Str), lambda a, b: implies(not (a == node_key and b == dep_node_key), '
                 '       ((a, b) in self._pending_deps) == old((a, b) in self._pending_deps)))'])

    w.contract(
        'DependencyGraph.remove_dependencies', module=GRAPH, serves=['C09'],
        params={'self': K.Ref('DependencyGraph'), 'node_keys': K.Set(K.Str)},
        raises={'AssertionError': 'self._finalized'},
        modifies=['DependencyGraph._pending_deps[self]'],
        ensures=[
            # requirements on already-applied units are ignored: exactly the pairs touching a removed key go
            'forall((Str, Str), lambda a, b: ((a, b) in self._pending_deps) == '
            '       (old((a, b) in self._pending_deps) and a not in node_keys and b not in node_keys))'])

    w.contract(
        'DependencyGraph.finalize', module=GRAPH, serves=['C09'],
        params={'self': K.Ref('DependencyGraph')},
        raises={
            # requirements that cannot be met (unknown endpoint) are reported, not dropped
            'AssertionError': "self._finalized or exists((Str, Str), lambda a, b: (a, b) in self._pending_deps and "
                              "(a not in self._nodes or b not in self._nodes))"},
        modifies=['DependencyGraph._pending_deps[self]', 'DependencyGraph._finalized[self]',
                  'Node.dependencies', 'Node.required_by'],
        invariants={1: LoopInv(
            'for node_key, dep_node_key in self._pending_deps:', index='i',
            clauses=[
                'self._nodes == old(self._nodes)', 'self._pending_deps == old(self._pending_deps)',
                'not self._finalized',
                # pairs visited so far are applied in both directions
                "forall(range(i), lambda j: sel(order, j)[0] in self._nodes and sel(order, j)[1] in self._nodes and "
                "       self._nodes[sel(order, j)[1]] in self._nodes[sel(order, j)[0]].dependencies and "
                "       self._nodes[sel(order, j)[0]] in self._nodes[sel(order, j)[1]].required_by)",
                # nothing else was added, nothing removed
                "forall((Ref_Node, Ref_Node), lambda n, d: (d in n.dependencies) == (old(d in n.dependencies) or "
                "       exists(range(i), lambda j: self._nodes[sel(order, j)[0]] is n and self._nodes[sel(order, j)[1]] is d)))",
                "forall((Ref_Node, Ref_Node), lambda n, d: (d in n.required_by) == (old(d in n.required_by) or "
                "       exists(range(i), lambda j: self._nodes[sel(order, j)[1]] is n and self._nodes[sel(order, j)[0]] is d)))",
            ])},
        ghost_in_body={'assert not self._finalized': []},
        ensures=[
            'self._finalized', 'self._nodes == old(self._nodes)',
            # every pending requirement became an edge, in both directions
            "forall((Str, Str), lambda a, b: implies(old((a, b) in self._pending_deps), "
            "       self._nodes[b] in self._nodes[a].dependencies and self._nodes[a] in self._nodes[b].required_by))",
            # and only those
            "forall((Ref_Node, Ref_Node), lambda n, d: (d in n.dependencies) == (old(d in n.dependencies) or "
            "       exists((Str, Str), lambda a, b: old((a, b) in self._pending_deps) and "
            "              self._nodes[a] is n and self._nodes[b] is d)))",
        ])

    w.contract(
        'DependencyGraph.get_node', module=GRAPH, serves=['C09'],
        params={'self': K.Ref('DependencyGraph'), 'key': K.Str}, returns=NODE,
        raises={'NodeNotFoundError': 'key not in self._nodes'},
        ensures=['key in self._nodes', 'result is self._nodes[key]'])

    w.contract(
        'DependencyGraph.get_leaf_nodes', module=GRAPH, serves=['C09'],
        params={'self': K.Ref('DependencyGraph')}, returns=K.Seq(NODE),
        raises={'AssertionError': 'not self._finalized'},
        ensures=[
            'forall(range(len(result)), lambda i: is_node(self, sel(result, i)) and len(sel(result, i).required_by) == 0)',
            'forall(Ref_Node, lambda n: implies(is_node(self, n) and len(n.required_by) == 0, '
            '       exists(range(len(result)), lambda i: sel(result, i) is n)))',
            # deterministic tie-break: ascending insertion order
            'forall((range(len(result)), range(len(result))), lambda i, j: implies(i < j, '
            '       sel(result, i).insert_index <= sel(result, j).insert_index))',
        ])

    add_get_ordered(w)
    add_evolution_graph(w)
    fam = Family('contracts.graph', w)
    fam.lemmas.append(Lemma('cov', ['C09'], lemma_cov))
    fam.bounded.append(Bounded('get_ordered_small_graphs', ['C09'], bounded_get_ordered,
                               scope='all digraphs <= 3 nodes (quick) / <= 4 nodes + 20000 random 5-node graphs (thorough)',
                               stands_in_for='the clause "cyclic requirements are reported as an error" (needs a '
                                             'cardinality/induction argument the solver does not do); also a '
                                             'cross-check of the proved ordering contract'))
    fam.replay['bounded:get_ordered_small_graphs'] = replay_get_ordered
    return fam


# ---------------------------------------------------------------------------------- EvolutionGraph

def add_evolution_graph(w):
    APP = K.Atom('App')
    w.cls('EvolutionGraph', {'_app_evolution_nodes': K.Map(APP, K.Seq(NODE))}, bases=['DependencyGraph'], module=GRAPH)
    w.stub('get_app_label', params={'app': APP}, returns=K.Str, pure=True)
    w.stub('EvolutionGraph._make_evolution_key', params={'self': K.Ref('EvolutionGraph'), 'evolution': K.Tuple(K.Str, K.Str)},
           returns=K.Str, pure=True, ensures=["result == 'evolution:%s:%s' % (evolution[0], evolution[1])"],
           note='key of an (app_label, label) pair; the Evolution-object form is not used on this path')
    GONE = ("forall((Str, Str), lambda a, b: ((a, b) in self._pending_deps) == (old((a, b) in self._pending_deps) and "
            "not exists(range(len({L})), lambda i: a == 'evolution:%s:%s' % (get_app_label(app), sel({L}, i))) and "
            "not exists(range(len({L})), lambda i: b == 'evolution:%s:%s' % (get_app_label(app), sel({L}, i)))))")
    w.contract(
        'EvolutionGraph.mark_evolutions_applied', module=GRAPH, serves=['C09'],
        params={'self': K.Ref('EvolutionGraph'), 'app': APP, 'evolution_labels': K.Seq(K.Str)},
        raises={'AssertionError': 'self._finalized'},
        modifies=['DependencyGraph._pending_deps[self]'],
        ensures=[
            # requirements on the applied evolutions are dropped; the app's __first__/__last__ anchors only when the
            # app has nothing pending in this graph (otherwise app-level requirements must survive)
            "implies(app in self._app_evolution_nodes, " + GONE.format(L='evolution_labels') + ")",
            "implies(app not in self._app_evolution_nodes, " + GONE.format(L="(evolution_labels + ['__first__', '__last__'])") + ")",
        ])


# ---------------------------------------------------------------------------------- get_ordered

def rank_fn(it, n):
    import z3
    return K.vint(it.p.ctx.ufunc('rank', z3.IntSort(), z3.IntSort())(n.t))


def rmax_fn(it):
    import z3
    return K.vint(z3.Int('RMAX'))


OPEN = "(n in processed and n not in visited)"

# facts about `result`, `result_set` and the ghost position function (hold at both loop levels)
RES_INV = [
    "forall(range(len(result)), lambda a: is_node(self, sel(result, a)) and sel(result, a) in result_set and "
    "       pos[sel(result, a)] == a)",
    "forall(result_set, lambda n: 0 <= pos[n] and pos[n] < len(result) and sel(result, pos[n]) is n)",
    # closure + order: whatever is in the result has all its dependencies earlier in the result
    "forall(result_set, lambda n: forall(n.dependencies, lambda d: d in result_set and pos[d] < pos[n]))",
]
COV_HYPS = WF[:2] + [
    "acyclic(self)",
    "forall(Ref_Node, lambda n: implies(is_node(self, n) and len(n.required_by) == 0, n in S))",
    "forall(S, lambda n: forall(n.dependencies, lambda d: d in S))",
]
COV_CONCL = "forall(Ref_Node, lambda n: implies(is_node(self, n), n in S))"


def add_get_ordered(w):
    w.spec_funcs['rank'] = rank_fn
    w.spec_funcs['RMAX'] = rmax_fn
    w.define('acyclic', ['g'],
             "forall(Ref_Node, lambda n: implies(is_node(g, n), 0 <= rank(n) and rank(n) < RMAX() and "
             "       forall(n.dependencies, lambda d: rank(d) < rank(n))))")
    w.lemma_texts['cov'] = (['self', 'S'], COV_HYPS, COV_CONCL)
    w.exc('EvolutionException')
    inner = RES_INV + [
        "forall(range(li), lambda a: sel(li_seq, a) in result_set)",
        "forall(range(len(stack)), lambda j: is_node(self, sel(stack, j)))",
        "forall(visited, lambda n: n in processed and n in result_set)",
        "forall(processed, lambda n: is_node(self, n))",
        # an open node (processed, not yet visited) has its marker on the stack at home[n] ...
        "forall(Ref_Node, lambda n: implies(%s, 0 <= home[n] and home[n] < len(stack) and "
        "       sel(stack, home[n]) is n))" % OPEN,
        # ... each of its dependencies is done or waits above the marker ...
        "forall((Ref_Node, Ref_Node), lambda n, d: implies(%s and d in n.dependencies, d in visited or "
        "       (home[n] < w[n, d] and w[n, d] < len(stack) and sel(stack, w[n, d]) is d)))" % OPEN,
        # ... and no second copy of an open node sits above its marker
        "forall((Ref_Node, range(len(stack))), lambda n, j: implies(%s and home[n] < j, sel(stack, j) is not n))" % OPEN,
        # acyclic graphs: everything above an open node's marker has smaller rank (so no back edge is ever met)
        "implies(acyclic(self), forall((Ref_Node, range(len(stack))), lambda n, j: implies(%s and home[n] < j, "
        "        rank(sel(stack, j)) < rank(n))))" % OPEN,
        # the leaf this pass started from ends up in the result
        "leaf_node in visited or (leaf_node in processed and leaf_node not in visited) or "
        "(len(stack) >= 1 and sel(stack, 0) is leaf_node and leaf_node not in processed)",
        "is_node(self, leaf_node)", "li < len(li_seq)", "leaf_node is sel(li_seq, li)",
    ]
    w.contract(
        'DependencyGraph.get_ordered', module=GRAPH, serves=['C09'],
        params={'self': K.Ref('DependencyGraph')}, returns=K.Seq(NODE),
        requires=WF[:2],
        locals={'result': K.Seq(NODE), 'result_set': K.Set(NODE), 'stack': K.Seq(NODE),
                'visited': K.Set(NODE), 'processed': K.Set(NODE)},
        raises={'AssertionError': 'not self._finalized',
                # an error is reported only when the requirements really cannot all be met
                'EvolutionException': 'not acyclic(self)'},
        raises_exact=False,     # cyclic => error is the bounded stand-in's clause (needs a cardinality argument)
        ghost_in_body={
            'result = []': ['pos = fun(Ref_Node, lambda n: 0)', 'home = fun(Ref_Node, lambda n: 0)',
                            'w = fun(Ref_Node, Ref_Node, lambda n, d: 0)'],
            'result.append(node)': ['pos[node] = len(result) - 1'],
            'stack += sorted(node.dependencies': [
                'home[node] = len(stack) - 1 - len(last_sorted())',
                'w = fun(Ref_Node, Ref_Node, lambda n, d: ite(n is node, '
                '        len(stack) - len(last_sorted()) + index_in(last_sorted(), d), w[n, d]))'],
        },
        ghost_before={
            'for node in six.itervalues(self._nodes):': ["use_lemma('cov', self=self, S=result_set)"],
            # proof hints for the "second pop" case: the popped entry is the node's own marker, so every
            # dependency (which would have to sit above it) is already visited
            'visited.add(node)': [
                'assert home[node] == len(stack)',
                'assert forall(node.dependencies, lambda d: d in visited)',
                'assert forall(node.dependencies, lambda d: d in result_set and pos[d] < len(result))'],
        },
        invariants={
            1: LoopInv('for leaf_node in self.get_leaf_nodes():', index='li', clauses=RES_INV + [
                "forall(range(li), lambda a: sel(li_seq, a) in result_set)"]),
            2: LoopInv('while stack:', clauses=inner),
            3: LoopInv('for dep in node.dependencies:', index='di', clauses=[
                "forall(range(di), lambda a: not (sel(order, a) in processed and sel(order, a) not in visited))"]),
            4: LoopInv('for node in six.itervalues(self._nodes):', index='ni', clauses=[
                "forall(range(ni), lambda a: implies(live(self._nodes, a), "
                "       self._nodes[key_at(self._nodes, a)] in result_set))"]),
        },
        ensures=[
            # every pending unit exactly once
            "forall((range(len(result)), range(len(result))), lambda a, b: implies(a != b, "
            "       sel(result, a) is not sel(result, b)))",
            "forall(range(len(result)), lambda a: is_node(self, sel(result, a)))",
            "forall(Ref_Node, lambda n: implies(is_node(self, n), exists(range(len(result)), lambda a: sel(result, a) is n)))",
            # the order respects every dependency
            "forall(range(len(result)), lambda a: forall(sel(result, a).dependencies, lambda d: "
            "       exists(range(a), lambda b: sel(result, b) is d)))",
        ])


def lemma_cov(fam):
    """Cov: in an acyclic well-formed graph a dependency-closed set containing every leaf contains every node.
    Proved by induction on RMAX - rank; the two solver queries are base and step, the induction schema
    itself is applied by the checker (listed in the trusted base)."""
    import z3
    from pyvc.lemmas import SpecEnv
    w = fam.world
    out = []
    env = SpecEnv(w, {'self': K.Ref('DependencyGraph'), 'S': K.Set(NODE), 'k': K.Int})
    hyps = env.assumptions + [env.t(h) for h in COV_HYPS]
    cov = lambda kexpr: env.t("forall(Ref_Node, lambda n: implies(is_node(self, n) and rank(n) >= %s, n in S))" % kexpr)
    out.append(('base', hyps + env.assumptions, cov('RMAX()')))
    out.append(('step', hyps + [cov('k + 1')] + env.assumptions, cov('k')))
    out.append(('conclude', hyps + [cov('0')] + env.assumptions, env.t(COV_CONCL)))
    return out


# ---------------------------------------------------------------------------------- bounded stand-in

def _all_digraphs(n):
    import itertools
    pairs = [(a, b) for a in range(n) for b in range(n)]
    for mask in range(1 << len(pairs)):
        yield [pairs[i] for i in range(len(pairs)) if mask >> i & 1]


def _acyclic(n, edges):
    deps = {a: set() for a in range(n)}
    for a, b in edges:
        deps[a].add(b)
    state = {}

    def visit(x):
        if state.get(x) == 1:
            return False
        if state.get(x) == 2:
            return True
        state[x] = 1
        for d in deps[x]:
            if not visit(d):
                return False
        state[x] = 2
        return True
    return all(visit(x) for x in range(n))


def check_order_contract(n, edges):
    """The get_ordered contract, evaluated natively on the real DependencyGraph. Returns None or a failure."""
    from django_evolution.utils.graph import DependencyGraph
    g = DependencyGraph()
    keys = ['n%d' % i for i in range(n)]
    for k in keys:
        g.add_node(k)
    for a, b in edges:
        g.add_dependency(keys[a], keys[b])
    g.finalize()
    try:
        res = [x.key for x in g.get_ordered()]
    except Exception as e:      # noqa
        if _acyclic(n, edges):
            return {'clause': 'acyclic graph must be ordered without error', 'observed': repr(e)}
        return None
    if not _acyclic(n, edges):
        return {'clause': 'requirements that cannot all be met must be reported as an error',
                'observed': res}
    if sorted(res) != sorted(keys):
        return {'clause': 'every node exactly once', 'observed': res}
    pos = {k: i for i, k in enumerate(res)}
    for a, b in edges:
        if not pos[keys[b]] < pos[keys[a]]:
            return {'clause': 'dependency before dependent', 'observed': res}
    return None


def bounded_get_ordered(tier='quick', seed=0):
    import random
    nmax = 3 if tier == 'quick' else 4
    evaluations, nontrivial, failures, samples = 0, 0, [], []
    known = _known_inputs()
    for n in range(1, nmax + 1):
        for edges in _all_digraphs(n):
            evaluations += 1
            if edges:
                nontrivial += 1
            f = check_order_contract(n, edges)
            if f is not None and len(failures) < 5:
                f['inputs'] = {'n': n, 'edges': edges}
                failures.append(f)
            if len(samples) < 3 and len(edges) == n:
                samples.append({'n': n, 'edges': edges, 'ok': f is None})
    exhaustive = True
    if tier != 'quick':
        # 5 nodes: 2^25 graphs is too many to enumerate; sample, and say so
        rnd = random.Random(seed)
        for _ in range(20000):
            edges = [(a, b) for a in range(5) for b in range(5) if rnd.random() < 0.18]
            evaluations += 1
            nontrivial += 1
            f = check_order_contract(5, edges)
            if f is not None and len(failures) < 5:
                f['inputs'] = {'n': 5, 'edges': edges}
                failures.append(f)
        exhaustive = False
    return {'evaluations': evaluations, 'distinct_nontrivial': nontrivial, 'failures': failures,
            'samples': samples, 'exhaustive': exhaustive,
            'rule': 'all labelled digraphs (self-loops included) on <= %d nodes in insertion order n0..; '
                    'non-trivial = at least one edge%s' % (nmax, '' if exhaustive else '; plus 20000 random 5-node graphs (sampled, not exhaustive)')}


def _known_inputs():
    return []


def replay_get_ordered(label, inputs):
    f = check_order_contract(inputs['n'], [tuple(e) for e in inputs['edges']])
    return {'reproduced': f is not None, 'failure': f, 'inputs': inputs}
