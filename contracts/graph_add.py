"""C09: EvolutionGraph.add_evolutions - the units of one app form a chain between the app's two anchors, and the app
is registered as having nodes whenever it was added (also when it only has models to create), which is what
mark_evolutions_applied consults before it drops the anchors' requirements.
"""
from pyvc import kinds as K
from pyvc.world import World, LoopInv
from pyvc.runner import Family

GRAPH = 'django_evolution/utils/graph.py'
NODE = K.Ref('Node')
APP = K.Atom('App')
DEPS = K.Atom('AppDeps')
G = K.Ref('EvolutionGraph')

CHAIN = ("forall(range(len(links)), lambda j: sel(links, j)[1] == "
         "       (first_key if j == 0 else sel(links, j - 1)[0]))")


def build():
    w = World('graph_add')
    w.kinds.update({'Str': K.Str, 'Ref_Node': NODE})
    w.cls('Node', {'key': K.Str})
    w.cls('EvolutionGraph', {'_app_evolution_nodes': K.Map(APP, K.Seq(NODE))}, module=GRAPH)
    w.ghost_var('links', K.Seq(K.Tuple(K.Str, K.Str)))       # (node_key, dep_node_key) per add_dependency call
    w.stub('get_app_label', params={'app': APP}, returns=K.Str, pure=True, reads=())
    w.stub('get_evolution_app_dependencies', params={'app': APP}, returns=K.Opt(DEPS), pure=True, reads=(),
           note="the app's evolutions/__init__.py level BEFORE_*/AFTER_* declarations (None if there are none)")
    w.stub('EvolutionGraph.add_node', params={'self': G, 'key': K.Str, 'state': None}, returns=NODE,
           modifies=['Node.key'], may_raise=['AssertionError'],
           ensures=['fresh_ref(result)', 'result.key == key',
                    'forall(Ref_Node, lambda n: implies(not fresh_ref(n), n.key == old(n.key)))'],
           note='verified in contracts.graph')
    w.stub('EvolutionGraph.add_dependency', params={'self': G, 'node_key': K.Str, 'dep_node_key': K.Str},
           may_raise=['AssertionError'], effects=['links = links + [(node_key, dep_node_key)]'],
           note='verified in contracts.graph: node_key runs after dep_node_key')
    for name, extra in (('_add_create_model', {'model': K.Atom('ModelCls')}),
                        ('_add_evolution', {'evolution': K.Atom('EvolutionRow'), 'custom_evolutions': K.Atom('Custom')})):
        params = {'self': G, 'app': APP}
        params.update(extra)
        params['extra_state'] = K.Atom('State')
        w.stub('EvolutionGraph.%s' % name, params=params, returns=NODE, modifies=['Node.key'],
               may_raise=['Exception'],
               ensures=['fresh_ref(result)', 'forall(Ref_Node, lambda n: implies(not fresh_ref(n), n.key == old(n.key)))'],
               note='adds one node for the unit (and, for evolutions, its declared dependency edges: contracts.graph_edges)')
    for name in ('_add_evolution_node_after_deps', '_add_evolution_node_before_deps'):
        w.stub('EvolutionGraph.%s' % name, params={'self': G, 'node': NODE, 'deps': DEPS}, may_raise=['AssertionError'],
               note='verified in contracts.graph_edges')
    w.contract(
        'EvolutionGraph.add_evolutions', module=GRAPH, serves=['C09'],
        params={'self': G, 'app': APP, 'evolutions': K.Seq(K.Atom('EvolutionRow')), 'new_models': K.Seq(K.Atom('ModelCls')),
                'extra_state': K.Atom('State'), 'custom_evolutions': K.Atom('Custom')},
        defaults={'evolutions': [], 'new_models': []},
        requires=['len(links) == 0'],
        raises={'AssertionError': True, 'Exception': True},
        modifies=['links', 'Node.key', 'EvolutionGraph._app_evolution_nodes[self]'],
        locals={'nodes': K.Seq(NODE)},
        # `d.setdefault(app, []).extend(nodes)` changes the list inside the dict in place: modelled as the equivalent
        # rebinding of the entry
        abstract={'self._app_evolution_nodes.setdefault(app, []).extend(nodes)': [
            'self._app_evolution_nodes[app] = (self._app_evolution_nodes[app] if app in self._app_evolution_nodes '
            'else no_nodes()) + nodes']},
        ghost_before={'for model in new_models:': ['first_key = prev_node.key']},
        invariants={
            1: LoopInv('for model in new_models:', index='i', clauses=[
                'len(nodes) == i', 'len(links) == i', CHAIN,
                'prev_node.key == (first_key if i == 0 else sel(links, i - 1)[0])',
                'self._app_evolution_nodes == old(self._app_evolution_nodes)',
                ]),
            2: LoopInv('for evolution in evolutions:', index='j', clauses=[
                'len(nodes) == len(new_models) + j', 'len(links) == len(new_models) + j', CHAIN,
                'prev_node.key == (first_key if len(links) == 0 else sel(links, len(links) - 1)[0])',
                'self._app_evolution_nodes == old(self._app_evolution_nodes)',
                ]),
        },
        ensures=[
            # the app counts as having nodes from now on - whatever it contributed
            'app in self._app_evolution_nodes',
            'len(self._app_evolution_nodes[app]) == (len(old(self._app_evolution_nodes[app])) '
            '    if old(app in self._app_evolution_nodes) else 0) + len(new_models) + len(evolutions)',
            # first anchor -> models -> evolutions -> last anchor, every unit after its predecessor
            'len(links) == len(new_models) + len(evolutions) + 1', CHAIN,
            "first_key == 'evolution:%s:__first__' % get_app_label(app)",
            "sel(links, len(links) - 1)[0] == 'evolution:%s:__last__' % get_app_label(app)",
        ])
    w.spec_funcs['no_nodes'] = lambda it: K.empty_seq(NODE)
    fam = Family('contracts.graph_add', w)
    fam.replay['EvolutionGraph.add_evolutions'] = replay_add
    return fam


def replay_add(label, inputs):
    """Native probe: an app that only has models to create (no pending evolution) must still be registered, so that
    marking its applied evolutions keeps the requirements on its anchors."""
    from django_evolution.compat.apps import get_app
    from django_evolution.utils.graph import EvolutionGraph
    from django_evolution.models import Evolution
    app = get_app('django_evolution')
    graph = EvolutionGraph()
    graph.add_evolutions(app=app, evolutions=[], new_models=[Evolution])
    registered = app in graph._app_evolution_nodes
    graph2 = EvolutionGraph()
    graph2.add_evolutions(app=app, evolutions=[], new_models=[])
    return {'reproduced': not registered or app not in graph2._app_evolution_nodes,
            'registered with only new models': registered,
            'registered with nothing pending': app in graph2._app_evolution_nodes,
            'inputs': {'evolutions': [], 'new_models': ['Evolution']}}
