"""Signature accessors, Simulation helpers and the field mutations' simulate() (C12; shared with C05/C11/C15)."""
import z3

from pyvc import kinds as K
from pyvc.kinds import V
from pyvc.world import World, LoopInv
from pyvc.runner import Family, Syntactic

SIG = 'django_evolution/signature.py'
MBASE = 'django_evolution/mutations/base.py'
ADDF = 'django_evolution/mutations/add_field.py'
CHGF = 'django_evolution/mutations/change_field.py'
DELF = 'django_evolution/mutations/delete_field.py'
CMD = 'django_evolution/management/commands/evolve.py'

VAL = K.Atom('AttrVal')
ATTRS = K.Map(K.Str, K.Opt(VAL))
FTYPE = K.Atom('FieldType')


def declare_signature_classes(w, related_kind=None):
    related_kind = related_kind or K.Opt(K.Str)
    w.kinds.update({'Str': K.Str, 'Ref_App': K.Ref('AppSignature'), 'Ref_Model': K.Ref('ModelSignature'),
                    'Ref_Field': K.Ref('FieldSignature'), 'Ref_Project': K.Ref('ProjectSignature')})
    w.exc('EvolutionException')
    w.exc('MissingSignatureError', 'EvolutionException')
    w.exc('SimulationFailure', 'EvolutionException')
    w.exc('CannotSimulate', 'EvolutionException')
    w.cls('FieldSignature', {'field_name': K.Str, 'field_type': FTYPE, 'field_attrs': ATTRS,
                             'related_model': related_kind}, module=SIG)
    w.cls('ModelSignature', {'model_name': K.Str, 'table_name': K.Opt(K.Str),
                             '_field_sigs': K.Map(K.Str, K.Ref('FieldSignature')),
                             'unique_together': K.Seq(K.Seq(K.Str))}, module=SIG)
    w.cls('AppSignature', {'app_id': K.Str, 'legacy_app_label': K.Opt(K.Str),
                           '_model_sigs': K.Map(K.Str, K.Ref('ModelSignature'))}, module=SIG)
    w.cls('ProjectSignature', {'_app_sigs': K.Map(K.Str, K.Ref('AppSignature'))}, module=SIG)


def declare_accessors(w, serves):
    w.contract(
        'ProjectSignature.get_app_sig', module=SIG, serves=serves,
        params={'self': K.Ref('ProjectSignature'), 'app_id': K.Opt(K.Str), 'required': K.Bool},
        defaults={'required': False}, returns=K.Opt(K.Ref('AppSignature')), pure=True,
        raises={'MissingSignatureError':
                'required and not (app_id is not None and some(app_id) in self._app_sigs) and '
                'forall(self._app_sigs, lambda k: self._app_sigs[k].legacy_app_label != app_id)'},
        abstract={'app_sig = self._app_sigs.get(app_id)': [
            # dict.get(None) on a str-keyed dict finds nothing
            'app_sig = self._app_sigs.get(some(app_id)) if app_id is not None else None']},
        invariants={1: LoopInv('for temp_app_sig in six.itervalues(self._app_sigs):', index='i', clauses=[
            'app_sig is None',
            'forall(range(i), lambda a: implies(live(self._app_sigs, a), '
            '       self._app_sigs[key_at(self._app_sigs, a)].legacy_app_label != app_id))'])},
        ensures=[
            # found by id ...
            'implies(app_id is not None and some(app_id) in self._app_sigs, result is self._app_sigs[some(app_id)])',
            # ... otherwise by legacy label, else None
            'implies(result is not None, exists(self._app_sigs, lambda k: self._app_sigs[k] is result))',
            'implies(result is not None and not (app_id is not None and some(app_id) in self._app_sigs), '
            '        some(result).legacy_app_label == app_id)',
            'implies(result is None, not (app_id is not None and some(app_id) in self._app_sigs) and '
            '        forall(self._app_sigs, lambda k: self._app_sigs[k].legacy_app_label != app_id))',
            'implies(required, result is not None)',
        ])
    w.contract(
        'AppSignature.get_model_sig', module=SIG, serves=serves,
        params={'self': K.Ref('AppSignature'), 'model_name': K.Str, 'required': K.Bool},
        defaults={'required': False}, returns=K.Opt(K.Ref('ModelSignature')), pure=True,
        raises={'MissingSignatureError': 'required and model_name not in self._model_sigs'},
        ensures=['iff(result is None, model_name not in self._model_sigs)',
                 'implies(result is not None, result is self._model_sigs[model_name])'])
    w.contract(
        'ModelSignature.get_field_sig', module=SIG, serves=serves,
        params={'self': K.Ref('ModelSignature'), 'field_name': K.Str, 'required': K.Bool},
        defaults={'required': False}, returns=K.Opt(K.Ref('FieldSignature')), pure=True,
        raises={'MissingSignatureError': 'required and field_name not in self._field_sigs'},
        ensures=['iff(result is None, field_name not in self._field_sigs)',
                 'implies(result is not None, result is self._field_sigs[field_name])'])


def declare_simulation(w, serves):
    w.cls('BaseMutation', {}, module=MBASE)
    w.cls('Simulation', {'mutation': K.Ref('BaseMutation'), 'app_label': K.Str,
                         'legacy_app_label': K.Opt(K.Str), 'project_sig': K.Ref('ProjectSignature'),
                         'database': K.Opt(K.Str), 'database_state': K.Atom('DatabaseState')}, module=MBASE)
    w.contract(
        'Simulation.fail', module=MBASE, serves=serves,
        params={'self': K.Ref('Simulation'), 'error': K.Str, 'error_vars': None}, kwarg='error_vars',
        kwarg_keys=[], raises={'SimulationFailure': True},
        abstract={"msg = '%s %s' % (self.mutation.simulation_failure_error, error)": ['msg = error'],
                  'error_dict.update(\n            (key, getattr(self.mutation, value))': ['_u = 0'],
                  'error_dict.update(error_vars)': ['_u = 0']},
        ensures=['False'],
        note='message formatting abstracted; what matters is that fail() never returns')
    w.contract(
        'Simulation.get_app_sig', module=MBASE, serves=serves,
        params={'self': K.Ref('Simulation')}, returns=K.Ref('AppSignature'), pure=True,
        raises={'SimulationFailure':
                'self.project_sig.get_app_sig(self.app_label) is None and '
                '(self.legacy_app_label is None or self.project_sig.get_app_sig(self.legacy_app_label) is None)'},
        ensures=['exists(self.project_sig._app_sigs, lambda k: self.project_sig._app_sigs[k] is result)',
                 'implies(self.project_sig.get_app_sig(self.app_label) is not None, '
                 '        result is self.project_sig.get_app_sig(self.app_label))'])
    w.contract(
        'Simulation.get_model_sig', module=MBASE, serves=serves,
        params={'self': K.Ref('Simulation'), 'model_name': K.Str}, returns=K.Ref('ModelSignature'), pure=True,
        raises={'SimulationFailure': True},
        ensures=['model_name in self.get_app_sig()._model_sigs',
                 'result is self.get_app_sig()._model_sigs[model_name]',
                 'exists(Ref_App, lambda a: exists(self.project_sig._app_sigs, lambda k: '
                 '       self.project_sig._app_sigs[k] is a) and model_name in a._model_sigs and '
                 '       a._model_sigs[model_name] is result)'])
    w.contract(
        'Simulation.get_field_sig', module=MBASE, serves=serves,
        params={'self': K.Ref('Simulation'), 'model_name': K.Str, 'field_name': K.Str},
        returns=K.Ref('FieldSignature'), pure=True,
        raises={'SimulationFailure': True},
        ensures=['field_name in self.get_model_sig(model_name)._field_sigs',
                 'result is self.get_model_sig(model_name)._field_sigs[field_name]',
                 'exists(Ref_Model, lambda m: field_name in m._field_sigs and m._field_sigs[field_name] is result)'])


def is_m2m(it, ft):
    f = it.p.ctx.ufunc('issubclass!models.ManyToManyField', FTYPE.leaf_sorts()[0], z3.BoolSort())
    return K.vbool(f(ft.t))


def build():
    w = World('sigsim')
    # here a relation target is an opaque attribute value (ChangeField moves it between field_attrs and related_model)
    declare_signature_classes(w, related_kind=K.Opt(VAL))
    declare_accessors(w, ['C12'])
    declare_simulation(w, ['C12'])
    w.spec_funcs['is_m2m'] = is_m2m
    w.module_names |= {'models'}

    # ---- AddField / ChangeField / DeleteField . simulate -------------------------------------------
    w.cls('AddField', {'model_name': K.Str, 'field_name': K.Str, 'field_type': FTYPE, 'field_attrs': ATTRS,
                       'initial': K.Opt(K.Atom('Initial'))}, bases=['BaseMutation'], module=ADDF)
    w.cls('ChangeField', {'model_name': K.Str, 'field_name': K.Str, 'field_type': K.Opt(FTYPE),
                          'field_attrs': ATTRS, 'initial': K.Opt(K.Atom('Initial'))},
          bases=['BaseMutation'], module=CHGF)
    w.cls('DeleteField', {'model_name': K.Str, 'field_name': K.Str}, bases=['BaseMutation'], module=DELF)
    w.stub('FieldSignature.__init__',
           params={'self': K.Ref('FieldSignature'), 'field_name': K.Str, 'field_type': FTYPE,
                   'field_attrs': ATTRS, 'related_model': K.Opt(VAL)},
           modifies=['FieldSignature.field_name[self]', 'FieldSignature.field_type[self]',
                     'FieldSignature.field_attrs[self]', 'FieldSignature.related_model[self]'],
           ensures=['self.field_name == field_name', 'self.field_type == field_type',
                    'self.field_attrs == field_attrs'],
           stores=['field_attrs'],
           note='plain constructor storing its arguments, the attribute dict by reference (related_model value abstracted '
                'to a string elsewhere)')
    w.stub('ModelSignature.add_field_sig', params={'self': K.Ref('ModelSignature'), 'field_sig': K.Ref('FieldSignature')},
           modifies=['ModelSignature._field_sigs[self]'],
           ensures=['field_sig.field_name in self._field_sigs',
                    'self._field_sigs[field_sig.field_name] is field_sig',
                    'forall(Str, lambda k: implies(k != field_sig.field_name, '
                    '       (k in self._field_sigs) == old(k in self._field_sigs) and '
                    '       implies(k in self._field_sigs, self._field_sigs[k] is old(self._field_sigs[k]))))'],
           note='self._field_sigs[field_sig.field_name] = field_sig')
    w.stub('ModelSignature.remove_field_sig', params={'self': K.Ref('ModelSignature'), 'field_name': K.Str},
           modifies=['ModelSignature._field_sigs[self]'], raises={'MissingSignatureError': 'field_name not in self._field_sigs'},
           ensures=['field_name not in self._field_sigs',
                    'forall(Str, lambda k: implies(k != field_name, (k in self._field_sigs) == old(k in self._field_sigs) and '
                    '       implies(k in self._field_sigs, self._field_sigs[k] is old(self._field_sigs[k]))))'])
    w.stub('FieldSignature.get_attr_value', params={'self': K.Ref('FieldSignature'), 'attr_name': K.Str,
                                                   'use_default': K.Bool}, defaults={'use_default': True},
           returns=K.Opt(VAL), pure=True, note='stored attribute or the class default (C05 covers it)')

    NEEDS_INITIAL_ADD = ("not is_m2m(self.field_type) and not truthy(self.field_attrs.get('null')) "
                         "and self.initial is None")
    w.contract(
        'AddField.simulate', module=ADDF, serves=['C12', 'C14', 'C03'],
        params={'self': K.Ref('AddField'), 'simulation': K.Ref('Simulation')},
        raises={'SimulationFailure': True},
        modifies=['ModelSignature._field_sigs', 'FieldSignature.field_name', 'FieldSignature.field_type',
                  'FieldSignature.field_attrs', 'FieldSignature.related_model'],
        ensures=[
            # a normal return means none of the rejection conditions held (so each of them raises)
            'not (%s)' % NEEDS_INITIAL_ADD,
            # the field did not exist before and exists now, in a model of the simulated project
            'exists(Ref_Model, lambda m: not old(self.field_name in m._field_sigs) and '
            '       self.field_name in m._field_sigs and fresh_ref(m._field_sigs[self.field_name]))',
        ],
        note='issubclass(...ManyToManyField) is the uninterpreted predicate is_m2m')
    NEEDS_INITIAL_CHG = ("'null' in self.field_attrs and not truthy(self.field_attrs['null']) and "
                         "self.initial is None")
    w.stub('type_changed', params={'mutation': K.Ref('ChangeField'), 'field_sig': K.Ref('FieldSignature')},
           returns=K.Bool, pure=True,
           note='ChangeField._get_field_type_change: instantiates Django fields and compares db types')
    w.contract(
        'ChangeField.simulate', module=CHGF, serves=['C12', 'C14', 'C03'],
        params={'self': K.Ref('ChangeField'), 'simulation': K.Ref('Simulation')},
        raises={'SimulationFailure': True},
        modifies=['FieldSignature.field_type', 'FieldSignature.field_attrs', 'FieldSignature.related_model'],
        abstract={'field_type_changed, old_field, new_field = self._get_field_type_change(':
                  ['field_type_changed = type_changed(self, field_sig)'],
                  },
        ensures=[
            # a normal return means the change does not make a column non-null without an initial value
            'not (%s and not is_m2m(old(simulation.get_field_sig(self.model_name, self.field_name)).field_type))'
            % NEEDS_INITIAL_CHG],
        observe=['self.field_attrs', 'self.initial', 'self.field_type',
                 'type_changed(self, simulation.get_field_sig(self.model_name, self.field_name))'])
    w.kinds['Int'] = K.Int
    w.spec_funcs['has'] = seq_has
    w.contract(
        'DeleteField.simulate', module=DELF, serves=['C12', 'C05', 'C14', 'C03'],
        params={'self': K.Ref('DeleteField'), 'simulation': K.Ref('Simulation')},
        raises={'SimulationFailure': True, 'MissingSignatureError': True},
        modifies=['ModelSignature._field_sigs', 'ModelSignature.unique_together[simulation.get_model_sig(self.model_name)]'],
        locals={'new_unique_together': K.Seq(K.Seq(K.Str)), 'new_entry': K.Seq(K.Str)},
        ghost_before={'for unique_together_entry in model_sig.unique_together:': [
            'UT = model_sig.unique_together',
            # witnesses: where[x, n] = the new entry that keeps member n of old entry x; src[j] = the old entry behind new entry j
            'where = fun(Int, Str, lambda x, n: 0)', 'src = fun(Int, lambda j: 0)']},
        ghost_in_body={'new_unique_together.append(new_entry)': [
            'where = fun(Int, Str, lambda x, n: ite(x == i, len(new_unique_together) - 1, where[x, n]))',
            'src = fun(Int, lambda j: ite(j == len(new_unique_together) - 1, i, src[j]))',
            'assert same(sel(new_unique_together, len(new_unique_together) - 1), new_entry)'],
                       'new_entry = tuple(': [
            # the filtered entry holds exactly the other names of the entry
            'assert forall(Str, lambda n: has(new_entry, n) == (has(unique_together_entry, n) and n != self.field_name))']},
        invariants={1: LoopInv('for unique_together_entry in model_sig.unique_together:', index='i', clauses=[
            'same(i_seq, UT)', 'self.field_name == old(self.field_name)',
            'model_sig is old(simulation.get_model_sig(self.model_name))',
            'forall(Ref_Model, lambda m: m._field_sigs == old(m._field_sigs) and same(m.unique_together, old(m.unique_together)))',
            'forall(range(len(new_unique_together)), lambda j: not has(sel(new_unique_together, j), self.field_name))',
            'forall(range(i), lambda x: forall(Str, lambda n: implies(has(sel(UT, x), n) and n != self.field_name, '
            '       0 <= where[x, n] and where[x, n] < len(new_unique_together) and '
            '       has(sel(new_unique_together, where[x, n]), n))))',
            'forall(range(len(new_unique_together)), lambda j: 0 <= src[j] and src[j] < i and forall(Str, lambda n: '
            '       implies(has(sel(new_unique_together, j), n), has(sel(UT, src[j]), n))))',
        ])},
        ensures=[
            # unique_together: the deleted field is struck from every entry, every other member stays, nothing is invented
            'forall(range(len(MSIG.unique_together)), lambda j: not has(sel(MSIG.unique_together, j), self.field_name))'
            .replace('MSIG', 'old(simulation.get_model_sig(self.model_name))'),
            'forall(range(len(old(simulation.get_model_sig(self.model_name).unique_together))), lambda x: forall(Str, lambda n: implies('
            '       has(sel(old(simulation.get_model_sig(self.model_name).unique_together), x), n) and n != self.field_name, '
            '       exists(range(len(MSIG.unique_together)), lambda j: has(sel(MSIG.unique_together, j), n)))))'
            .replace('MSIG', 'old(simulation.get_model_sig(self.model_name))'),
            'forall(range(len(MSIG.unique_together)), lambda j: forall(Str, lambda n: implies(has(sel(MSIG.unique_together, j), n), '
            '       exists(range(len(old(simulation.get_model_sig(self.model_name).unique_together))), lambda x: '
            '              has(sel(old(simulation.get_model_sig(self.model_name).unique_together), x), n)))))'
            .replace('MSIG', 'old(simulation.get_model_sig(self.model_name))'),
            # a primary key is never deleted
            'not truthy(old(simulation.get_field_sig(self.model_name, self.field_name).get_attr_value("primary_key")))',
            # exactly the named field of the named model goes away
            'self.field_name not in old(simulation.get_model_sig(self.model_name))._field_sigs',
            'forall(Ref_Model, lambda m: forall(Str, lambda k: implies('
            '       not (m is old(simulation.get_model_sig(self.model_name)) and k == self.field_name), '
            '       (k in m._field_sigs) == old(k in m._field_sigs) and '
            '       implies(k in m._field_sigs, m._field_sigs[k] is old(m._field_sigs[k])))))'],
        note='unique_together is a list of lists of field names (tuples and lists are not distinguished)')

    add_rename_field(w)
    add_gate(w)
    add_small(w)
    fam = Family('contracts.sigsim', w)
    fam.replay['ChangeField.simulate'] = replay_change_field_simulate
    fam.replay['AddField.simulate'] = replay_add_field_simulate
    fam.replay['DeleteField.simulate'] = replay_delete_field_simulate
    fam.replay['Evolver.diff_evolutions'] = replay_diff_evolutions
    fam.syntactic.append(Syntactic('run_mutation_swallows_only_cannot_simulate', ['C12'], syn_run_mutation,
                                   'AppMutator.run_mutation/run_mutations and BaseMutation.run_simulation contain no except clause '
                                   'other than "except CannotSimulate" (SimulationFailure propagates to the command)'))
    fam.syntactic.append(Syntactic('prepare_chain_executes_no_sql', ['C12'], syn_no_exec,
                                   'effect obligation no_exec: no function of the prepare chain calls cursor.execute / run_sql(execute=True) / '
                                   'an executor context'))
    return fam


def seq_has(it, e, n):
    """has(e, n): the list of strings e contains n - an uninterpreted predicate with its defining axioms (a term the
    solver can match on, unlike an inlined existential)."""
    import z3
    ln, arr = e.terms
    f = it.p.ctx.ufunc('has!str', z3.IntSort(), arr.sort(), z3.StringSort(), z3.BoolSort())
    if 'has!str' not in it.p.pure_axioms:
        it.p.pure_axioms.add('has!str')
        L, A, N, Q = z3.Int('has!L'), z3.Const('has!A', arr.sort()), z3.String('has!N'), z3.Int('has!Q')
        wit = it.p.ctx.ufunc('has!wit', z3.IntSort(), arr.sort(), z3.StringSort(), z3.IntSort())
        w_ = wit(L, A, N)
        it.p.assume(z3.ForAll([L, A, N], z3.Implies(f(L, A, N), z3.And(0 <= w_, w_ < L, z3.Select(A, w_) == N)),
                              patterns=[f(L, A, N)]))
        it.p.assume(z3.ForAll([L, A, N, Q], z3.Implies(z3.And(0 <= Q, Q < L, z3.Select(A, Q) == N), f(L, A, N)),
                              patterns=[z3.MultiPattern(f(L, A, N), z3.Select(A, Q))]))
    return K.vbool(f(ln, arr, n.t))


def add_rename_field(w):
    """RenameField.simulate: the field signature moves to the new name; its table (many-to-many) or column name is the one
    the mutation states - or none, meaning Django's default for the new name; every other attribute is kept."""
    RENF = 'django_evolution/mutations/rename_field.py'
    w.cls('RenameField', {'model_name': K.Str, 'old_field_name': K.Str, 'new_field_name': K.Str,
                          'db_column': K.Opt(VAL), 'db_table': K.Opt(VAL)}, bases=['BaseMutation'], module=RENF)
    w.stub('FieldSignature.clone', params={'self': K.Ref('FieldSignature')}, returns=K.Ref('FieldSignature'),
           modifies=['FieldSignature.field_name', 'FieldSignature.field_type', 'FieldSignature.field_attrs',
                     'FieldSignature.related_model'],
           ensures=['fresh_ref(result)', 'result.field_name == self.field_name', 'result.field_type == self.field_type',
                    'result.related_model == self.related_model', 'same(result.field_attrs, self.field_attrs)',
                    'forall(Ref_Field, lambda f: implies(not fresh_ref(f), f.field_name == old(f.field_name) and '
                    '       f.field_type == old(f.field_type) and same(f.field_attrs, old(f.field_attrs)) and '
                    '       f.related_model == old(f.related_model)))'],
           note='verified in contracts.sigcontainers')
    OLD = 'old(simulation.get_field_sig(self.model_name, self.old_field_name))'
    NEW = 'old(simulation.get_model_sig(self.model_name))._field_sigs[self.new_field_name]'
    w.contract(
        'RenameField.simulate', module=RENF, serves=['C15', 'C11', 'C12'],
        params={'self': K.Ref('RenameField'), 'simulation': K.Ref('Simulation')},
        requires=['self.old_field_name != self.new_field_name'],
        raises={'SimulationFailure': True, 'MissingSignatureError': True},
        modifies=['ModelSignature._field_sigs', 'FieldSignature.field_name', 'FieldSignature.field_type',
                  'FieldSignature.field_attrs', 'FieldSignature.related_model'],
        ensures=[
            'self.new_field_name in old(simulation.get_model_sig(self.model_name))._field_sigs',
            'self.old_field_name not in old(simulation.get_model_sig(self.model_name))._field_sigs',
            '%s.field_name == self.new_field_name and %s.field_type == %s.field_type and '
            '%s.related_model == %s.related_model' % (NEW, NEW, OLD, NEW, OLD),
            # the table of a many-to-many field: exactly what the mutation states
            "implies(is_m2m(%s.field_type), ('db_table' in %s.field_attrs) == truthy(self.db_table) and "
            "        implies(truthy(self.db_table), %s.field_attrs['db_table'] == self.db_table))" % (OLD, NEW, NEW),
            # the column of any other field: likewise
            "implies(not is_m2m(%s.field_type), ('db_column' in %s.field_attrs) == truthy(self.db_column) and "
            "        implies(truthy(self.db_column), %s.field_attrs['db_column'] == self.db_column))" % (OLD, NEW, NEW),
            # every other attribute is carried over
            "forall(Str, lambda k: implies(k != 'db_table' and k != 'db_column', "
            "       (k in %s.field_attrs) == (k in %s.field_attrs) and "
            "       implies(k in %s.field_attrs, %s.field_attrs[k] == %s.field_attrs[k])))" % (NEW, OLD, OLD, NEW, OLD),
            "implies(is_m2m(%s.field_type), ('db_column' in %s.field_attrs) == ('db_column' in %s.field_attrs))" % (OLD, NEW, OLD),
            "implies(not is_m2m(%s.field_type), ('db_table' in %s.field_attrs) == ('db_table' in %s.field_attrs))" % (OLD, NEW, OLD),
        ],
        note='issubclass(field_type, ManyToManyField) is the uninterpreted predicate is_m2m')


def add_gate(w):
    """Command._check_simulation and the gate in Command.handle."""
    w.exc('CommandError')
    w.cls('Diff', {'changed': K.Map(K.Str, K.Atom('AppChange')), 'deleted': K.Seq(K.Str)}, module='django_evolution/diff.py')
    w.cls('EvolverG', {'hinted': K.Bool})
    w.cls('OutStream', {})
    w.cls('Style', {})
    w.cls('Command', {'evolver': K.Ref('EvolverG'), 'purge': K.Bool, 'stdout': K.Ref('OutStream'),
                      'stderr': K.Ref('OutStream'), 'style': K.Ref('Style'), 'verbosity': K.Int}, module=CMD)
    w.stub('EvolverG.can_simulate', params={'self': K.Ref('EvolverG')}, returns=K.Bool, pure=True)
    w.stub('EvolverG.diff_evolutions', params={'self': K.Ref('EvolverG')}, returns=K.Ref('Diff'), pure=True,
           note='Diff(simulated signature, signature of the current models)')
    w.stub('OutStream.write', params={'self': K.Ref('OutStream'), 'msg': None})
    w.stub('Style.NOTICE', params={'self': K.Ref('Style'), 'msg': None}, returns=K.Str, pure=False)
    w.stub('Command._wrap_paragraphs', params={'self': K.Ref('Command'), 'text': None}, returns=K.Str)
    w.contract(
        'Command._check_simulation', module=CMD, serves=['C12'],
        params={'self': K.Ref('Command')}, returns=K.Bool,
        raises={
            # a simulatable upgrade with a residual difference is rejected
            'CommandError': 'self.evolver.can_simulate() and '
                            'not self.evolver.diff_evolutions().is_empty(not self.purge)'},
        ensures=[
            'iff(result, self.evolver.can_simulate())',
            'implies(result, self.evolver.diff_evolutions().is_empty(not self.purge))'])


def add_small(w):
    """Small functions on the C12 / C13 / C15 paths."""
    EVOLVER = 'django_evolution/evolve/evolver.py'
    PURGE = 'django_evolution/evolve/purge_app_task.py'
    DIFF = 'django_evolution/diff.py'
    PH = 'django_evolution/placeholders.py'
    w.cls('TaskS', {'can_simulate': K.Bool, 'evolution_required': K.Bool})
    w.cls('Evolver', {'_tasks_by_id': K.Map(K.Str, K.Ref('TaskS')), 'project_sig': K.Ref('ProjectSignature'),
                      'target_project_sig': K.Ref('ProjectSignature')}, module=EVOLVER,
          views={'tasks': ('_tasks_by_id', 'values')})
    w.classes['Diff']['fields'].update({'original_project_sig': K.Ref('ProjectSignature'),
                                        'target_project_sig': K.Ref('ProjectSignature')})
    w.stub('Diff.__init__', params={'self': K.Ref('Diff'), 'original': K.Ref('ProjectSignature'),
                                    'target': K.Ref('ProjectSignature')},
           modifies=['Diff.original_project_sig[self]', 'Diff.target_project_sig[self]', 'Diff.changed[self]', 'Diff.deleted[self]'],
           ensures=['self.original_project_sig is original', 'self.target_project_sig is target'],
           note='Diff(original, target): what has to change to get from `original` to `target`; models present only in '
                '`original` are reported as deleted, models present only in `target` are not walked')
    w.stub('Evolver._prepare_tasks', params={'self': K.Ref('Evolver')}, modifies=[],
           note='runs the queued tasks\' prepare() (simulation into self.project_sig); idempotent')
    w.contract(
        'Evolver.diff_evolutions', module=EVOLVER, serves=['C12'],
        params={'self': K.Ref('Evolver')}, returns=K.Ref('Diff'),
        modifies=['Diff.original_project_sig', 'Diff.target_project_sig', 'Diff.changed', 'Diff.deleted'],
        ensures=[
            # the residual difference is taken FROM the simulated signature TO the signature of the current models
            'result.original_project_sig is self.project_sig', 'result.target_project_sig is self.target_project_sig',
            'fresh_ref(result)'])
    w.contract(
        'Evolver.can_simulate', module=EVOLVER, serves=['C12'],
        params={'self': K.Ref('Evolver')}, returns=K.Bool,
        ensures=['result == forall(self._tasks_by_id, lambda k: self._tasks_by_id[k].can_simulate or '
                 '                 not self._tasks_by_id[k].evolution_required)'],
        note='self.tasks modelled as the values of _tasks_by_id (the property also prepares the tasks: see C12 effect obligation)')
    w.contract(
        'Evolver.get_evolution_required', module=EVOLVER, serves=['C12'],
        params={'self': K.Ref('Evolver')}, returns=K.Bool,
        ensures=['result == exists(self._tasks_by_id, lambda k: self._tasks_by_id[k].evolution_required)'])
    w.contract(
        'Diff.is_empty', module=DIFF, serves=['C12', 'C15'],
        params={'self': K.Ref('Diff'), 'ignore_apps': K.Bool}, defaults={'ignore_apps': True}, returns=K.Bool, pure=True,
        ensures=[
            # deleted (no longer installed) apps only count when the caller asks for them (i.e. with --purge)
            'result == (len(self.changed) == 0 and (ignore_apps or len(self.deleted) == 0))'])
    w.exc('EvolutionException')
    w.cls('NullFieldInitialCallback', {'app_label': K.Str, 'model_name': K.Str, 'field_name': K.Str}, module=PH)
    w.contract(
        'NullFieldInitialCallback.__call__', module=PH, serves=['C13'],
        params={'self': K.Ref('NullFieldInitialCallback')},
        raises={'EvolutionException': True}, ensures=['False'],
        note='the placeholder for a user-supplied initial value refuses to run: it never returns')


def syn_run_mutation():
    import ast
    from pyvc import extract
    bad = []
    for rel, qn in (('django_evolution/mutators/app_mutator.py', 'AppMutator.run_mutation'),
                    ('django_evolution/mutators/app_mutator.py', 'AppMutator.run_mutations'),
                    ('django_evolution/mutations/base.py', 'BaseMutation.run_simulation')):
        ex = extract.find(rel, qn)
        for n in ast.walk(ex.node):
            if isinstance(n, ast.ExceptHandler):
                t = ast.unparse(n.type) if n.type is not None else '<bare>'
                if t != 'CannotSimulate':
                    bad.append('%s: except %s' % (qn, t))
    return not bad, 'offending handlers: %r' % (bad,)


def syn_no_exec():
    """Modular effect check: the functions of the prepare chain contain no SQL-executing call."""
    import ast
    from pyvc import extract
    chain = [('django_evolution/evolve/evolver.py', 'Evolver._prepare_tasks'),
             ('django_evolution/evolve/base.py', 'BaseEvolutionTask.prepare_tasks'),
             ('django_evolution/evolve/evolve_app_task.py', 'EvolveAppTask.prepare'),
             ('django_evolution/evolve/evolve_app_task.py', 'EvolveAppTask.generate_mutations_info'),
             ('django_evolution/evolve/purge_app_task.py', 'PurgeAppTask.prepare'),
             ('django_evolution/mutators/app_mutator.py', 'AppMutator.run_mutations'),
             ('django_evolution/mutators/app_mutator.py', 'AppMutator.run_mutation'),
             ('django_evolution/mutators/app_mutator.py', 'AppMutator.to_sql'),
             ('django_evolution/evolve/evolver.py', 'Evolver.diff_evolutions'),
             ('django_evolution/evolve/evolver.py', 'Evolver.can_simulate'),
             ('django_evolution/management/commands/evolve.py', 'Command._check_simulation')]
    bad = []
    for rel, qn in chain:
        ex = extract.find(rel, qn)
        for n in ast.walk(ex.node):
            if isinstance(n, ast.Call):
                f = ast.unparse(n.func)
                kws = {k.arg: ast.unparse(k.value) for k in n.keywords if k.arg}
                if f.endswith('.execute') or f.endswith('cursor.execute') or f.endswith('sql_executor') or \
                        f.endswith('SQLExecutor') or f.endswith('.evolve') or f.endswith('execute_tasks') or \
                        (f.endswith('run_sql') and kws.get('execute') not in (None, 'False')):
                    bad.append('%s calls %s' % (qn, f))
    return not bad, 'executing calls found: %r' % (bad,)


# ------------------------------------------------------------------------------ replay adapters

def _project_with_field(field_type, attrs):
    from django_evolution.signature import (ProjectSignature, AppSignature, ModelSignature, FieldSignature)
    from django.db import models
    project_sig = ProjectSignature()
    app_sig = AppSignature('tests')
    model_sig = ModelSignature('TestModel', 'tests_testmodel')
    model_sig.add_field_sig(FieldSignature('id', models.AutoField, {'primary_key': True}))
    if field_type is not None:
        model_sig.add_field_sig(FieldSignature('f', field_type, dict(attrs)))
    app_sig.add_model_sig(model_sig)
    project_sig.add_app_sig(app_sig)
    return project_sig


def replay_change_field_simulate(label, inputs):
    """ChangeField(null=False) without initial on a real signature, with and without a type change."""
    from django.db import models
    from django_evolution.mutations import ChangeField
    from django_evolution.errors import SimulationFailure
    from django_evolution.db.state import DatabaseState
    results = []
    for new_type in (None, models.TextField, models.IntegerField):
        project_sig = _project_with_field(models.CharField, {'max_length': 20, 'null': True})
        kw = {'null': False}
        m = ChangeField('TestModel', 'f', field_type=new_type, initial=None, **kw)
        try:
            m.run_simulation(app_label='tests', project_sig=project_sig,
                             database_state=DatabaseState('default', scan=False), database='default')
            results.append({'field_type': getattr(new_type, '__name__', None), 'accepted': True})
        except SimulationFailure as e:
            results.append({'field_type': getattr(new_type, '__name__', None), 'accepted': False})
    bad = [r for r in results if r['accepted']]
    return {'reproduced': bool(bad), 'clause': 'null=False without initial must be rejected', 'runs': results}


def replay_diff_evolutions(label, inputs):
    """The real diff_evolutions() on an Evolver whose simulated signature still holds a model the current models no
    longer have: the residual difference must name that model."""
    from django_evolution.evolve import Evolver
    from django_evolution.signature import ProjectSignature, AppSignature, ModelSignature
    simulated, target = ProjectSignature(), ProjectSignature()
    for sig, names in ((simulated, ['Book', 'Author']), (target, ['Book'])):
        app = AppSignature('tests')
        for n in names:
            app.add_model_sig(ModelSignature(n, 'tests_' + n.lower()))
        sig.add_app_sig(app)
    ev = Evolver.__new__(Evolver)
    ev.project_sig, ev.target_project_sig = simulated, target
    ev._prepare_tasks = lambda: None
    diff = ev.diff_evolutions()
    named = 'Author' in str(diff)
    return {'reproduced': diff.is_empty(ignore_apps=True) or not named, 'diff': str(diff),
            'inputs': {'simulated models': ['Book', 'Author'], 'current models': ['Book']}}


def replay_delete_field_simulate(label, inputs):
    """Native probe of the unique_together clause: fields a, ab, b, ba, c; every unique_together made of 1-2 entries
    over them; every field deleted in turn.  Expected: the deleted name struck from each entry, empty entries dropped,
    every other member kept."""
    import itertools
    from django.db import models
    from django_evolution.mutations import DeleteField
    from django_evolution.db.state import DatabaseState
    from django_evolution.signature import (ProjectSignature, AppSignature, ModelSignature, FieldSignature)
    names = ['a', 'ab', 'b', 'ba', 'c']
    entries = [e for r in (1, 2) for e in itertools.permutations(names, r)]
    for uts in [[e] for e in entries] + [[e1, e2] for e1 in entries[:8] for e2 in entries[5:12]]:
        for victim in names:
            project_sig = ProjectSignature()
            app_sig = AppSignature('tests')
            model_sig = ModelSignature('TestModel', 'tests_testmodel')
            model_sig.add_field_sig(FieldSignature('id', models.AutoField, {'primary_key': True}))
            for n in names:
                model_sig.add_field_sig(FieldSignature(n, models.IntegerField, {}))
            model_sig.unique_together = [tuple(e) for e in uts]
            app_sig.add_model_sig(model_sig)
            project_sig.add_app_sig(app_sig)
            DeleteField('TestModel', victim).run_simulation(
                app_label='tests', project_sig=project_sig, database_state=DatabaseState('default', scan=False),
                database='default')
            want = [tuple(n for n in e if n != victim) for e in uts]
            want = [e for e in want if e]
            got = [tuple(e) for e in model_sig.unique_together]
            if got != want:
                return {'reproduced': True, 'inputs': {'unique_together': [list(e) for e in uts], 'deleted': victim},
                        'got': [list(e) for e in got], 'want': [list(e) for e in want]}
    return {'reproduced': False, 'note': 'all probes satisfy the unique_together clause'}


def replay_add_field_simulate(label, inputs):
    from django.db import models
    from django_evolution.mutations import AddField
    from django_evolution.errors import SimulationFailure
    from django_evolution.db.state import DatabaseState
    if label.startswith('no-shared-container'):
        # ownership probe: after simulating, the new field signature must not hold the mutation's own attribute dict
        for ftype, attrs in ((models.CharField, {'max_length': 10, 'null': True}),
                             (models.ForeignKey, {'related_model': 'tests.TestModel', 'null': True})):
            project_sig = _project_with_field(None, {})
            m = AddField('TestModel', 'f', ftype, initial=None, **attrs)
            m.run_simulation(app_label='tests', project_sig=project_sig,
                             database_state=DatabaseState('default', scan=False), database='default')
            fs = project_sig.get_app_sig('tests').get_model_sig('TestModel').get_field_sig('f')
            if fs.field_attrs is m.field_attrs:
                return {'reproduced': True, 'inputs': {'field_type': ftype.__name__, 'field_attrs': attrs},
                        'observed': 'FieldSignature.field_attrs is the AddField mutation\'s own field_attrs dict'}
        return {'reproduced': False, 'note': 'no sharing observed on the probes'}
    results = []
    for attrs in ({}, {'null': False}, {'max_length': 10}):
        project_sig = _project_with_field(None, {})
        m = AddField('TestModel', 'f', models.CharField, initial=None, **attrs)
        try:
            m.run_simulation(app_label='tests', project_sig=project_sig,
                             database_state=DatabaseState('default', scan=False), database='default')
            results.append({'attrs': attrs, 'accepted': True})
        except SimulationFailure:
            results.append({'attrs': attrs, 'accepted': False})
    bad = [r for r in results if r['accepted']]
    return {'reproduced': bool(bad), 'clause': 'non-null AddField without initial must be rejected', 'runs': results}
