"""C03: the mutation optimiser (mutators/app_mutator.py) - frame obligation and the fallback contract."""
import ast

from pyvc import kinds as K
from pyvc.world import World, LoopInv
from pyvc.runner import Family, Syntactic, load_known

APPMUT = 'django_evolution/mutators/app_mutator.py'
MUT = K.Ref('Mutation')
MUTATORS = {'update', 'append', 'add', 'pop', 'remove', 'setdefault', 'extend', 'clear', 'insert', 'discard',
            'popitem', 'sort', 'reverse', '__setitem__', '__delitem__'}


def build():
    w = World('optimizer')
    w.exc('CannotSimulate')
    w.cls('Mutation', {})
    w.cls('AppMutator', {'app_label': K.Str}, module=APPMUT)
    w.ghost_var('cs_raised', K.Bool)
    w.stub('AppMutator._create_mutation_batches', params={'self': K.Ref('AppMutator'), 'mutations': K.Seq(MUT)},
           returns=K.Seq(K.Tuple(K.Bool, K.Seq(MUT))),
           note='splits the list into maximal runs of model / non-model mutations (builds its batches through an aliased '
                'list inside a tuple, which the value-semantic engine cannot follow: bounded native suite only)')
    w.stub('AppMutator._process_mutation_batch',
           params={'self': K.Ref('AppMutator'), 'mutation_batch': K.Tuple(K.Bool, K.Seq(MUT))},
           returns=K.Seq(MUT), may_raise=['CannotSimulate'], effects_exc=['cs_raised = True'],
           note='the 500-line optimiser proper: bounded native suite (result equivalence) + frame scan')
    w.contract(
        'AppMutator._preprocess_mutations', module=APPMUT, serves=['C03'],
        params={'self': K.Ref('AppMutator'), 'mutations': K.Seq(MUT)}, returns=K.Seq(MUT),
        requires=['not cs_raised'], modifies=['cs_raised'],
        locals={'result_mutations': K.Seq(MUT)},
        invariants={1: LoopInv('for mutation_batch in mutation_batches:', index='b', clauses=['not cs_raised'])},
        ensures=[
            # a sequence that cannot be simulated is handed on exactly as given (never half-optimised)
            'implies(cs_raised, result == mutations)'])
    fam = Family('contracts.optimizer', w)
    fam.syntactic.append(Syntactic('optimizer_frame', ['C03'], syn_frame,
                                   'frame obligation "processing does not alter the evolution definitions": no statement of '
                                   'AppMutator._process_mutation_batch / _copy_change_attrs / _rename_dict_key writes to an object '
                                   'reachable from the mutations it is given (conservative def-use scan of the real AST)'))
    fam.replay['syntactic:optimizer_frame'] = replay_twice
    return fam


# ------------------------------------------------------------------------------------------ frame scan

def frame_offenders(func, params):
    """Statements of `func` that may write to an object reachable from the parameters `params`."""
    tainted = set(params)       # names that may denote an argument-reachable object
    holds = set()               # fresh local containers holding such objects

    def taint_of(e):
        """'T' (argument-reachable object), 'H' (fresh container holding some), or None."""
        if isinstance(e, ast.Name):
            return 'T' if e.id in tainted else ('H' if e.id in holds else None)
        if isinstance(e, (ast.Attribute, ast.Subscript)):
            b = taint_of(e.value)
            return 'T' if b in ('T', 'H') else None
        if isinstance(e, ast.Call):
            if isinstance(e.func, ast.Attribute):
                b = taint_of(e.func.value)
                if b in ('T', 'H'):
                    return 'T'          # d.get(k), d.pop(k), d.setdefault(k, v), list(d.values())...
            args = list(e.args) + [k.value for k in e.keywords]
            inner = [taint_of(a) for a in args]
            if any(inner):
                return 'H' if isinstance(e.func, ast.Name) and e.func.id in ('list', 'set', 'dict', 'tuple', 'sorted',
                                                                             'OrderedDict', 'reversed', 'enumerate', 'zip') \
                    else 'T'
            return None
        if isinstance(e, (ast.List, ast.Tuple, ast.Set)):
            return 'H' if any(taint_of(x) for x in e.elts) else None
        if isinstance(e, ast.Dict):
            return 'H' if any(taint_of(x) for x in list(e.values) + [k for k in e.keys if k is not None]) else None
        if isinstance(e, (ast.ListComp, ast.SetComp, ast.GeneratorExp, ast.DictComp)):
            return 'H' if any(taint_of(g.iter) for g in e.generators) else None
        if isinstance(e, ast.IfExp):
            r = [taint_of(e.body), taint_of(e.orelse)]
            return 'T' if 'T' in r else ('H' if 'H' in r else None)
        if isinstance(e, ast.BoolOp):
            r = [taint_of(v) for v in e.values]
            return 'T' if 'T' in r else ('H' if 'H' in r else None)
        return None

    def bind(target, t):
        if isinstance(target, ast.Name):
            if t == 'T':
                tainted.add(target.id)
            elif t == 'H':
                holds.add(target.id)
        elif isinstance(target, (ast.Tuple, ast.List)):
            for x in target.elts:
                bind(x, 'T' if t in ('T', 'H') else None)

    def elem(t):
        return 'T' if t in ('T', 'H') else None

    for _ in range(4):          # fixpoint over loops
        for n in ast.walk(func):
            if isinstance(n, ast.Assign):
                t = taint_of(n.value)
                for tg in n.targets:
                    bind(tg, t)
            elif isinstance(n, ast.For):
                bind(n.target, elem(taint_of(n.iter)))
            elif isinstance(n, ast.comprehension):
                bind(n.target, elem(taint_of(n.iter)))
            elif isinstance(n, ast.Call) and isinstance(n.func, ast.Attribute) and \
                    n.func.attr in ('append', 'add', 'extend', 'update', 'setdefault', 'insert'):
                # a fresh container receiving an argument-reachable object now holds one
                if isinstance(n.func.value, ast.Name) and n.func.value.id not in tainted and \
                        any(taint_of(a) for a in list(n.args) + [k.value for k in n.keywords]):
                    holds.add(n.func.value.id)
            elif isinstance(n, ast.Assign) is False and isinstance(n, ast.Subscript):
                pass
    offenders = []

    def object_write(sub):
        """Is `sub` (an attribute/subscript store target or a mutator-call receiver) a write INTO an
        argument-reachable *object*?  Attribute paths on a tainted value (m.field_name, m.field_attrs[...]) and
        stores through a parameter itself count; item stores into local bookkeeping dicts/lists do not."""
        if isinstance(sub, ast.Attribute):
            return taint_of(sub.value) == 'T'
        if isinstance(sub, ast.Subscript):
            base = sub.value
            if isinstance(base, ast.Name):
                return base.id in params
            return object_write(base) or (isinstance(base, ast.Attribute) and taint_of(base.value) == 'T')
        if isinstance(sub, ast.Name):
            return sub.id in params
        return False

    for n in ast.walk(func):
        if isinstance(n, (ast.Assign, ast.AugAssign, ast.AnnAssign, ast.Delete)):
            targets = n.targets if isinstance(n, (ast.Assign, ast.Delete)) else [n.target]
            for tg in targets:
                for sub in ([tg] if not isinstance(tg, (ast.Tuple, ast.List)) else tg.elts):
                    if isinstance(sub, (ast.Attribute, ast.Subscript)) and object_write(sub):
                        offenders.append(ast.unparse(n))
        elif isinstance(n, ast.Call) and isinstance(n.func, ast.Attribute) and n.func.attr in MUTATORS:
            recv = n.func.value
            if (isinstance(recv, ast.Attribute) and taint_of(recv.value) == 'T') or \
                    (isinstance(recv, ast.Subscript) and object_write(recv)) or \
                    (isinstance(recv, ast.Name) and recv.id in params):
                offenders.append(ast.unparse(n))
        elif isinstance(n, ast.Call) and isinstance(n.func, ast.Name) and n.func.id in ('setattr', 'delattr'):
            if n.args and taint_of(n.args[0]) == 'T':
                offenders.append(ast.unparse(n))
    return sorted(set(offenders))


def syn_frame():
    from pyvc import extract
    offenders = []
    for qn, params in (('AppMutator._process_mutation_batch', ['mutation_batch']),
                       ('AppMutator._copy_change_attrs', ['source_mutation', 'dest_mutation', 'mutation']),
                       ('AppMutator._rename_dict_key', ['d'])):
        try:
            ex = extract.find(APPMUT, qn)
        except LookupError:
            continue
        names = [a.arg for a in ex.node.args.args if a.arg != 'self']
        for o in frame_offenders(ex.node, names):
            offenders.append('%s: %s' % (qn.split('.')[-1], o))
    listed = set()
    for k in load_known()['findings']:
        if k.get('kind') == 'syntactic' and k.get('name') == 'optimizer_frame':
            listed |= set(k.get('offenders', []))
    new = [o for o in offenders if o not in listed]
    if new:
        return False, 'statements writing to argument-reachable objects that the known-findings file does not list: %r' % new
    return True, '%d writing statements, all listed in known_findings.json (C03-optimizer-rewrites-input)' % len(offenders)


def replay_twice(label, inputs):
    """Process the same mutation objects twice through the real optimiser."""
    from django.db import models
    from adapters import evo_harness as H
    H.setup()
    from django_evolution.mutations import AddField, RenameField
    spec = {'TestModel': {'fields': {'a': ('IntegerField', {})}}}
    muts = [AddField('TestModel', 'b', models.IntegerField, null=True), RenameField('TestModel', 'b', 'c')]
    before = [repr(m) for m in muts]
    r1 = H.simulate_only(spec, muts) if False else None
    first = H.run_mutations(spec, [muts])
    after = [repr(m) for m in muts]
    second = H.run_mutations(spec, [muts])
    return {'reproduced': before != after or (first['error'] is None) != (second['error'] is None),
            'definitions_before': before, 'definitions_after_first_run': after,
            'first_error': first['error'], 'second_error': second['error']}
