"""Specification helpers shared by the contract families."""
import z3

from pyvc import kinds as K


def seq_member(it, e, x):
    """member(e, x): the list e (single-leaf elements) contains x - an uninterpreted predicate with its two defining
    axioms, i.e. a term the solver can match on (an inlined existential under a quantifier offers no trigger)."""
    ln, arr = e.terms
    x = K.coerce(x, e.kind.elem)
    tag = 'member!%s' % arr.sort().range()
    f = it.p.ctx.ufunc(tag, z3.IntSort(), arr.sort(), arr.sort().range(), z3.BoolSort())
    if tag not in it.p.pure_axioms:
        it.p.pure_axioms.add(tag)
        L, A, N, Q = (z3.Int(tag + '!L'), z3.Const(tag + '!A', arr.sort()), z3.Const(tag + '!N', arr.sort().range()),
                      z3.Int(tag + '!Q'))
        wit = it.p.ctx.ufunc(tag + '!wit', z3.IntSort(), arr.sort(), arr.sort().range(), z3.IntSort())
        w_ = wit(L, A, N)
        it.p.assume(z3.ForAll([L, A, N], z3.Implies(f(L, A, N), z3.And(0 <= w_, w_ < L, z3.Select(A, w_) == N)),
                              patterns=[f(L, A, N)]))
        it.p.assume(z3.ForAll([L, A, N, Q], z3.Implies(z3.And(0 <= Q, Q < L, z3.Select(A, Q) == N), f(L, A, N)),
                              patterns=[z3.MultiPattern(f(L, A, N), z3.Select(A, Q))]))
    return K.vbool(f(ln, arr, x.t))
