"""Locate the real functions in /repo's working tree (re-read on every run)."""
import ast
import hashlib
import os

REPO = os.environ.get('VERIF_REPO', '/repo')

_cache = {}


def module_ast(relpath):
    path = os.path.join(REPO, relpath)
    if path not in _cache:
        with open(path, 'r', encoding='utf-8') as fp:
            src = fp.read()
        _cache[path] = (ast.parse(src, filename=path), src)
    return _cache[path]


def clear_cache():
    _cache.clear()


class Extracted:
    def __init__(self, relpath, qualname, node, cls_node, src, tree):
        self.relpath, self.qualname, self.node = relpath, qualname, node
        self.cls_node, self.src, self.tree = cls_node, src, tree
        seg = ast.get_source_segment(src, node)
        self.text = seg
        self.sha256 = hashlib.sha256(seg.encode('utf-8')).hexdigest()
        self.lineno = node.lineno
        self.dropped = []
        if ast.get_docstring(node) is not None:
            self.dropped.append('docstring')
        self.decorators = [ast.unparse(d) for d in node.decorator_list]
        if self.decorators:
            self.dropped.append('decorators %s (re-modelled by the engine)' % self.decorators)

    def seg(self, node):
        return ast.get_source_segment(self.src, node)


def find(relpath, qualname):
    """qualname: 'func' or 'Class.method' (or 'Class.method.inner')."""
    tree, src = module_ast(relpath)
    parts = qualname.split('.')
    body, cls_node, node = tree.body, None, None
    for i, p in enumerate(parts):
        found = None
        for n in body:
            if isinstance(n, (ast.FunctionDef, ast.ClassDef)) and n.name == p:
                found = n
        if found is None:
            raise LookupError('%s: %s not found (at %r)' % (relpath, qualname, p))
        if isinstance(found, ast.ClassDef):
            cls_node = found
        node = found
        body = found.body
    if not isinstance(node, ast.FunctionDef):
        raise LookupError('%s: %s is not a function' % (relpath, qualname))
    return Extracted(relpath, qualname, node, cls_node, src, tree)


def class_node(relpath, clsname):
    tree, src = module_ast(relpath)
    for n in tree.body:
        if isinstance(n, ast.ClassDef) and n.name == clsname:
            return n
    return None


def class_const(relpath, clsname, attr):
    """Value node of a class-level assignment ``attr = <expr>`` (or None)."""
    n = class_node(relpath, clsname)
    if n is None:
        return None
    for st in n.body:
        if isinstance(st, ast.Assign) and len(st.targets) == 1 and \
                isinstance(st.targets[0], ast.Name) and st.targets[0].id == attr:
            return st.value
    return None


def module_binds(relpath, name):
    """Does the real module bind `name` at top level (import, def, class, assignment)?"""
    tree, src = module_ast(relpath)
    for st in ast.walk(tree):
        if isinstance(st, (ast.Import, ast.ImportFrom)):
            for a in st.names:
                if (a.asname or a.name.split('.')[0]) == name:
                    return True
    for st in tree.body:
        if isinstance(st, (ast.FunctionDef, ast.ClassDef)) and st.name == name:
            return True
        if isinstance(st, ast.Assign) and any(isinstance(t, ast.Name) and t.id == name for t in st.targets):
            return True
    return False


def module_const(relpath, name):
    tree, src = module_ast(relpath)
    for st in tree.body:
        if isinstance(st, ast.Assign) and len(st.targets) == 1 and \
                isinstance(st.targets[0], ast.Name) and st.targets[0].id == name:
            return st.value
    return None
