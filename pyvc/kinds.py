"""Kinds (static sorts) and symbolic values for the pyvc engine.

Every symbolic value is ``V(kind, terms)``: a kind plus a flat list of z3
terms (its *leaves*).  Composite kinds (Opt, Tuple, Rec, Seq, Set, Map) are
flattened, so a heap field or a sequence element of composite kind is simply
stored in several parallel SMT arrays.  Nothing here looks at /repo.
"""
import z3

_sorts = {}


def usort(name):
    if name not in _sorts:
        _sorts[name] = z3.DeclareSort(name)
    return _sorts[name]


def _pattern_ok(t):
    todo, seen = [t], 0
    while todo:
        x = todo.pop()
        seen += 1
        if seen > 200 or z3.is_quantifier(x):
            return False
        if z3.is_app(x):
            if x.decl().kind() in (z3.Z3_OP_ITE, z3.Z3_OP_AND, z3.Z3_OP_OR, z3.Z3_OP_NOT, z3.Z3_OP_EQ,
                                   z3.Z3_OP_LE, z3.Z3_OP_GE, z3.Z3_OP_LT, z3.Z3_OP_GT, z3.Z3_OP_CONST_ARRAY):
                return False
            todo += x.children()
    return True


def forall(vs, body, patterns=()):
    """ForAll with e-matching patterns when z3 accepts them, without otherwise."""
    patterns = [p_ for p_ in patterns if isinstance(p_, z3.PatternRef) or _pattern_ok(p_)]
    if patterns:
        try:
            return z3.ForAll(vs, body, patterns=list(patterns))
        except z3.Z3Exception:
            ok = []
            for p_ in patterns:
                try:
                    z3.ForAll(vs, body, patterns=[p_])
                    ok.append(p_)
                except z3.Z3Exception:
                    pass
            if ok:
                return z3.ForAll(vs, body, patterns=ok)
    return z3.ForAll(vs, body)


class Unsupported(Exception):
    """The engine cannot model this construct: the function is *undecided*."""


class Kind:
    name = 'kind'

    def leaf_sorts(self):
        raise NotImplementedError

    def nleaves(self):
        return len(self.leaf_sorts())

    def fresh(self, ctx, name):
        return V(self, [ctx.fresh_const(name + '!' + str(i), s)
                        for i, s in enumerate(self.leaf_sorts())])

    def default_terms(self):
        return [default_of(s) for s in self.leaf_sorts()]

    def __repr__(self):
        return self.name

    def __eq__(self, other):
        return isinstance(other, Kind) and repr(self) == repr(other)

    def __hash__(self):
        return hash(repr(self))


def default_of(sort):
    if sort == z3.IntSort():
        return z3.IntVal(0)
    if sort == z3.BoolSort():
        return z3.BoolVal(False)
    if sort == z3.StringSort():
        return z3.StringVal('')
    if sort.kind() == z3.Z3_ARRAY_SORT:
        return z3.K(sort.domain(), default_of(sort.range()))
    return z3.Const('default!' + str(sort), sort)


class _Int(Kind):
    name = 'Int'

    def leaf_sorts(self):
        return [z3.IntSort()]


class _Bool(Kind):
    name = 'Bool'

    def leaf_sorts(self):
        return [z3.BoolSort()]


class _Str(Kind):
    name = 'Str'

    def leaf_sorts(self):
        return [z3.StringSort()]


class _None(Kind):
    name = 'NoneK'

    def leaf_sorts(self):
        return []


Int, Bool, Str, NoneK = _Int(), _Bool(), _Str(), _None()


class Atom(Kind):
    """Opaque values of which only identity/equality matters."""

    def __init__(self, sort_name):
        self.sort_name = sort_name
        self.name = 'Atom(%s)' % sort_name

    def leaf_sorts(self):
        return [usort(self.sort_name)]


class Ref(Kind):
    """Reference to a heap object of (static) class ``cls``; never None."""

    def __init__(self, cls):
        self.cls = cls
        self.name = 'Ref(%s)' % cls

    def leaf_sorts(self):
        return [z3.IntSort()]


class Opt(Kind):
    def __init__(self, inner):
        assert not isinstance(inner, (Opt, _None)), inner
        self.inner = inner
        self.name = 'Opt(%r)' % (inner,)

    def leaf_sorts(self):
        return [z3.BoolSort()] + self.inner.leaf_sorts()


def optk(kind):
    """Opt(kind), without nesting."""
    return kind if isinstance(kind, Opt) else Opt(kind)


class Tuple(Kind):
    def __init__(self, *items):
        self.items = list(items)
        self.name = 'Tuple(%s)' % ', '.join(map(repr, items))

    def leaf_sorts(self):
        out = []
        for k in self.items:
            out += k.leaf_sorts()
        return out


class Packed(Kind):
    """A tuple packed into ONE datatype-sorted leaf, so that it can key a dict (Map needs single-leaf keys)."""
    _sorts = {}

    def __init__(self, *items):
        self.items = list(items)
        self.tuple = Tuple(*items)
        self.name = 'Packed(%s)' % ', '.join(map(repr, items))
        sorts = self.tuple.leaf_sorts()
        key = tuple(str(x) for x in sorts)
        if key not in Packed._sorts:
            dt = z3.Datatype('Pk_' + '_'.join(str(x).replace(' ', '').replace('(', '').replace(')', '') for x in sorts))
            dt.declare('mk', *[('f%d' % i, x) for i, x in enumerate(sorts)])
            Packed._sorts[key] = dt.create()
        self.dt = Packed._sorts[key]

    def leaf_sorts(self):
        return [self.dt]


def pack(v, kind):
    t = coerce(v, kind.tuple)
    return V(kind, [kind.dt.mk(*t.terms)])


def unpack(v):
    k = v.kind
    return V(k.tuple, [k.dt.accessor(0, i)(v.t) for i in range(len(k.tuple.leaf_sorts()))])


class Rec(Kind):
    """dict used as a record: constant string keys, heterogeneous values.

    Each key has a presence flag, so ``'k' in d`` and KeyError are modelled.
    """

    def __init__(self, **fields):
        self.fields = dict(fields)
        self.name = 'Rec(%s)' % ', '.join('%s=%r' % kv
                                           for kv in sorted(fields.items(), key=lambda kv: kv[0]))

    def leaf_sorts(self):
        out = []
        for k in self.fields:
            out += [z3.BoolSort()] + self.fields[k].leaf_sorts()
        return out

    def slot(self, key):
        off = 0
        for k, kind in self.fields.items():
            n = 1 + kind.nleaves()
            if k == key:
                return off, kind
            off += n
        raise KeyError(key)


class Seq(Kind):
    """list: (len, one array Int->leaf per leaf of the element kind)."""

    def __init__(self, elem):
        self.elem = elem
        self.name = 'Seq(%r)' % (elem,)

    def leaf_sorts(self):
        return [z3.IntSort()] + [z3.ArraySort(z3.IntSort(), s)
                                 for s in self.elem.leaf_sorts()]


def nested_array_sort(dom_sorts, rng):
    out = rng
    for d in reversed(dom_sorts):
        out = z3.ArraySort(d, out)
    return out


def nsel(arr, terms):
    for t in terms:
        arr = z3.Select(arr, t)
    return arr


def nstore(arr, terms, val):
    if len(terms) == 1:
        return z3.Store(arr, terms[0], val)
    return z3.Store(arr, terms[0], nstore(z3.Select(arr, terms[0]), terms[1:], val))


class Set(Kind):
    """set: (size, membership array - nested over the leaves of the element kind)."""

    def __init__(self, elem):
        if elem.nleaves() < 1:
            raise Unsupported('Set of leafless kind %r' % (elem,))
        self.elem = elem
        self.name = 'Set(%r)' % (elem,)

    def leaf_sorts(self):
        return [z3.IntSort(), nested_array_sort(self.elem.leaf_sorts(), z3.BoolSort())]


class Map(Kind):
    """dict with single-leaf keys.

    leaves: [cnt, n, order, dom, pos, *value arrays].  ``order[0:n]`` is the
    insertion log; entry ``i`` is *live* iff ``dom[order[i]] and
    pos[order[i]] == i`` (deleting a key leaves a tombstone, re-inserting it
    appends a new entry - Python's dict order).  ``cnt`` = number of live
    keys = ``len(d)``.
    """

    def __init__(self, key, val):
        if key.nleaves() != 1:
            raise Unsupported('Map with multi-leaf key %r' % (key,))
        self.key, self.val = key, val
        self.name = 'Map(%r, %r)' % (key, val)

    def leaf_sorts(self):
        ks = self.key.leaf_sorts()[0]
        return ([z3.IntSort(), z3.IntSort(), z3.ArraySort(z3.IntSort(), ks),
                 z3.ArraySort(ks, z3.BoolSort()), z3.ArraySort(ks, z3.IntSort())] +
                [z3.ArraySort(ks, s) for s in self.val.leaf_sorts()])


class Fun(Kind):
    """Ghost-only total function (key leaves -> value leaves), stored as nested arrays."""

    def __init__(self, key, val):
        self.key, self.val = key, val
        self.name = 'Fun(%r, %r)' % (key, val)

    def leaf_sorts(self):
        return [nested_array_sort(self.key.leaf_sorts(), s) for s in self.val.leaf_sorts()]


def fun_get(f, key):
    ts = coerce(key, f.kind.key).terms
    return V(f.kind.val, [nsel(a, ts) for a in f.terms])


def fun_set(f, key, val):
    ts = coerce(key, f.kind.key).terms
    val = coerce(val, f.kind.val)
    return V(f.kind, [nstore(a, ts, t) for a, t in zip(f.terms, val.terms)])


class V:
    """A symbolic value: kind + flat list of z3 terms."""
    __slots__ = ('kind', 'terms', 'origin')

    def __init__(self, kind, terms):
        self.kind = kind
        self.terms = list(terms)
        self.origin = None      # (heap key, field kind, owner ref) of a container read from an object and not copied
        assert len(self.terms) == kind.nleaves(), (kind, terms)

    def __repr__(self):
        return 'V(%r, %s)' % (self.kind, self.terms)

    @property
    def t(self):
        assert len(self.terms) == 1, self
        return self.terms[0]


NONE = V(NoneK, [])


def vint(x):
    return V(Int, [z3.IntVal(x) if isinstance(x, int) else x])


def vbool(x):
    return V(Bool, [z3.BoolVal(x) if isinstance(x, bool) else x])


def vstr(x):
    return V(Str, [z3.StringVal(x) if isinstance(x, str) else x])


def vtuple(vals):
    terms = []
    for v in vals:
        terms += v.terms
    return V(Tuple(*[v.kind for v in vals]), terms)


def tuple_items(v):
    out, off = [], 0
    for k in v.kind.items:
        n = k.nleaves()
        out.append(V(k, v.terms[off:off + n]))
        off += n
    return out


def from_py(x):
    """Python constant -> value."""
    if x is None:
        return NONE
    if isinstance(x, bool):
        return vbool(x)
    if isinstance(x, int):
        return vint(x)
    if isinstance(x, str):
        return vstr(x)
    if isinstance(x, (tuple, list)):
        return vtuple([from_py(e) for e in x])
    raise Unsupported('constant %r' % (x,))


def opt_some(v):
    if isinstance(v.kind, Opt):
        return v
    return V(Opt(v.kind), [z3.BoolVal(False)] + v.terms)


def opt_none(kind):
    return V(Opt(kind), [z3.BoolVal(True)] + kind.default_terms())


def opt_isnone(v):
    return v.terms[0]


def opt_inner(v):
    return V(v.kind.inner, v.terms[1:])


def coerce(v, kind):
    """Convert ``v`` to ``kind`` where Python would treat it as the same value."""
    if v.kind == kind:
        return v
    if isinstance(kind, Opt):
        if v.kind is NoneK or isinstance(v.kind, _None):
            return opt_none(kind.inner)
        if isinstance(v.kind, Opt):
            inner = coerce(opt_inner(v), kind.inner)
            return V(kind, [opt_isnone(v)] + inner.terms)
        return opt_some(coerce(v, kind.inner))
    if isinstance(kind, Packed) and isinstance(v.kind, Tuple):
        return pack(v, kind)
    if isinstance(v.kind, Packed) and isinstance(kind, (Tuple, Packed)):
        return coerce(unpack(v), kind)
    if isinstance(kind, Tuple) and isinstance(v.kind, Tuple) and \
            len(kind.items) == len(v.kind.items):
        return vtuple_k(kind, [coerce(e, k) for e, k in zip(tuple_items(v), kind.items)])
    if isinstance(kind, Ref) and isinstance(v.kind, Ref):
        return V(kind, v.terms)            # static up/down-cast; dtype carries the class
    if isinstance(kind, Seq) and isinstance(v.kind, Tuple):
        # constant tuple used where a list is expected
        out = empty_seq(kind.elem)
        for e in tuple_items(v):
            out = seq_append(out, coerce(e, kind.elem))
        return out
    if isinstance(kind, Seq) and isinstance(v.kind, Seq) and v.kind.elem is None:
        return empty_seq(kind.elem)
    if isinstance(kind, Seq) and isinstance(v.kind, Seq):
        n = z3.simplify(seq_len(v))
        if z3.is_int_value(n) and n.as_long() <= 16:
            out = empty_seq(kind.elem)
            for j in range(n.as_long()):
                out = seq_append(out, coerce(seq_get(v, z3.IntVal(j)), kind.elem))
            return out
    if isinstance(kind, Rec) and isinstance(v.kind, Rec):
        terms = []
        for k, kk in kind.fields.items():
            if k in v.kind.fields:
                off, vk = v.kind.slot(k)
                inner = coerce(V(vk, v.terms[off + 1:off + 1 + vk.nleaves()]), kk)
                terms += [v.terms[off]] + inner.terms
            else:
                terms += [z3.BoolVal(False)] + kk.default_terms()
        for k in v.kind.fields:
            if k not in kind.fields:
                raise Unsupported('record key %r not declared in %r' % (k, kind))
        return V(kind, terms)
    if isinstance(v.kind, Atom) and v.kind.sort_name == 'Opaque' and kind.nleaves() == 1 and \
            not isinstance(kind, (Ref, Atom)):
        # an unmodelled (opaque) value used where a string / number is expected: an unconstrained value of that kind,
        # a function of the opaque value
        f = z3.Function('opq2!%s' % kind, v.t.sort(), kind.leaf_sorts()[0])
        return V(kind, [f(v.t)])
    raise Unsupported('cannot coerce %r to %r' % (v.kind, kind))


def vtuple_k(kind, vals):
    terms = []
    for v in vals:
        terms += v.terms
    return V(kind, terms)


# ---------------------------------------------------------------- sequences

def empty_seq(elem):
    k = Seq(elem)
    return V(k, k.default_terms())


def seq_len(s):
    return s.terms[0]


def seq_get(s, i):
    return V(s.kind.elem, [z3.Select(a, i) for a in s.terms[1:]])


def seq_append(s, e):
    e = coerce(e, s.kind.elem)
    n = s.terms[0]
    return V(s.kind, [n + 1] + [z3.Store(a, n, t) for a, t in zip(s.terms[1:], e.terms)])


def seq_set(s, i, e):
    e = coerce(e, s.kind.elem)
    return V(s.kind, [s.terms[0]] + [z3.Store(a, i, t) for a, t in zip(s.terms[1:], e.terms)])


# --------------------------------------------------------------------- sets

def empty_set(elem):
    k = Set(elem)
    return V(k, k.default_terms())


def set_has(s, e):
    return nsel(s.terms[1], coerce(e, s.kind.elem).terms)


def set_add(s, e):
    ts = coerce(e, s.kind.elem).terms
    return V(s.kind, [s.terms[0] + z3.If(nsel(s.terms[1], ts), 0, 1),
                      nstore(s.terms[1], ts, z3.BoolVal(True))])


def set_remove(s, e):
    ts = coerce(e, s.kind.elem).terms
    return V(s.kind, [s.terms[0] - z3.If(nsel(s.terms[1], ts), 1, 0),
                      nstore(s.terms[1], ts, z3.BoolVal(False))])


# --------------------------------------------------------------------- maps
# leaves: [cnt, n, order, dom, pos, *vals]

def empty_map(key, val):
    k = Map(key, val)
    return V(k, k.default_terms())


def map_len(m):
    return m.terms[0]


def map_has(m, key):
    return z3.Select(m.terms[3], coerce(key, m.kind.key).t)


def map_get(m, key):
    kt = coerce(key, m.kind.key).t
    return V(m.kind.val, [z3.Select(a, kt) for a in m.terms[5:]])


def map_set(m, key, val):
    kt = coerce(key, m.kind.key).t
    val = coerce(val, m.kind.val)
    cnt, n, order, dom, pos = m.terms[:5]
    present = z3.Select(dom, kt)
    return V(m.kind, [z3.If(present, cnt, cnt + 1),
                      z3.If(present, n, n + 1),
                      z3.If(present, order, z3.Store(order, n, kt)),
                      z3.Store(dom, kt, z3.BoolVal(True)),
                      z3.If(present, pos, z3.Store(pos, kt, n))] +
             [z3.Store(a, kt, t) for a, t in zip(m.terms[5:], val.terms)])


def map_del(m, key):
    """Caller has established that the key is present."""
    kt = coerce(key, m.kind.key).t
    cnt, n, order, dom, pos = m.terms[:5]
    return V(m.kind, [cnt - 1, n, order, z3.Store(dom, kt, z3.BoolVal(False)), pos] +
             m.terms[5:])


def map_live(m, i):
    """Is entry i of the insertion log a live key?"""
    cnt, n, order, dom, pos = m.terms[:5]
    k = z3.Select(order, i)
    return z3.And(z3.Select(dom, k), z3.Select(pos, k) == i)


def map_key_at(m, i):
    return V(m.kind.key, [z3.Select(m.terms[2], i)])


def map_wf(m):
    """Well-formedness of a dict's insertion-order bookkeeping (assumed for inputs)."""
    cnt, n, order, dom, pos = m.terms[:5]
    k = z3.Const('wf!k', m.kind.key.leaf_sorts()[0])
    return z3.And(
        n >= 0, cnt >= 0, cnt <= n,
        forall([k], z3.Implies(z3.Select(dom, k),
                               z3.And(0 <= z3.Select(pos, k), z3.Select(pos, k) < n,
                                      z3.Select(order, z3.Select(pos, k)) == k)),
               patterns=[z3.Select(dom, k), z3.Select(pos, k)]),
        z3.Implies(cnt == 0, z3.ForAll([k], z3.Not(z3.Select(dom, k)))))
