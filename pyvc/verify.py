"""pyvc driver: explore all paths of one real function against its contract, discharge VCs."""
import ast
import os
import sys
import subprocess
import tempfile
import time
import z3

from . import kinds as K
from .kinds import V, Unsupported
from .engine import Ctx, Path, PathEnd, Return_, Break_, Continue_, PyRaise, PyObj, simp
from .stmts import Exec
from . import extract

ALLOWED_DECORATORS = {'classmethod', 'staticmethod', 'property', 'contextmanager', 'receiver'}
MAX_PATHS = int(os.environ.get('PYVC_MAX_PATHS', '4000'))
TIMEOUT_MS = int(os.environ.get('PYVC_TIMEOUT_MS', '20000'))


class FunctionReport:
    def __init__(self, contract):
        self.contract = contract
        self.name = contract.name
        self.obligations = []      # Obligation objects (per path instance)
        self.paths = 0
        self.completed_paths = 0
        self.undecided = None      # reason string if the engine could not model the function
        self.extracted = None
        self.called = set()
        self.inlined = set()
        self.used_abstract = set()
        self.abstracted_text = {}
        self.cut_hit = False
        self.wall_s = 0.0
        self.exits = {'normal': 0, 'raise': 0}
        self.interp_samples = []

    def named(self):
        """Aggregate per obligation label."""
        out = {}
        for ob in self.obligations:
            d = out.setdefault(ob.label, {'label': ob.label, 'kind': ob.kind, 'instances': 0,
                                          'result': 'discharged', 'ms': 0, 'solver': set(),
                                          'line': ob.lineno, 'cex': None})
            d['instances'] += 1
            d['ms'] += ob.ms
            if getattr(ob, 'crosscheck', None):
                d.setdefault('crosscheck', {}).setdefault(ob.crosscheck, 0)
                d['crosscheck'][ob.crosscheck] += 1
            if getattr(ob, 'disagreement', False):
                d['disagreement'] = True
            if ob.solver:
                d['solver'].add(ob.solver)
            if ob.result == 'refuted':
                d['result'] = 'refuted'
                d['cex'] = d['cex'] or ob
            elif ob.result == 'unknown' and d['result'] != 'refuted':
                d['result'] = 'unknown'
                if getattr(ob, 'candidate', False) and d['cex'] is None:
                    d['cex'] = ob
        return out


def setup_path(world, contract, ex, ctx, prefix):
    p = Path(ctx, prefix)
    p.alloc = z3.Int('alloc0')
    p.new_refs = []
    p.called, p.inlined, p.used_abstract, p.written = set(), set(), set(), set()
    p.havoc_n = 0
    p.heap_epoch = 0
    p.seq_pos = {}
    p.abstracted_text = {}
    p.last_sorted = None
    p.pure_axioms = set()
    p.cut_hit = False
    p.assume(p.alloc > 0)
    it = Exec(p, world, contract, ex)
    for name, (kind, init) in world.ghost.items():
        p.globals[name] = V(kind, [z3.Const('g0!%s!%d' % (name, i), s)
                                   for i, s in enumerate(kind.leaf_sorts())])
        it.assume_valid(p.globals[name])
    for name, kind in contract.params.items():
        if kind is None:
            continue
        v = V(kind, [z3.Const('in!%s!%d' % (name, i), s)
                     for i, s in enumerate(kind.leaf_sorts())])
        it.env[name] = v
        it.assume_valid(v)
    # parameters of the real signature that the contract does not know (added by a change): unconstrained inputs of
    # the kind of their constant default - any caller-supplied value is possible
    a = ex.node.args if ex is not None else None
    pos = (list(a.posonlyargs) + list(a.args)) if a else []
    defaults = ([None] * (len(pos) - len(a.defaults)) + list(a.defaults)) if a else []
    for arg, d in list(zip(pos, defaults)) + (list(zip(a.kwonlyargs, a.kw_defaults)) if a else []):
        if arg.arg in contract.params or arg.arg in it.env or arg.arg in (contract.vararg, contract.kwarg):
            continue
        if isinstance(d, ast.Constant) and isinstance(d.value, (bool, int, str)):
            kind = K.Bool if isinstance(d.value, bool) else (K.Int if isinstance(d.value, int) else K.Str)
            it.env[arg.arg] = V(kind, [z3.Const('in!%s!0' % arg.arg, kind.leaf_sorts()[0])])
            p.__dict__.setdefault('opaque', set()).add('parameter %s (not in the contract)' % arg.arg)
    it.inputs = dict(it.env)
    if contract.kwarg:
        it.env[contract.kwarg] = PyObj('pykwargs', items={k: it.env[k] for k in contract.kwarg_keys})
    it.spec = True
    for r in contract.requires:
        p.assume(it.truth(it.eval_text(r)))
    it.spec = False
    it.snapshot_old()
    if getattr(contract, 'generator', False):
        it.env['$yield'] = K.empty_seq(contract.returns.elem)
    return p, it


class OldState:
    """Evaluate in the pre-state (environment, heap, ghost state, heap epoch)."""

    def __init__(self, it):
        self.it = it

    def __enter__(self):
        it = self.it
        self.saved = (it.env, it.p.heap, it.p.globals, it.p.heap_epoch)
        it.env, it.p.heap, it.p.globals = dict(it.old_env), dict(it.old_heap), dict(it.old_globals)
        it.p.heap_epoch = getattr(it, 'old_epoch', it.p.heap_epoch)

    def __exit__(self, *a):
        it = self.it
        it.env, it.p.heap, it.p.globals, it.p.heap_epoch = self.saved


def weaken(it, contract, label, goal):
    """Known findings: obligation is proved for every input outside the listed class."""
    guards = getattr(contract, 'known_guards', {}).get(label)
    if not guards:
        return goal
    with OldState(it):
        gs = [it.truth(it.eval_text(g)) for g in guards]
    return z3.Or(goal, *gs)


def frame_check(world, contract, it, p, ex):
    """Everything the function may have changed must be covered by its modifies clause
    (callers assume the rest of the heap and of the ghost state is unchanged)."""
    mods = list(contract.modifies)
    if '*heap' in mods and '*ghost' in mods:
        return
    plain = {m for m in mods if '[' not in m}
    at = {}
    for m in mods:
        if '[' in m:
            key, expr = m[:-1].split('[', 1)
            at.setdefault(key, []).append(expr)
    it.spec = True
    for key, arrs in p.heap.items():
        cls, f = key.split('.')
        owner, kind = world.field_kind(cls, f)
        old = it.old_heap.get(key) or [z3.Const('H0!%s!%d' % (key, i), z3.ArraySort(z3.IntSort(), s_))
                                       for i, s_ in enumerate(kind.leaf_sorts())]
        if all(a.eq(o) for a, o in zip(arrs, old)):
            continue
        if key in plain or '*heap' in plain or any(('%s.%s' % (c, f)) in plain for c in world.classes):
            continue
        exprs = at.get(key) or [e for k2, es in at.items() if k2.split('.')[1] == f for e in es]
        if exprs:
            with OldState(it):
                refs = []
                for e in exprs:
                    v = it.eval_text(e)
                    refs.append(K.opt_inner(v).t if isinstance(v.kind, K.Opt) else v.t)
            r = p.fresh('frame!r', z3.IntSort())
            goal = z3.ForAll([r], z3.Implies(
                z3.And(r > 0, r < it.old_alloc, *[r != x for x in refs]),
                z3.And(*[z3.Select(a, r) == z3.Select(o, r) for a, o in zip(arrs, old)])))
            it.check(goal, 'frame[%s]' % key, 'frame: only the listed objects of %s change' % key, ex.node)
        else:
            it.check(z3.BoolVal(False), 'frame[%s]' % key,
                     'frame: %s is written but not in the modifies clause' % key, ex.node)
    for name, v in p.globals.items():
        old = it.old_globals.get(name)
        if old is None or all(a.eq(o) for a, o in zip(v.terms, old.terms)):
            continue
        if name in plain or '*ghost' in plain:
            continue
        it.check(z3.BoolVal(False), 'frame[ghost %s]' % name,
                 'frame: ghost/module state %s changes but is not in the modifies clause' % name, ex.node)


def run_path(world, contract, ex, ctx, prefix, report):
    p, it = setup_path(world, contract, ex, ctx, prefix)
    exit_kind, result, exc = None, K.NONE, None
    try:
        try:
            it.exec_block(ex.node.body)
            exit_kind = 'normal'
        except Return_ as r:
            exit_kind, result = 'normal', r.value
        except PyRaise as e:
            exit_kind, exc = 'raise', e
        except (Break_, Continue_):
            raise Unsupported('break/continue escaped a loop')
        if exit_kind == 'normal':
            if getattr(contract, 'generator', False):
                result = it.env['$yield']
            if isinstance(result, PyObj):
                if result.tag in ('emptylist', 'emptydict', 'emptyset') and contract.returns is not None \
                        and not isinstance(contract.returns, K._None):
                    result = it.empty_of(contract.returns, result)
                elif contract.returns is not None and not isinstance(contract.returns, K._None):
                    raise Unsupported('returns %r' % (result,))
            elif contract.returns is None:
                pass
            elif not isinstance(contract.returns, K._None):
                result = it.coerce_checked(result, contract.returns, 'result-not-None', ex.node)
            it.result = result
            it.spec = True
            # in postconditions parameter names denote the values passed in (re-binding a parameter is local)
            for pn in contract.params:
                if pn in it.old_env:
                    it.env[pn] = it.old_env[pn]
            for i, e in enumerate(contract.ensures):
                if contract.cut_before and not p.cut_hit:
                    break       # returned before the cut: the cut-point postconditions do not apply
                it.check(weaken(it, contract, 'post[%d]' % i, it.truth(it.eval_text(e))),
                         'post[%d]' % i, 'postcondition', ex.node)
            # call sites treat a conditional `raises` clause as exact, so a normal return must exclude it
            for ek, cond in contract.raises.items():
                if cond is not True and contract.raises_exact:
                    with OldState(it):
                        cnd = it.truth(it.eval_text(cond))
                    it.check(z3.Not(cnd), 'must-raise[%s]' % ek,
                             'normal return excludes the condition under which %s is raised' % ek, ex.node)
            report.exits['normal'] += 1
        else:
            it.exc = exc
            it.spec = True
            for pn in contract.params:
                if pn in it.old_env:
                    it.env[pn] = it.old_env[pn]
            allowed = False
            for ek, cond in contract.raises.items():
                if world.exc_is(exc.kind, ek):
                    allowed = True
                    if cond is True:
                        it.check(z3.BoolVal(True), 'raises-allowed[%s]' % ek,
                                 'exception is one the contract allows unconditionally', ex.node)
                    if cond is not True:
                        with OldState(it):
                            g = it.truth(it.eval_text(cond))
                        it.check(g, 'raises[%s]' % ek, 'exception only under its condition', ex.node)
            if not allowed:
                it.check(weaken(it, contract, 'no-unexpected-exception[%s]' % exc.kind, z3.BoolVal(False)),
                         'no-unexpected-exception[%s]' % exc.kind,
                         'exception freedom (%s)' % exc.origin, ex.node)
            for i, e in enumerate(contract.ensures_exc):
                it.check(weaken(it, contract, 'post_exc[%d]' % i, it.truth(it.eval_text(e))), 'post_exc[%d]' % i, 'exceptional postcondition', ex.node)
            report.exits['raise'] += 1
        frame_check(world, contract, it, p, ex)
        report.completed_paths += 1
        if len(report.interp_samples) < 2:
            report.interp_samples.append(it)
    except PathEnd:
        pass
    for ob in p.obligations:
        ob.path_id = report.paths
        ob.inputs = it.inputs
        ob.interp = it
    report.obligations += p.obligations
    report.called |= p.called
    report.inlined |= p.inlined
    report.used_abstract |= p.used_abstract
    report.opaque = getattr(report, 'opaque', set()) | p.__dict__.get('opaque', set())
    report.dead_exits = getattr(report, 'dead_exits', set()) | p.__dict__.get('dead_exits', set())
    report.abstracted_text.update(p.abstracted_text)
    report.cut_hit = report.cut_hit or p.cut_hit
    return p.new_prefixes


def verify_function(world, contract, discharge=True):
    t0 = time.time()
    rep = FunctionReport(contract)
    try:
        ex = extract.find(contract.module, contract.name.split('#')[0])
    except LookupError as e:
        rep.undecided = 'function not found: %s' % e
        return rep
    rep.extracted = ex
    bad = [d for d in ex.decorators if d.split('(')[0].split('.')[-1] not in ALLOWED_DECORATORS]
    if bad:
        rep.undecided = 'unsupported decorators %s' % bad
        return rep
    ctx = Ctx(world)
    work = [[]]
    try:
        while work:
            prefix = work.pop()
            rep.paths += 1
            if rep.paths > MAX_PATHS:
                raise Unsupported('more than %d paths' % MAX_PATHS)
            work += run_path(world, contract, ex, ctx, prefix, rep)
    except Unsupported as e:
        rep.undecided = 'unsupported: %s' % e
    except RecursionError:
        rep.undecided = 'engine recursion limit'
    if contract.cut_before and not rep.cut_hit and rep.undecided is None:
        rep.undecided = 'cut marker %r not found in source' % contract.cut_before
    def only_hints(stmts):
        return all(t.strip().startswith(('assert ', 'use_lemma(')) for t in stmts)
    for prefix in list(contract.abstract) + list(contract.ghost_in_body) + list(contract.ghost_before):
        if prefix not in rep.used_abstract and rep.undecided is None:
            extra = contract.ghost_in_body.get(prefix) or contract.ghost_before.get(prefix)
            if prefix not in contract.abstract and extra is not None and only_hints(extra):
                continue        # a pure proof hint whose statement is gone: the proof simply has to do without it
            rep.undecided = 'abstraction anchor %r not found in source' % prefix
    if rep.undecided is None and getattr(rep, 'dead_exits', None):
        rep.undecided = 'vacuity: ' + '; '.join(sorted(rep.dead_exits))
    if discharge and rep.undecided is None:
        discharge_all(rep.obligations)
    rep.wall_s = time.time() - t0
    return rep


def discharge_all(obligations, timeout_ms=None):
    thorough = os.environ.get('VERIF_TIER_EFFECTIVE') == 'thorough'
    for ob in obligations:
        discharge(ob, (timeout_ms or TIMEOUT_MS) * (3 if thorough else 1))
        if thorough and ob.result == 'discharged' and ob.solver != 'simplifier':
            crosscheck(ob)


def crosscheck(ob):
    """Thorough tier: a second solver must not contradict a discharge (disagreement = checker defect)."""
    g, _sk = _skolemize_goal(simp(ob.goal))
    s = z3.Solver()
    for h in ob.hyps:
        s.add(h)
    s.add(z3.Not(g))
    other = 'cvc5' if not str(ob.solver).startswith('cvc5') else 'z3'
    if other == 'cvc5':
        r = cvc5_check(s, 10000)
    else:
        r = z3_cli_check(s, 10000) or 'unknown'
    ob.crosscheck = '%s:%s' % (other, r)
    if r == 'sat' and other == 'z3':
        ob.disagreement = True      # z3 with MBQI found a model of hypotheses + negated goal


def discharge(ob, timeout_ms):
    t0 = time.time()
    g = simp(ob.goal)
    if z3.is_true(g):
        ob.result, ob.solver = 'discharged', 'simplifier'
        ob.ms = 0
        return
    ob.solver = 'z3-' + z3.get_version_string()
    r = z3.unknown
    s = None
    if z3.is_false(g):
        # an unconditional failure on a path the engine found feasible: only a vacuous path could discharge it
        timeout_ms = min(timeout_ms, 4000)
    g, _sk = _skolemize_goal(g)
    hints = _ground_hints(g)
    # portfolio: (1) pure e-matching (fast, can only prove), (2) default z3 incl. MBQI (proves or refutes)
    EM = {'smt.mbqi': False, 'smt.auto_config': False}
    # last stage: pure e-matching once more with the full budget - some proofs need 10-15 s of instantiation when
    # the machine is busy, which the quick first stage cuts off
    for cfg, budget in ((EM, min(timeout_ms, 5000)),
                        ('cvc5', min(timeout_ms, 15000) if not z3.is_false(g) else 0),
                        ({}, timeout_ms),
                        (dict(EM, retry=True), timeout_ms if not z3.is_false(g) else 0)):
        if cfg == 'cvc5':
            if s is not None and budget and cvc5_check(s, budget) == 'unsat':
                r = z3.unsat
                ob.solver = 'cvc5-1.0.3'
                break
            continue
        if isinstance(cfg, dict) and cfg.get('retry'):
            if r != z3.unknown or not budget or getattr(ob, 'cli_answer', None) == 'sat':
                break
            cfg = EM
        s = z3.Solver()
        s.set('timeout', budget)
        for k_, v_ in cfg.items():
            s.set(k_, v_)
        for h in ob.hyps:
            s.add(h)
        s.add(z3.Not(g))
        for h in hints:
            s.add(h)
        if not cfg:
            cli = z3_cli_check(s, budget)
            if cli is not None:
                # 'sat' from the separate process carries no model here: the candidate-model path below decides
                r = z3.unsat if cli == 'unsat' else z3.unknown
                ob.cli_answer = cli
                if r == z3.unsat:
                    ob.solver += ' (cli)'
                    break
                continue
        r = timed_check(s, budget)
        if r == z3.unsat:
            ob.solver = 'z3-' + z3.get_version_string() + (' (e-matching)' if cfg else '')
            break
        if r == z3.sat and not cfg:
            break
        if r == z3.sat and cfg:
            r = z3.unknown      # without MBQI a 'sat' is not a model of the quantified hypotheses
    if r == z3.unsat:
        ob.result = 'discharged'
    elif r == z3.sat:
        ob.result = 'refuted'
        ob.model = s.model()
    else:
        ob.result = 'unknown'
        ob.reason = getattr(ob, 'cli_answer', None) and ('z3 (separate process): %s' % ob.cli_answer) or s.reason_unknown()
        # candidate counter-model from the quantifier-free part of the hypotheses: possibly spurious,
        # so it only ever counts after the replay adapter reproduces it on the real code
        try:
            s2 = z3.Solver()
            s2.set('timeout', 5000)
            for h in ob.hyps:
                if not _has_quantifier(h):
                    s2.add(h)
            if not _has_quantifier(g):
                s2.add(z3.Not(g))
            if timed_check(s2, 5000) == z3.sat:
                ob.model = s2.model()
                ob.candidate = True
        except z3.Z3Exception:
            pass
    ob.ms = int((time.time() - t0) * 1000)
    ob.smt2_head = None


def _skolemize_goal(g, counter=[0]):
    """forall x. body  ->  body[x0/x] for fresh x0 (proving the instance for arbitrary x0 proves the goal)."""
    consts = []
    while z3.is_quantifier(g) and g.is_forall():
        n = g.num_vars()
        fresh = []
        for i in range(n):
            counter[0] += 1
            name = g.var_name(i)
            if name.startswith('q!'):
                # binder of a specification quantifier: the constant it was built from.  The only facts the path
                # holds about that constant are type invariants of values read through it (valid for every value),
                # and they are needed to use quantified hypotheses about well-typed objects
                fresh.append(z3.Const(name, g.var_sort(i)))
            else:
                fresh.append(z3.Const('sk!%s!%d' % (name, counter[0]), g.var_sort(i)))
        consts += fresh
        g = z3.substitute_vars(g.body(), *reversed(fresh))
    return g, consts


def _ground_hints(formula, limit=60):
    """Ground array-select terms that only occur below a nested quantifier: asserted under a fresh uninterpreted
    predicate so that e-matching can use them as triggers (a conservative extension: the predicate is unconstrained)."""
    hints, seen = [], set()

    def has_var(t, cache={}):
        k = t.get_id()
        if k in cache:
            return cache[k]
        if z3.is_var(t):
            r = True
        elif z3.is_quantifier(t):
            r = True
        else:
            r = any(has_var(c) for c in t.children()) if z3.is_app(t) else False
        cache[k] = r
        return r

    def walk(t, under_q):
        if len(hints) >= limit or t.get_id() in seen and not under_q:
            return
        seen.add(t.get_id())
        if z3.is_quantifier(t):
            walk(t.body(), True)
            return
        if z3.is_app(t):
            if under_q and t.decl().kind() == z3.Z3_OP_SELECT and not has_var(t):
                hints.append(t)
            for c in t.children():
                walk(c, under_q)
    walk(formula, False)
    out = []
    for i, t in enumerate(hints):
        p_ = z3.Function('hint!%s' % t.sort().name().replace(' ', '_'), t.sort(), z3.BoolSort())
        out.append(p_(t))
    return out


def _has_quantifier(t):
    todo, n = [t], 0
    while todo:
        x = todo.pop()
        n += 1
        if z3.is_quantifier(x):
            return True
        if n > 5000:
            return True
        if z3.is_app(x):
            todo += x.children()
    return False


def z3_cli_check(solver, timeout_ms):
    """The default z3 configuration (incl. MBQI) in a separate process with a hard kill: the in-process sequence solver
    has been seen to ignore its timeout for more than an hour."""
    import shutil
    exe = shutil.which('z3-new') or shutil.which('z3')
    if not exe:
        return None
    try:
        text = solver.to_smt2()
    except Exception:
        return 'unknown'
    scratch = os.environ.get('VERIF_SCRATCH') or tempfile.gettempdir()
    fd, path = tempfile.mkstemp(suffix='.smt2', dir=scratch)
    try:
        with os.fdopen(fd, 'w') as fp:
            fp.write(text)
        sec = max(1, int(timeout_ms / 1000))
        t0 = time.time()
        for extra in ([], ['smt.random_seed=7']):
            try:
                out = subprocess.run([exe, '-smt2', '-T:%d' % sec] + extra + [path], capture_output=True, text=True,
                                     timeout=sec + 10)
            except subprocess.TimeoutExpired:
                return 'unknown'
            first = (out.stdout.strip().split('\n') or [''])[0]
            if first in ('sat', 'unsat'):
                return first
            if time.time() - t0 > sec / 2.0:
                break       # it used its budget: a second seed would double the cost
        return 'unknown'
    finally:
        os.unlink(path)


_CALL = {'start': None, 'budget': 0}


def _watchdog():
    """Worker-side guard: an in-process solver call that overruns its budget by a minute ends the worker (the parent
    reports the function as undecided instead of waiting for ever)."""
    import threading

    def loop():
        while True:
            time.sleep(5)
            st = _CALL['start']
            if st is not None and time.time() - st > _CALL['budget'] / 1000.0 + 60:
                sys.stderr.write('pyvc: solver call overran its budget by 60 s; worker exits\n')
                sys.stderr.flush()
                os._exit(70)
    t = threading.Thread(target=loop, daemon=True)
    t.start()


def timed_check(s, budget_ms):
    _CALL['start'], _CALL['budget'] = time.time(), budget_ms
    try:
        return s.check()
    finally:
        _CALL['start'] = None


def cvc5_check(solver, timeout_ms):
    exe = '/usr/bin/cvc5'
    if not os.path.exists(exe):
        return 'unknown'
    try:
        text = solver.to_smt2()
    except Exception:
        return 'unknown'
    if 'declare-datatypes' in text and False:
        return 'unknown'
    scratch = os.environ.get('VERIF_SCRATCH') or tempfile.gettempdir()
    fd, path = tempfile.mkstemp(suffix='.smt2', dir=scratch)
    try:
        with os.fdopen(fd, 'w') as fp:
            fp.write('(set-logic ALL)\n' + text)
        try:
            out = subprocess.run([exe, '--strings-exp', '--tlimit=%d' % timeout_ms, path],
                                 capture_output=True, text=True, timeout=timeout_ms / 1000 + 5)
        except subprocess.TimeoutExpired:
            return 'unknown'
        first = (out.stdout.strip().split('\n') or [''])[0]
        return first if first in ('sat', 'unsat') else 'unknown'
    finally:
        os.unlink(path)


# ------------------------------------------------------------------ models

class Decoder:
    """Turn a z3 model into plain Python data for the replay adapters."""

    def __init__(self, model, interp):
        self.m = model
        self.it = interp
        self.w = interp.w

    def ev(self, t):
        return self.m.eval(t, model_completion=True)

    def value(self, v, depth=0, heap=None):
        k = v.kind
        if isinstance(k, K._Int):
            return self.ev(v.t).as_long()
        if isinstance(k, K._Bool):
            return z3.is_true(self.ev(v.t))
        if isinstance(k, K._Str):
            s = self.ev(v.t)
            try:
                return s.as_string()
            except Exception:
                return str(s)
        if isinstance(k, K._None):
            return None
        if isinstance(k, K.Atom):
            return '<%s>' % self.ev(v.t)
        if isinstance(k, K.Opt):
            if z3.is_true(self.ev(K.opt_isnone(v))):
                return None
            return self.value(K.opt_inner(v), depth, heap)
        if isinstance(k, K.Tuple):
            return tuple(self.value(e, depth, heap) for e in K.tuple_items(v))
        if isinstance(k, K.Rec):
            out = {}
            for f in k.fields:
                off, fk = k.slot(f)
                if z3.is_true(self.ev(v.terms[off])):
                    out[f] = self.value(V(fk, v.terms[off + 1:off + 1 + fk.nleaves()]), depth, heap)
            return out
        if isinstance(k, K.Seq):
            n = self.ev(K.seq_len(v)).as_long()
            return [self.value(K.seq_get(v, z3.IntVal(i)), depth, heap) for i in range(min(n, 12))]
        if isinstance(k, K.Set):
            return {'<set>': 'size %s' % self.ev(v.terms[0]), 'array': str(self.ev(v.terms[1]))[:200]}
        if isinstance(k, K.Map):
            n = self.ev(v.terms[1]).as_long()
            out = []
            for i in range(min(n, 12)):
                if z3.is_true(self.ev(K.map_live(v, z3.IntVal(i)))):
                    key = K.map_key_at(v, z3.IntVal(i))
                    out.append((self.value(key, depth, heap), self.value(K.map_get(v, key), depth, heap)))
            return {'<dict>': out}
        if isinstance(k, K.Ref):
            r = self.ev(v.t).as_long()
            out = {'<ref>': r}
            if depth < 2:
                dt = self.ev(self.it.p.ctx.dtype(v.t)).as_long()
                cls = next((c for c, i in self.it.p.ctx.class_ids.items() if i == dt), k.cls)
                out['<class>'] = cls
                for c in self.w.mro(cls):
                    for f, fk in self.w.classes.get(c, {}).get('fields', {}).items():
                        key = '%s.%s' % (c, f)
                        arrs = (heap or {}).get(key) or [
                            z3.Const('H0!%s!%d' % (key, i), z3.ArraySort(z3.IntSort(), s))
                            for i, s in enumerate(fk.leaf_sorts())]
                        fv = V(fk, [z3.Select(a, v.t) for a in arrs])
                        try:
                            out[f] = self.value(fv, depth + 1, heap)
                        except Exception as e:      # noqa
                            out[f] = '<undecodable %s>' % e
            return out
        return '<%r>' % (k,)

    def inputs(self, ob):
        out = {}
        for name, v in ob.inputs.items():
            if isinstance(v, V):
                try:
                    out[name] = self.value(v)
                except Exception as e:      # noqa
                    out[name] = '<undecodable %s>' % e
        it = self.it
        saved = (it.env, it.p.heap, it.p.globals, it.spec)
        it.env, it.p.heap, it.p.globals, it.spec = dict(it.old_env), dict(it.old_heap), dict(it.old_globals), True
        try:
            for text in getattr(it.c, 'observe', []):
                try:
                    out['observe:' + text] = self.value(it.eval_text(text))
                except Exception as e:      # noqa
                    out['observe:' + text] = '<undecodable %s>' % e
        finally:
            it.env, it.p.heap, it.p.globals, it.spec = saved
        for name, v in self.it.old_globals.items():
            try:
                out['ghost:' + name] = self.value(v)
            except Exception:
                pass
        return out


def canary(world, contract, rep=None):
    """Vacuity guard: some exit of the function must be reachable under the assumptions made on the way
    (a contradictory requires / stub contract / loop invariant would make every obligation trivially true)."""
    if rep is None:
        rep = verify_function(world, contract, discharge=False)
    if rep.undecided:
        return None
    exits = [ob for ob in rep.obligations
             if ob.label.startswith(('post', 'raises', 'no-unexpected', 'must-raise', 'frame', 'result-not-None'))]
    unknown = False
    for ob in exits[:12]:
        s = z3.Solver()
        s.set('timeout', 3000)
        for h in ob.hyps:
            s.add(h)
        r = s.check()
        if r == z3.sat:
            return True
        if r == z3.unknown:
            unknown = True
    if not exits:
        return None
    return None if unknown else False
