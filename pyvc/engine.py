"""pyvc engine, part 1: path state, decisions, obligations, expression evaluation.

One *run* executes one path of the real function's AST (decision-replay
symbolic execution): branch decisions beyond the given prefix are taken
True-first and the alternative prefix is queued.  Obligations are collected
as (label, path-condition, goal) and discharged by pyvc.solve.
"""
import ast
import z3

from . import kinds as K
from .kinds import V, Unsupported


class PathEnd(Exception):
    """This path stops here (assume False, end of a loop-preservation path...)."""


class Return_(Exception):
    def __init__(self, value):
        self.value = value


class Break_(Exception):
    pass


class Continue_(Exception):
    pass


class PyRaise(Exception):
    """A Python exception raised in the analysed code."""

    def __init__(self, kind, ref=None, origin=''):
        self.kind = kind        # exception class name (concrete)
        self.ref = ref          # V(Ref) of the exception object or None
        self.origin = origin


class PyObj:
    """Non-symbolic helper values: functions, classes, bound methods, modules."""

    def __init__(self, tag, **kw):
        self.tag = tag
        self.__dict__.update(kw)

    def __repr__(self):
        return 'PyObj(%s)' % self.tag


class Obligation:
    def __init__(self, label, kind, hyps, goal, lineno, path_id, func):
        self.label, self.kind, self.hyps, self.goal = label, kind, hyps, goal
        self.lineno, self.path_id, self.func = lineno, path_id, func
        self.result = None
        self.model = None
        self.ms = 0
        self.solver = None


class Ctx:
    """Shared across the paths of one function verification."""

    def __init__(self, world):
        self.world = world
        self.counter = 0
        self.class_ids = {}
        self.dtype = z3.Function('dtype', z3.IntSort(), z3.IntSort())
        self.ufuncs = {}

    def fresh_const(self, name, sort):
        self.counter += 1
        return z3.Const('%s#%d' % (name, self.counter), sort)

    def class_id(self, cls):
        if cls not in self.class_ids:
            self.class_ids[cls] = len(self.class_ids) + 1
        return self.class_ids[cls]

    def ufunc(self, name, *sorts):
        if name not in self.ufuncs:
            self.ufuncs[name] = z3.Function(name, *sorts)
        return self.ufuncs[name]


def simp(t):
    return z3.simplify(t)


def is_true(t):
    return z3.is_true(simp(t))


def is_false(t):
    return z3.is_false(simp(t))


class Path:
    """Mutable state of one path."""

    def __init__(self, ctx, decisions):
        self.ctx = ctx
        self.counter = 0
        self.pc = []
        self.heap = {}          # field key -> list of arrays
        self.globals = {}       # ghost globals
        self.alloc = None
        self.decisions = list(decisions)
        self.taken = []
        self.new_prefixes = []
        self.obligations = []
        self.assumed = []       # notes
        self.solver = z3.Solver()
        self.solver.set('timeout', 400)

    def fresh(self, name, sort):
        self.counter += 1
        return z3.Const('%s!%d' % (name, self.counter), sort)

    def fresh_value(self, kind, name):
        return V(kind, [self.fresh('%s.%d' % (name, i), s)
                        for i, s in enumerate(kind.leaf_sorts())])

    def assume(self, t):
        t = simp(t)
        if z3.is_true(t):
            return
        if z3.is_false(t):
            raise PathEnd()
        self.pc.append(t)
        self.solver.add(t)

    def feasible(self, t):
        self.solver.push()
        self.solver.add(t)
        from . import verify as _v
        r = _v.timed_check(self.solver, 400)
        self.solver.pop()
        return r != z3.unsat

    def decide(self, cond):
        cond = simp(cond)
        if z3.is_true(cond):
            return True
        if z3.is_false(cond):
            return False
        i = len(self.taken)
        if i < len(self.decisions):
            d = self.decisions[i]
        else:
            ft = self.feasible(cond)
            ff = self.feasible(z3.Not(cond))
            if ft and ff:
                self.new_prefixes.append(self.taken + [False])
                d = True
            elif ft:
                d = True
            elif ff:
                d = False
            else:
                raise PathEnd()
        self.taken.append(d)
        self.assume(cond if d else z3.Not(cond))
        return d


# ------------------------------------------------------------------ evaluation

CMP = {ast.Lt: lambda a, b: a < b, ast.LtE: lambda a, b: a <= b,
       ast.Gt: lambda a, b: a > b, ast.GtE: lambda a, b: a >= b}


class Interp:
    """Interprets statements/expressions of one function on one Path."""

    def __init__(self, path, world, contract, extracted, spec=False):
        self.p = path
        self.w = world
        self.c = contract
        self.x = extracted
        self.env = {}
        self.old_env = None
        self.old_heap = None
        self.old_globals = None
        self.spec = spec
        self.result = None
        self.exc = None
        self.depth = 0
        self.loop_ordinal = 0
        self.ghost_locals = {}

    # ---- truthiness / equality ------------------------------------------------
    def truth(self, v):
        if isinstance(v, PyObj):
            return z3.BoolVal(True)
        k = v.kind
        if k is K.Bool or isinstance(k, K._Bool):
            return v.t
        if isinstance(k, K._Int):
            return v.t != 0
        if isinstance(k, K._Str):
            return z3.Length(v.t) > 0
        if isinstance(k, K._None):
            return z3.BoolVal(False)
        if isinstance(k, K.Opt):
            return z3.And(z3.Not(K.opt_isnone(v)), self.truth(K.opt_inner(v)))
        if isinstance(k, K.Ref):
            c = self.w.find_method(k.cls, '__bool__') or self.w.find_method(k.cls, '__len__')
            if c is not None:
                raise Unsupported('truthiness of %r goes through %s' % (k, c.name))
            return z3.BoolVal(True)
        if isinstance(k, K.Seq):
            return K.seq_len(v) > 0
        if isinstance(k, (K.Set, K.Map)):
            return v.terms[0] > 0
        if isinstance(k, K.Tuple):
            return z3.BoolVal(len(k.items) > 0)
        if isinstance(k, K.Rec):
            return z3.Or(*[v.terms[k.slot(f)[0]] for f in k.fields]) if k.fields \
                else z3.BoolVal(False)
        if isinstance(k, K.Atom):
            f = self.p.ctx.ufunc('truthy!' + k.sort_name, k.leaf_sorts()[0], z3.BoolSort())
            return f(v.t)
        raise Unsupported('truthiness of %r' % (k,))

    def eq(self, a, b):
        """Python ``==`` as a z3 Bool."""
        if isinstance(a, PyObj) or isinstance(b, PyObj):
            if isinstance(a, PyObj) and isinstance(b, PyObj):
                return z3.BoolVal(a.tag == b.tag and a.__dict__ == b.__dict__)
            o, v = (a, b) if isinstance(a, PyObj) else (b, a)
            if o.tag == 'module' and isinstance(v, V):
                k = v.kind.inner if isinstance(v.kind, K.Opt) else v.kind
                return self.eq(self.opaque_const(o.name, k), v)
            raise Unsupported('== between %r and %r' % (a, b))
        ka, kb = a.kind, b.kind
        if isinstance(ka, K.Opt) or isinstance(kb, K.Opt):
            if isinstance(ka, K._None):
                return K.opt_isnone(b)
            if isinstance(kb, K._None):
                return K.opt_isnone(a)
            if isinstance(ka, K.Opt) and isinstance(kb, K.Opt):
                return z3.Or(z3.And(K.opt_isnone(a), K.opt_isnone(b)),
                             z3.And(z3.Not(K.opt_isnone(a)), z3.Not(K.opt_isnone(b)),
                                    self.eq(K.opt_inner(a), K.opt_inner(b))))
            if isinstance(ka, K.Opt):
                return z3.And(z3.Not(K.opt_isnone(a)), self.eq(K.opt_inner(a), b))
            return z3.And(z3.Not(K.opt_isnone(b)), self.eq(a, K.opt_inner(b)))
        if isinstance(ka, K._None) or isinstance(kb, K._None):
            return z3.BoolVal(isinstance(ka, K._None) and isinstance(kb, K._None))
        if isinstance(ka, K.Packed) and isinstance(kb, K.Tuple) and len(ka.items) == len(kb.items):
            return a.t == K.pack(b, ka).t
        if isinstance(kb, K.Packed) and isinstance(ka, K.Tuple) and len(ka.items) == len(kb.items):
            return K.pack(a, kb).t == b.t
        if isinstance(ka, K.Tuple) and isinstance(kb, K.Tuple):
            if len(ka.items) != len(kb.items):
                return z3.BoolVal(False)
            return z3.And(*[self.eq(x, y) for x, y in
                            zip(K.tuple_items(a), K.tuple_items(b))]) if ka.items \
                else z3.BoolVal(True)
        if isinstance(ka, K.Rec) and isinstance(kb, K.Rec):
            conj = []
            for f in set(ka.fields) | set(kb.fields):
                if f in ka.fields and f in kb.fields:
                    oa, fa = ka.slot(f)
                    ob_, fb = kb.slot(f)
                    va = V(fa, a.terms[oa + 1:oa + 1 + fa.nleaves()])
                    vb = V(fb, b.terms[ob_ + 1:ob_ + 1 + fb.nleaves()])
                    conj.append(a.terms[oa] == b.terms[ob_])
                    conj.append(z3.Implies(a.terms[oa], self.eq(va, vb)))
                elif f in ka.fields:
                    conj.append(z3.Not(a.terms[ka.slot(f)[0]]))
                else:
                    conj.append(z3.Not(b.terms[kb.slot(f)[0]]))
            return z3.And(*conj) if conj else z3.BoolVal(True)
        if isinstance(ka, K.Ref) and isinstance(kb, K.Ref):
            c = self.w.find_method(ka.cls, '__eq__')
            if c is not None and not getattr(self, 'identity_eq', False):
                if not c.pure:
                    raise Unsupported('== on %r goes through a non-pure __eq__' % (ka,))
                return z3.Or(a.t == b.t, self.truth(self.call_contract(c, [a, b], {}, None)))
            return a.t == b.t
        if isinstance(ka, K.Seq) and isinstance(kb, K.Seq):
            i = self.p.fresh('eq!i', z3.IntSort())
            return z3.And(K.seq_len(a) == K.seq_len(b),
                          z3.ForAll([i], z3.Implies(
                              z3.And(0 <= i, i < K.seq_len(a)),
                              self.eq(K.seq_get(a, i), K.seq_get(b, i)))))
        if isinstance(ka, K.Seq) and isinstance(kb, K.Tuple) or \
                isinstance(ka, K.Tuple) and isinstance(kb, K.Seq):
            return z3.BoolVal(False)      # list == tuple is False in Python
        if isinstance(ka, K.Set) and isinstance(kb, K.Set) and ka == kb:
            return a.terms[1] == b.terms[1]
        if isinstance(ka, (K.Map, K.Fun)) and ka == kb and self.spec:
            # representation equality (implies Python ==); used in specs to say "unchanged"
            return z3.And(*[x == y for x, y in zip(a.terms, b.terms)])
        if ka == kb and ka.nleaves() == 1:
            return a.t == b.t
        if isinstance(ka, (K._Int, K._Bool)) and isinstance(kb, (K._Int, K._Bool)):
            return self.as_int(a) == self.as_int(b)      # True == 1
        if ka.nleaves() == 1 and kb.nleaves() == 1 and \
                ka.leaf_sorts()[0] != kb.leaf_sorts()[0]:
            return z3.BoolVal(False)
        raise Unsupported('== between %r and %r' % (ka, kb))

    def as_int(self, v):
        if isinstance(v.kind, K._Bool):
            return z3.If(v.t, 1, 0)
        if isinstance(v.kind, K._Int):
            return v.t
        raise Unsupported('int of %r' % (v.kind,))

    def identical(self, a, b):
        """Python ``is``."""
        if isinstance(a, V) and isinstance(b, V) and \
                (isinstance(a.kind, K._None) or isinstance(b.kind, K._None)):
            o = b if isinstance(a.kind, K._None) else a
            if isinstance(o.kind, K._None):
                return z3.BoolVal(True)
            return K.opt_isnone(o) if isinstance(o.kind, K.Opt) else z3.BoolVal(False)
        if isinstance(a, V) and isinstance(b, V) and isinstance(a.kind, (K._Str, K._Int)) and a.kind == b.kind \
                and not self.spec:
            # `is` between two strings / numbers: object identity, which equal values do not guarantee (interning is an
            # implementation detail).  Identical objects are equal; nothing more is known.
            same = self.p.fresh('is!same', z3.BoolSort())
            self.p.assume(z3.Implies(same, a.t == b.t))
            return same
        for v in (a, b):
            if isinstance(v, PyObj):
                raise Unsupported('is on %r' % (v,))
            base = v.kind.inner if isinstance(v.kind, K.Opt) else v.kind
            if not isinstance(base, (K.Ref, K._None, K._Bool, K.Atom)):
                raise Unsupported("'is' on value-semantic kind %r" % (v.kind,))
        saved, self.spec = self.spec, True
        saved_id, self.identity_eq = getattr(self, 'identity_eq', False), True
        try:
            return self.eq(a, b)
        finally:
            self.spec = saved
            self.identity_eq = saved_id

    def coerce_checked(self, v, kind, label, node=None):
        """coerce, turning an Opt -> non-Opt narrowing into a proof obligation."""
        if isinstance(v, V) and isinstance(v.kind, K.Opt) and not isinstance(kind, (K.Opt, K._None)):
            self.check(z3.Not(K.opt_isnone(v)), label, 'value is not None', node)
            v = K.opt_inner(v)
        return K.coerce(v, kind)

    # ---- branching ------------------------------------------------------------
    def branch(self, cond):
        """Decide a z3 Bool in code mode."""
        return self.p.decide(cond)

    # ---- obligations ----------------------------------------------------------
    def check(self, goal, label, kind, node=None):
        if label.startswith(('loop', 'ghost-assert')):
            # known findings on invariants / ghost assertions: proved for every state outside the recorded class
            guards = getattr(self.c, 'known_guards', {}).get(label)
            if guards:
                saved, self.spec = self.spec, True
                try:
                    goal = z3.Or(goal, *[self.truth(self.eval_text(g)) for g in guards])
                finally:
                    self.spec = saved
        goal = simp(goal)
        if z3.is_true(goal):
            # still recorded so that the obligation is counted as generated+discharged
            pass
        ob = Obligation(label, kind, list(self.p.pc), goal,
                        getattr(node, 'lineno', 0), None, self.c.name)
        self.p.obligations.append(ob)
        # continue under the assumption that it holds (standard VC practice)
        self.p.assume(goal)

    def implicit_raise(self, cond_ok, exc_kind, what, node):
        """Implicit exception (KeyError, AttributeError...) when ``cond_ok`` is false."""
        if self.spec:
            return      # specs are total: out-of-domain reads are unspecified values
        if self.branch(cond_ok):
            return
        raise PyRaise(exc_kind, None, origin='%s at line %s' % (what, getattr(node, 'lineno', '?')))

    # ---- names ----------------------------------------------------------------
    def lookup(self, name, node=None):
        if name in self.env:
            return self.env[name]
        if name == 'result' and self.result is not None:
            return self.result
        if name in self.ghost_locals:
            return self.ghost_locals[name]
        if not self.spec and not getattr(self, 'ghost_mode', False) and self.x is not None and self.depth == 0:
            # a local of the analysed function read before any assignment on this path
            local_names = getattr(self.x, '_assigned', None)
            if local_names is None:
                from .stmts import stored_names
                local_names = stored_names(self.x.node.body)[0] - {'$yield'}
                self.x._assigned = local_names
            if name in local_names and name not in self.p.globals:
                raise PyRaise('UnboundLocalError', None,
                              'local %r read before assignment at line %s' % (name, getattr(node, 'lineno', '?')))
        if name in self.p.globals:
            return self.p.globals[name]
        if name in self.w.consts:
            c = self.w.consts[name]
            if callable(c) and not isinstance(c, (V, PyObj)):
                c = c()
            return c if isinstance(c, (V, PyObj)) else K.from_py_const(c)
        if name == '__name__':
            return K.vstr(z3.String('module!__name__'))
        if name in ('True', 'False', 'None'):
            return K.from_py({'True': True, 'False': False, 'None': None}[name])
        if name in MODULES or name in self.w.module_names:
            return PyObj('module', name=name)
        if name in self.w.kinds:
            return PyObj('kind', kind=self.w.kinds[name])
        if name in SPEC_BUILTINS or name in BUILTINS:
            return PyObj('builtin', name=name)
        if name in self.w.externals:
            return PyObj('func', contract=self.w.contracts[self.w.externals[name]])
        if name in self.w.contracts and self.w.contracts[name].cls is None:
            return PyObj('func', contract=self.w.contracts[name])
        if name in self.w.classes:
            return PyObj('class', name=name)
        if name in self.w.exceptions:
            return PyObj('excclass', name=name)
        if name in self.w.spec_funcs:
            return PyObj('specfunc', name=name)
        # module-level constant of the real module
        if self.x is not None:
            from . import extract
            n = extract.module_const(self.x.relpath, name)
            if n is not None:
                try:
                    return K.from_py_const(ast.literal_eval(n))
                except Exception:
                    pass
        # a name the real module imports or defines at top level but the sidecar does not model: an opaque object
        # (attribute reads and == on it are unconstrained; calling it stays unsupported)
        if self.x is not None and not self.spec:
            from . import extract
            if extract.module_binds(self.x.relpath, name):
                self.p.__dict__.setdefault('opaque', set()).add('name ' + name)
                return PyObj('module', name=name)
        raise Unsupported('unknown name %r (line %s)' % (name, getattr(node, 'lineno', '?')))

    def opaque_const(self, name, kind):
        """The value of an unmodelled module-level object, as an unconstrained constant of the kind it is compared with."""
        if kind.nleaves() != 1:
            raise Unsupported('comparison of opaque %s with %r' % (name, kind))
        return V(kind, [z3.Const('og!%s!%s' % (name, kind), kind.leaf_sorts()[0])])

    # ---- heap -----------------------------------------------------------------
    def heap_key(self, cls, field):
        owner, kind = self.w.field_kind(cls, field)
        if owner is None:
            return None, None
        return '%s.%s' % (owner, field), kind

    def heap_arrays(self, key, kind):
        if key not in self.p.heap:
            self.p.heap[key] = [z3.Const('H0!%s!%d' % (key, i), z3.ArraySort(z3.IntSort(), s))
                                for i, s in enumerate(kind.leaf_sorts())]
            self.assume_field_valid(kind, self.p.heap[key])
            self.assume_initial_refs_old(kind, self.p.heap[key])
        return self.p.heap[key]

    def assume_initial_refs_old(self, kind, arrs):
        """The state a function starts in only holds references allocated before it started (below alloc0): nothing
        it allocates itself ("fresh") can already be stored anywhere."""
        k, off = (kind.inner, 1) if isinstance(kind, K.Opt) else (kind, 0)
        a0 = z3.Int('alloc0')
        o = self.p.fresh('h0!o', z3.IntSort())
        if isinstance(k, K.Ref):
            self.p.assume(K.forall([o], z3.Select(arrs[off], o) < a0, patterns=[z3.Select(arrs[off], o)]))
        elif isinstance(k, K.Set) and isinstance(k.elem, K.Ref):
            x = self.p.fresh('h0!x', z3.IntSort())
            mem = z3.Select(z3.Select(arrs[off + 1], o), x)
            self.p.assume(K.forall([o, x], z3.Implies(mem, x < a0), patterns=[mem]))
        elif isinstance(k, K.Map) and isinstance(k.val, K.Ref):
            x = self.p.fresh('h0!k', k.key.leaf_sorts()[0])
            val = z3.Select(z3.Select(arrs[off + 5], o), x)
            self.p.assume(K.forall([o, x], val < a0, patterns=[val]))
        elif isinstance(k, K.Seq) and isinstance(k.elem, K.Ref):
            i = self.p.fresh('h0!i', z3.IntSort())
            val = z3.Select(z3.Select(arrs[off + 1], o), i)
            self.p.assume(K.forall([o, i], val < a0, patterns=[val]))

    def ref_valid(self, t, cls):
        ids = [self.p.ctx.class_id(c) for c in self.w.subclasses(cls)] or [self.p.ctx.class_id(cls)]
        return z3.And(t > 0, z3.Or(*[self.p.ctx.dtype(t) == i for i in ids]))

    def assume_field_valid(self, kind, arrs):
        """Type invariants of a whole heap field (all objects), needed under quantifiers."""
        k, off = (kind.inner, 1) if isinstance(kind, K.Opt) else (kind, 0)
        o = self.p.fresh('hv!o', z3.IntSort())
        if isinstance(k, K.Seq):
            self.p.assume(z3.ForAll([o], z3.Select(arrs[off], o) >= 0))
        elif isinstance(k, K.Set):
            size = z3.Select(arrs[off], o)
            xs = [self.p.fresh('hv!x', srt) for srt in k.elem.leaf_sorts()]
            mem = K.nsel(z3.Select(arrs[off + 1], o), xs)
            self.p.assume(z3.ForAll([o], size >= 0))
            self.p.assume(z3.ForAll([o] + xs, z3.Implies(mem, size > 0)))
            if isinstance(k.elem, K.Ref):
                self.p.assume(K.forall([o] + xs, z3.Implies(mem, self.ref_valid(xs[0], k.elem.cls)),
                                       patterns=[mem]))
            # a non-empty set has a member (explicit witness function)
            wit = [self.p.fresh('hv!wit', z3.ArraySort(z3.IntSort(), srt)) for srt in k.elem.leaf_sorts()]
            self.p.assume(K.forall([o], z3.Implies(size > 0, K.nsel(z3.Select(arrs[off + 1], o),
                                                                    [z3.Select(wa, o) for wa in wit])),
                                   patterns=[size]))
        elif isinstance(k, K.Map):
            self.p.assume(z3.ForAll([o], z3.And(z3.Select(arrs[off], o) >= 0, z3.Select(arrs[off + 1], o) >= 0)))

    def heap_read(self, ref, key, kind, heap=None):
        if heap is None:
            arrs = self.heap_arrays(key, kind)
        else:
            arrs = heap.get(key)
            if arrs is None:
                arrs = [z3.Const('H0!%s!%d' % (key, i), z3.ArraySort(z3.IntSort(), s))
                        for i, s in enumerate(kind.leaf_sorts())]
        v = V(kind, [z3.Select(a, ref.t) for a in arrs])
        self.assume_valid(v)
        base = kind.inner if isinstance(kind, K.Opt) else kind
        if heap is None and not self.spec and isinstance(base, (K.Seq, K.Set, K.Map, K.Rec)):
            v.origin = (key, kind, ref)     # the object's own container, not a copy
        return v

    def heap_write(self, ref, key, kind, val):
        org = getattr(val, 'origin', None)
        if org is not None and not self.spec:
            okey, okind, oref = org
            if not (okey == key and oref.t.eq(ref.t)):
                # the value-semantic encoding of lists/dicts/sets is only faithful while every container has one owner
                self.check(z3.BoolVal(False), 'no-shared-container[%s <- %s]' % (key, okey),
                           'a list/dict/set read from %s is stored in %s without being copied: later in-place changes '
                           'through one object would silently change the other' % (okey, key), None)
        val = K.coerce(val, kind)
        self.p.heap_epoch += 1
        arrs = self.heap_arrays(key, kind)
        self.p.heap[key] = [z3.Store(a, ref.t, t) for a, t in zip(arrs, val.terms)]

    def _assume_g(self, guard, t):
        self.p.assume(t if guard is None else z3.Implies(guard, t))

    def assume_valid(self, v, guard=None):
        """Type invariants of a value read from symbolic state (refs allocated, sizes >= 0)."""
        k = v.kind
        if isinstance(k, K.Ref):
            self._assume_g(guard, z3.And(v.t > 0, v.t < self.p.alloc))
            ids = [self.p.ctx.class_id(c) for c in self.w.subclasses(k.cls)] or \
                  [self.p.ctx.class_id(k.cls)]
            self._assume_g(guard, z3.Or(*[self.p.ctx.dtype(v.t) == i for i in ids]))
        elif isinstance(k, K.Opt):
            inner = K.opt_inner(v)
            if isinstance(k.inner, K.Ref):
                ids = [self.p.ctx.class_id(c) for c in self.w.subclasses(k.inner.cls)] or \
                      [self.p.ctx.class_id(k.inner.cls)]
                self._assume_g(guard, z3.Implies(z3.Not(K.opt_isnone(v)), z3.And(
                    inner.t > 0, inner.t < self.p.alloc,
                    z3.Or(*[self.p.ctx.dtype(inner.t) == i for i in ids]))))
            elif isinstance(k.inner, (K.Seq, K.Set, K.Map)):
                self.assume_valid(inner, guard)
        elif isinstance(k, K.Seq):
            self._assume_g(guard, K.seq_len(v) >= 0)
        elif isinstance(k, K.Set):
            self._assume_g(guard, v.terms[0] >= 0)
            xs = [self.p.fresh('sv', srt) for srt in k.elem.leaf_sorts()]
            self._assume_g(guard, z3.Implies(v.terms[0] == 0, z3.ForAll(xs, z3.Not(K.nsel(v.terms[1], xs)))))
            self._assume_g(guard, z3.ForAll(xs, z3.Implies(K.nsel(v.terms[1], xs), v.terms[0] > 0)))
            if isinstance(k.elem, K.Ref):
                self._assume_g(guard, K.forall(xs, z3.Implies(K.nsel(v.terms[1], xs), self.ref_valid(xs[0], k.elem.cls)),
                                       patterns=[K.nsel(v.terms[1], xs)]))
        elif isinstance(k, K.Map):
            self._assume_g(guard, K.map_wf(v))
        elif isinstance(k, K.Tuple):
            for e in K.tuple_items(v):
                self.assume_valid(e, guard)
        elif isinstance(k, K.Rec):
            for f in k.fields:
                off, fk = k.slot(f)
                self.assume_valid(V(fk, v.terms[off + 1:off + 1 + fk.nleaves()]), guard)

    # ---- expression evaluation ------------------------------------------------
    def eval(self, node):
        m = getattr(self, 'e_' + type(node).__name__, None)
        if m is None:
            raise Unsupported('expression %s (line %s)' % (type(node).__name__,
                                                          getattr(node, 'lineno', '?')))
        return m(node)

    def e_Constant(self, node):
        v = node.value
        if isinstance(v, bytes):
            raise Unsupported('bytes constant')
        if isinstance(v, float):
            raise Unsupported('float constant')
        return K.from_py(v)

    def e_Name(self, node):
        return self.lookup(node.id, node)

    def e_Tuple(self, node):
        vals = [self.eval(e) for e in node.elts]
        if any(isinstance(v, PyObj) for v in vals):
            return PyObj('pytuple', items=vals)
        return K.vtuple(vals)

    def e_List(self, node):
        vals = [self.eval(e) for e in node.elts]
        if not vals:
            return V(K.Seq(None), [z3.IntVal(0)]) if False else PyObj('emptylist')
        out = K.empty_seq(vals[0].kind)
        for v in vals:
            out = K.seq_append(out, v)
        return out

    def e_Dict(self, node):
        if not node.keys:
            return PyObj('emptydict')
        fields, terms = {}, []
        for kn, vn in zip(node.keys, node.values):
            if not (isinstance(kn, ast.Constant) and isinstance(kn.value, str)):
                raise Unsupported('dict literal with non-constant key')
            v = self.eval(vn)
            if isinstance(v, PyObj):
                return PyObj('pydict', node=node)
            fields[kn.value] = v.kind
            terms += [z3.BoolVal(True)] + v.terms
        return V(K.Rec(**fields), terms)

    def e_BoolOp(self, node):
        is_and = isinstance(node.op, ast.And)
        if self.spec:
            ts = [self.truth(self.eval(v)) for v in node.values]
            return K.vbool(z3.And(*ts) if is_and else z3.Or(*ts))
        val = None
        for i, vn in enumerate(node.values):
            val = self.eval(vn)
            if i == len(node.values) - 1:
                return val
            t = self.branch(self.truth(val))
            if is_and and not t:
                return val
            if not is_and and t:
                # a truthy value is not None
                return K.opt_inner(val) if isinstance(val, V) and isinstance(val.kind, K.Opt) else val
        return val

    def e_UnaryOp(self, node):
        v = self.eval(node.operand)
        if isinstance(node.op, ast.Not):
            return K.vbool(z3.Not(self.truth(v)))
        if isinstance(node.op, ast.USub):
            return K.vint(-self.as_int(v))
        raise Unsupported('unary %s' % type(node.op).__name__)

    def e_IfExp(self, node):
        if self.spec:
            c = self.truth(self.eval(node.test))
            a, b = self.eval(node.body), self.eval(node.orelse)
            return self.ite(c, a, b)
        if self.branch(self.truth(self.eval(node.test))):
            return self.eval(node.body)
        return self.eval(node.orelse)

    def ite(self, c, a, b):
        if a.kind != b.kind:
            try:
                b = K.coerce(b, a.kind)
            except Unsupported:
                a = K.coerce(a, b.kind)
        return V(a.kind, [z3.If(c, x, y) for x, y in zip(a.terms, b.terms)])

    def e_Compare(self, node):
        left = self.eval(node.left)
        conj = []
        for op, rn in zip(node.ops, node.comparators):
            right = self.eval(rn)
            conj.append(self.compare(op, left, right, node))
            left = right
        if len(conj) == 1:
            return K.vbool(conj[0])
        return K.vbool(z3.And(*conj))

    def compare(self, op, a, b, node):
        if isinstance(op, ast.Eq):
            return self.eq(a, b)
        if isinstance(op, ast.NotEq):
            return z3.Not(self.eq(a, b))
        if isinstance(op, ast.Is):
            return self.identical(a, b)
        if isinstance(op, ast.IsNot):
            return z3.Not(self.identical(a, b))
        if isinstance(op, ast.In):
            return self.contains(b, a, node)
        if isinstance(op, ast.NotIn):
            return z3.Not(self.contains(b, a, node))
        if type(op) in CMP:
            if isinstance(a.kind, K._Str) and isinstance(b.kind, K._Str):
                raise Unsupported('string ordering')
            return CMP[type(op)](self.as_int(a), self.as_int(b))
        raise Unsupported('comparison %s' % type(op).__name__)

    def contains(self, coll, item, node=None):
        if isinstance(coll, PyObj):
            if coll.tag in ('emptylist', 'emptydict'):
                return z3.BoolVal(False)
            raise Unsupported('in %r' % (coll,))
        k = coll.kind
        if isinstance(k, K.Opt):
            raise Unsupported("'in' on optional container (line %s)" % getattr(node, 'lineno', '?'))
        if isinstance(k, K.Tuple):
            return z3.Or(*[self.eq(item, e) for e in K.tuple_items(coll)]) if k.items \
                else z3.BoolVal(False)
        if isinstance(k, (K.Set, K.Map)) and isinstance(item, V):
            want = k.elem if isinstance(k, K.Set) else k.key
            try:
                K.coerce(item, want)
            except Unsupported:
                if item.kind.leaf_sorts() != want.leaf_sorts():
                    return z3.BoolVal(False)      # a value of another type is never a member
                raise
        if isinstance(k, K.Set):
            return K.set_has(coll, item)
        if isinstance(k, K.Map):
            return K.map_has(coll, item)
        if isinstance(k, K.Rec):
            if isinstance(item.kind, K._Str):
                return z3.Or(*[z3.And(item.t == z3.StringVal(f), coll.terms[k.slot(f)[0]])
                               for f in k.fields]) if k.fields else z3.BoolVal(False)
            raise Unsupported('non-str key in record')
        if isinstance(k, K.Seq):
            nc = simp(K.seq_len(coll))
            if z3.is_int_value(nc) and nc.as_long() <= 24:
                return z3.Or(*[self.eq(K.seq_get(coll, z3.IntVal(j)), item) for j in range(nc.as_long())]) \
                    if nc.as_long() else z3.BoolVal(False)
            i = self.p.fresh('in!i', z3.IntSort())
            return z3.Exists([i], z3.And(0 <= i, i < K.seq_len(coll),
                                         self.eq(K.seq_get(coll, i), item)))
        if isinstance(k, K._Str) and isinstance(item.kind, K._Str):
            return z3.Contains(coll.t, item.t)
        raise Unsupported("'in' on %r" % (k,))

    def e_BinOp(self, node):
        a, b = self.eval(node.left), self.eval(node.right)
        return self.binop(node.op, a, b, node)

    def binop(self, op, a, b, node):
        if isinstance(a, V) and isinstance(a.kind, K._Str) and isinstance(op, ast.Mod) and isinstance(b, PyObj):
            return self.str_format(a, b, node)
        if isinstance(a, PyObj) or isinstance(b, PyObj):
            if isinstance(op, ast.Add):
                if isinstance(a, PyObj) and a.tag == 'emptylist':
                    return b
                if isinstance(b, PyObj) and b.tag == 'emptylist':
                    return a
            raise Unsupported('binop on %r, %r' % (a, b))
        if isinstance(a.kind, K.Opt) and not self.spec:
            self.implicit_raise(z3.Not(K.opt_isnone(a)), 'TypeError', 'operand is None', node)
            a = K.opt_inner(a)
        if isinstance(b.kind, K.Opt) and not self.spec and not isinstance(a.kind, K._Str):
            self.implicit_raise(z3.Not(K.opt_isnone(b)), 'TypeError', 'operand is None', node)
            b = K.opt_inner(b)
        ka, kb = a.kind, b.kind
        num = lambda k: isinstance(k, (K._Int, K._Bool))
        if num(ka) and num(kb):
            x, y = self.as_int(a), self.as_int(b)
            if isinstance(op, ast.Add):
                return K.vint(x + y)
            if isinstance(op, ast.Sub):
                return K.vint(x - y)
            if isinstance(op, ast.Mult):
                return K.vint(x * y)
            if isinstance(op, (ast.FloorDiv, ast.Mod)):
                self.implicit_raise(y != 0, 'ZeroDivisionError', 'division by zero', node)
                # python floor semantics
                q = z3.If(y > 0, x / y, -((-x) / (-y)) if False else (x / y))
                if isinstance(op, ast.FloorDiv):
                    return K.vint(z3.If(y > 0, x / y, (-x) / (-y)))
                return K.vint(z3.If(y > 0, x % y, -((-x) % (-y))))
        if isinstance(ka, K._Str) and isinstance(kb, K._Str) and isinstance(op, ast.Add):
            return K.vstr(z3.Concat(a.t, b.t))
        if isinstance(ka, K._Str) and isinstance(op, ast.Mod):
            return self.str_format(a, b, node)
        if isinstance(ka, K.Seq) and isinstance(kb, K.Seq) and isinstance(op, ast.Add):
            return self.seq_concat(a, b)
        if isinstance(ka, K.Tuple) and isinstance(kb, K.Tuple) and isinstance(op, ast.Add):
            return K.vtuple(K.tuple_items(a) + K.tuple_items(b))
        if isinstance(ka, K.Set) and isinstance(kb, K.Set) and ka == kb and isinstance(op, ast.BitOr):
            xs = [self.p.fresh('su!x', srt) for srt in ka.elem.leaf_sorts()]
            out = self.p.fresh_value(ka, 'union')
            self.assume_valid(out)
            self.p.assume(K.forall(xs, K.nsel(out.terms[1], xs) == z3.Or(K.nsel(a.terms[1], xs), K.nsel(b.terms[1], xs)),
                                   patterns=[K.nsel(out.terms[1], xs), K.nsel(a.terms[1], xs), K.nsel(b.terms[1], xs)]))
            self.p.assume(z3.And(out.terms[0] >= a.terms[0], out.terms[0] >= b.terms[0],
                                 out.terms[0] <= a.terms[0] + b.terms[0]))
            return out
        if isinstance(ka, K.Set) and isinstance(kb, K.Set) and ka == kb:
            if isinstance(op, ast.Sub):
                xs = [self.p.fresh('sd!x', srt) for srt in ka.elem.leaf_sorts()]
                out = self.p.fresh_value(ka, 'setdiff')
                self.assume_valid(out)
                self.p.assume(K.forall(xs, K.nsel(out.terms[1], xs) ==
                                       z3.And(K.nsel(a.terms[1], xs), z3.Not(K.nsel(b.terms[1], xs))),
                                       patterns=[K.nsel(out.terms[1], xs), K.nsel(a.terms[1], xs)]))
                self.p.assume(out.terms[0] <= a.terms[0])
                return out
        raise Unsupported('binop %s on %r, %r (line %s)' % (type(op).__name__, ka, kb,
                                                           getattr(node, 'lineno', '?')))

    def seq_concat(self, a, b):
        b = K.coerce(b, a.kind) if a.kind != b.kind else b
        n, m = K.seq_len(a), K.seq_len(b)
        mc = simp(m)
        if z3.is_int_value(mc) and mc.as_long() <= 8:
            out = a
            for j in range(mc.as_long()):
                out = K.seq_append(out, K.seq_get(b, z3.IntVal(j)))
            return out
        out = self.p.fresh_value(a.kind, 'cat')
        i = self.p.fresh('cat!i', z3.IntSort())
        self.p.assume(K.seq_len(out) == n + m)
        self.p.assume(K.forall([i], z3.Implies(z3.And(0 <= i, i < n), z3.And(
            *[z3.Select(o, i) == z3.Select(s, i) for o, s in zip(out.terms[1:], a.terms[1:])])),
            patterns=[z3.Select(out.terms[1], i)]))
        self.p.assume(K.forall([i], z3.Implies(z3.And(n <= i, i < n + m), z3.And(
            *[z3.Select(o, i) == z3.Select(s, i - n) for o, s in zip(out.terms[1:], b.terms[1:])])),
            patterns=[z3.Select(out.terms[1], i)]))
        self.p.assume(K.forall([i], z3.Implies(z3.And(0 <= i, i < m), z3.And(
            *[z3.Select(o, n + i) == z3.Select(s, i) for o, s in zip(out.terms[1:], b.terms[1:])])),
            patterns=[z3.Select(b.terms[1], i)]))
        return out

    def to_str(self, v):
        """str(v) / '%s' image as a z3 string."""
        if isinstance(v, PyObj):
            return self.p.fresh('str!pyobj', z3.StringSort())
        k = v.kind
        if isinstance(k, K._Str):
            return v.t
        if isinstance(k, K._Int):
            # exact only for non-negative ints; negative handled by a sign prefix
            return z3.If(v.t >= 0, z3.IntToStr(v.t), z3.Concat(z3.StringVal('-'), z3.IntToStr(-v.t)))
        if isinstance(k, K._Bool):
            return z3.If(v.t, z3.StringVal('True'), z3.StringVal('False'))
        if isinstance(k, K._None):
            return z3.StringVal('None')
        if k.nleaves() == 1:
            f = self.p.ctx.ufunc('str!' + repr(k), k.leaf_sorts()[0], z3.StringSort())
            return f(v.t)
        if isinstance(k, K.Opt) and k.inner.nleaves() == 1:
            return z3.If(K.opt_isnone(v), z3.StringVal('None'), self.to_str(K.opt_inner(v)))
        raise Unsupported('str() of %r' % (k,))

    def str_format(self, fmt, args, node):
        f = simp(fmt.t)
        if not z3.is_string_value(f):
            # message text built from a non-constant format: an unspecified string
            return K.vstr(self.p.fresh('fmt', z3.StringSort()))
        text = f.as_string()
        # z3 escapes non-ascii as \u{..}; formats here are ascii
        if isinstance(args, PyObj):
            items = args.items if args.tag == 'pytuple' else [args]
        elif isinstance(args.kind, K.Seq):
            # a tuple of unknown length as format arguments: the text is unspecified (arity errors not modelled)
            return K.vstr(self.p.fresh('fmt', z3.StringSort()))
        else:
            items = K.tuple_items(args) if isinstance(args.kind, K.Tuple) else [args]
        parts, i, n = [], 0, 0
        buf = ''
        while i < len(text):
            ch = text[i]
            if ch == '%':
                nxt = text[i + 1] if i + 1 < len(text) else ''
                if nxt == '%':
                    buf += '%'
                    i += 2
                    continue
                if nxt in ('s', 'd'):
                    if buf:
                        parts.append(z3.StringVal(buf))
                        buf = ''
                    if n >= len(items):
                        raise PyRaise('TypeError', None, 'not enough arguments for format string')
                    parts.append(self.to_str(items[n]))
                    n += 1
                    i += 2
                    continue
                if nxt == 'r':
                    if buf:
                        parts.append(z3.StringVal(buf))
                        buf = ''
                    v = items[n]
                    fr = self.p.ctx.ufunc('repr!' + repr(v.kind), *(v.kind.leaf_sorts() + [z3.StringSort()]))
                    parts.append(fr(*v.terms))
                    n += 1
                    i += 2
                    continue
                return K.vstr(self.p.fresh('fmt', z3.StringSort()))     # %(name)s etc.: unspecified text
            buf += ch
            i += 1
        if buf:
            parts.append(z3.StringVal(buf))
        if n != len(items):
            raise PyRaise('TypeError', None, 'not all arguments converted')
        if not parts:
            return K.vstr('')
        return K.vstr(parts[0] if len(parts) == 1 else z3.Concat(*parts))

    def e_Attribute(self, node):
        base = self.eval(node.value)
        return self.getattr(base, node.attr, node)

    def getattr(self, base, attr, node=None, heap=None):
        if isinstance(base, PyObj):
            if base.tag in ('emptylist', 'emptydict', 'emptyset'):
                return PyObj('cmethod', self_=base, name=attr, target=node.value if node is not None else None)
            if base.tag == 'builtin' and base.name == 'dict' and attr == '__eq__':
                return PyObj('builtin', name='dict_eq')
            if base.tag == 'exc':
                if attr in base.fields:
                    return base.fields[attr]
                raise Unsupported('exception attribute %s' % attr)
            if base.tag == 'class' and (base.name + '.' + attr) in self.w.consts:
                return self.lookup(base.name + '.' + attr)
            if base.tag == 'class':
                c = self.w.find_method(base.name, attr)
                if c is not None:
                    return PyObj('func', contract=c)
                v = self.class_const(base.name, attr)
                if v is not None:
                    return v
            if base.tag == 'module':
                nm = base.name + '.' + attr
                if nm in MODULE_BUILTINS:
                    return PyObj('builtin', name=MODULE_BUILTINS[nm])
                if nm in self.w.externals:
                    return PyObj('func', contract=self.w.contracts[self.w.externals[nm]])
                if nm in self.w.contracts:
                    return PyObj('func', contract=self.w.contracts[nm])
                if nm in self.w.consts:
                    return self.lookup(nm)
                return PyObj('module', name=nm)
            raise Unsupported('attribute %s of %r (line %s)' % (attr, base, getattr(node, 'lineno', '?')))
        k = base.kind
        if isinstance(k, (K.Opt, K._None)):
            inner = k.inner if isinstance(k, K.Opt) else None
            if inner is None:
                self.implicit_raise(z3.BoolVal(False), 'AttributeError',
                                    "attribute %r of None" % attr, node)
                raise PathEnd()
            self.implicit_raise(z3.Not(K.opt_isnone(base)), 'AttributeError',
                                "attribute %r of None" % attr, node)
            base = K.opt_inner(base)
            k = base.kind
        if isinstance(k, K.Ref):
            key, fk = self.heap_key(k.cls, attr)
            if key is not None:
                return self.heap_read(base, key, fk, heap)
            for c_ in self.w.mro(k.cls):
                view = self.w.classes.get(c_, {}).get('views', {}).get(attr)
                if view is not None:
                    # @property returning six.itervalues(self.<field>) (checked syntactically by the family)
                    fkey, fk = self.heap_key(k.cls, view[0])
                    return PyObj('mapview', map=self.heap_read(base, fkey, fk, heap), what=view[1])
            c = self.w.find_method(k.cls, attr)
            if c is not None:
                if c.pure and getattr(c, 'is_property', False):
                    return self.call_contract(c, [base], {}, node)
                return PyObj('method', self_=base, contract=c)
            v = self.class_const(k.cls, attr)
            if v is not None:
                return v
            # field declared only on subclasses: dynamic downcast (AttributeError for the other classes)
            subs = [c for c in self.w.subclasses(k.cls) if self.w.field_kind(c, attr)[0] is not None]
            if subs:
                self.implicit_raise(z3.Or(*[self.p.ctx.dtype(base.t) == self.p.ctx.class_id(c) for c in subs]),
                                    'AttributeError', 'attribute %s' % attr, node)
                owner, fk = self.w.field_kind(subs[0], attr)
                return self.heap_read(base, '%s.%s' % (owner, attr), fk, heap)
            if not self.spec and heap is None and self.x is not None:
                # an attribute the sidecar does not declare: an unconstrained opaque value, stable while the heap is
                memo = self.p.__dict__.setdefault('opaque_attr', {})
                mk = (base.t.get_id(), attr, self.p.heap_epoch)
                if mk not in memo:
                    memo[mk] = self.p.fresh_value(K.Atom('Opaque'), 'opq!%s.%s' % (k.cls, attr))
                    self.p.__dict__.setdefault('opaque', set()).add('attribute %s.%s' % (k.cls, attr))
                return memo[mk]
            raise Unsupported('attribute %s.%s undeclared (line %s)' % (k.cls, attr,
                                                                        getattr(node, 'lineno', '?')))
        if isinstance(k, (K.Seq, K.Set, K.Map, K._Str, K.Rec)):
            return PyObj('cmethod', self_=base, name=attr, target=node.value if node is not None else None)
        raise Unsupported('attribute %s on %r (line %s)' % (attr, k, getattr(node, 'lineno', '?')))

    def class_const(self, cls, attr):
        from . import extract
        for c in self.w.mro(cls):
            if (c, attr) in self.w.const_overrides:
                return self.w.const_overrides[(c, attr)](self)
        for c in self.w.mro(cls):
            mod = self.w.classes.get(c, {}).get('module')
            if not mod:
                continue
            n = extract.class_const(mod, c, attr)
            if n is not None:
                try:
                    return K.from_py_const(ast.literal_eval(n))
                except Exception:
                    raise Unsupported('class constant %s.%s is not a literal' % (c, attr))
        return None

    def e_Subscript(self, node):
        base = self.eval(node.value)
        if isinstance(node.slice, ast.Slice):
            return self.slice(base, node.slice, node)
        idx = self.eval(node.slice)
        return self.getitem(base, idx, node)

    def getitem(self, base, idx, node=None):
        if isinstance(base, PyObj):
            if base.tag == 'emptydict':
                self.implicit_raise(z3.BoolVal(False), 'KeyError', 'key of empty dict', node)
            if base.tag == 'emptylist':
                self.implicit_raise(z3.BoolVal(False), 'IndexError', 'index of empty list', node)
            raise Unsupported('subscript of %r' % (base,))
        k = base.kind
        if isinstance(k, K.Opt):
            self.implicit_raise(z3.Not(K.opt_isnone(base)), 'TypeError',
                                'subscript of None', node)
            base = K.opt_inner(base)
            k = base.kind
        if isinstance(k, K.Rec):
            s = simp(idx.t) if isinstance(idx.kind, K._Str) else None
            if s is not None and not z3.is_string_value(s):
                # symbolic key: case split over the declared keys
                if self.spec:
                    kinds = {repr(fk) for fk in k.fields.values()}
                    if len(kinds) != 1:
                        raise Unsupported('record subscript with symbolic key over heterogeneous values')
                    out = None
                    for f in reversed(list(k.fields)):
                        off, fk = k.slot(f)
                        v = V(fk, base.terms[off + 1:off + 1 + fk.nleaves()])
                        out = v if out is None else self.ite(idx.t == z3.StringVal(f), v, out)
                    return out
                for f in k.fields:
                    if self.branch(idx.t == z3.StringVal(f)):
                        return self.getitem(base, K.vstr(f), node)
                self.implicit_raise(z3.BoolVal(False), 'KeyError', 'key outside the record', node)
                raise PathEnd()
            if s is None or not z3.is_string_value(s):
                raise Unsupported('record subscript with non-constant key (line %s)' %
                                  getattr(node, 'lineno', '?'))
            key = s.as_string()
            if key not in k.fields:
                self.implicit_raise(z3.BoolVal(False), 'KeyError', 'key %r' % key, node)
                raise PathEnd()
            off, fk = k.slot(key)
            self.implicit_raise(base.terms[off], 'KeyError', 'key %r' % key, node)
            return V(fk, base.terms[off + 1:off + 1 + fk.nleaves()])
        if isinstance(k, K.Fun):
            return K.fun_get(base, idx)
        if isinstance(k, K.Map):
            self.implicit_raise(K.map_has(base, idx), 'KeyError', 'missing dict key', node)
            v = K.map_get(base, idx)
            # in a specification the key may be a bound variable outside the dict: validity only for present keys
            self.assume_valid(v, K.map_has(base, idx) if self.spec else None)
            return v
        if isinstance(k, K.Seq):
            i = self.as_int(idx)
            n = K.seq_len(base)
            self.implicit_raise(z3.And(-n <= i, i < n), 'IndexError', 'list index', node)
            v = K.seq_get(base, z3.If(i >= 0, i, n + i))
            self.assume_valid(v)
            return v
        if isinstance(k, K.Packed):
            base = K.unpack(base)
            k = base.kind
        if isinstance(k, K.Tuple):
            i = simp(self.as_int(idx))
            if not z3.is_int_value(i):
                raise Unsupported('tuple subscript with symbolic index')
            items = K.tuple_items(base)
            j = i.as_long()
            if not (-len(items) <= j < len(items)):
                self.implicit_raise(z3.BoolVal(False), 'IndexError', 'tuple index', node)
                raise PathEnd()
            return items[j]
        if isinstance(k, K._Str):
            i = self.as_int(idx)
            n = z3.Length(base.t)
            self.implicit_raise(z3.And(-n <= i, i < n), 'IndexError', 'string index', node)
            return K.vstr(z3.SubString(base.t, z3.If(i >= 0, i, n + i), 1))
        if isinstance(k, K.Ref):
            i = simp(self.as_int(idx)) if isinstance(idx.kind, (K._Int, K._Bool)) else None
            c = None
            if i is not None and z3.is_int_value(i):
                c = self.w.find_method(k.cls, '__getitem__%d' % i.as_long())
            c = c or self.w.find_method(k.cls, '__getitem__')
            if c is not None:
                return self.call_contract(c, [base] if c.short != '__getitem__' else [base, idx], {}, node)
        raise Unsupported('subscript on %r (line %s)' % (k, getattr(node, 'lineno', '?')))

    def slice(self, base, sl, node):
        if isinstance(base, PyObj):
            raise Unsupported('slice of %r' % (base,))
        if isinstance(base.kind, K.Opt):
            self.implicit_raise(z3.Not(K.opt_isnone(base)), 'TypeError', "'NoneType' object is not subscriptable", node)
            base = K.opt_inner(base)
        if isinstance(base.kind, K._Str) and sl.step is None:
            n = z3.Length(base.t)

            def norm(e, dflt):
                if e is None:
                    return dflt
                i = self.as_int(self.eval(e))
                i = z3.If(i < 0, n + i, i)
                return z3.If(i < 0, 0, z3.If(i > n, n, i))
            lo, hi = norm(sl.lower, z3.IntVal(0)), norm(sl.upper, n)
            return K.vstr(z3.SubString(base.t, lo, z3.If(hi > lo, hi - lo, 0)))
        if isinstance(base.kind, K.Tuple) and sl.step is None:
            items = K.tuple_items(base)

            def cidx(e, dflt):
                if e is None:
                    return dflt
                i = simp(self.as_int(self.eval(e)))
                if not z3.is_int_value(i):
                    raise Unsupported('symbolic tuple slice')
                return i.as_long()
            return K.vtuple(items[cidx(sl.lower, None):cidx(sl.upper, None)])
        if isinstance(base.kind, K.Seq) and sl.step is None:
            n = K.seq_len(base)

            def norm(e, dflt):
                if e is None:
                    return dflt
                i = self.as_int(self.eval(e))
                i = z3.If(i < 0, n + i, i)
                return z3.If(i < 0, 0, z3.If(i > n, n, i))
            lo, hi = norm(sl.lower, z3.IntVal(0)), norm(sl.upper, n)
            out = self.p.fresh_value(base.kind, 'slice')
            m = K.seq_len(out)
            i = self.p.fresh('sl!i', z3.IntSort())
            self.p.assume(m == z3.If(hi > lo, hi - lo, 0))
            self.p.assume(K.forall([i], z3.Implies(z3.And(0 <= i, i < m), z3.And(
                *[z3.Select(o, i) == z3.Select(a, lo + i) for o, a in zip(out.terms[1:], base.terms[1:])])),
                patterns=[z3.Select(out.terms[1], i)]))
            return out
        raise Unsupported('slice on %r (line %s)' % (base.kind, node.lineno))

    def e_Lambda(self, node):
        return PyObj('lambda', node=node, env=dict(self.env))

    def e_JoinedStr(self, node):
        raise Unsupported('f-string')

    def e_Starred(self, node):
        raise Unsupported('starred expression')


def _from_py_const(x):
    """Python constant incl. nested tuples/lists/sets of constants."""
    if isinstance(x, (set, frozenset)):
        x = tuple(sorted(x))
    if isinstance(x, list):
        x = tuple(x)
    if isinstance(x, tuple):
        return K.vtuple([_from_py_const(e) for e in x])
    return K.from_py(x)


K.from_py_const = _from_py_const

BUILTINS = {'len', 'isinstance', 'list', 'tuple', 'set', 'dict', 'sorted', 'enumerate',
            'callable', 'bool', 'str', 'repr', 'getattr', 'hasattr', 'int', 'zip',
            'reversed', 'deepcopy', 'all', 'any', 'super', 'OrderedDict', 'iter', 'type', 'min', 'max', 'issubclass', 'setattr'}
SPEC_BUILTINS = {'old', 'implies', 'iff', 'forall', 'exists', 'result', 'ite', 'dtype_is',
                 'raised', 'fresh_ref', 'range', 'live', 'key_at', 'log_len', 'distinct',
                 'unchanged', 'const_seq', 'allocated', 'exc_attr', 'has_exc_attr', '_', 'text_type', 'fun', 'index_in', 'last_sorted', 'use_lemma', 'src_index', 'dst_index', 'same', 'to_str', 'sel', 'is_none', 'some', 'truthy'}

MODULES = {'six', 'logging', 'logger', 'models', 'collections'}
MODULE_BUILTINS = {'dict.__eq__': 'dict_eq', 'six.moves.range': 'range', 'six.iteritems': 'iteritems', 'six.iterkeys': 'iterkeys',
                   'six.itervalues': 'itervalues', 'six.text_type': 'str',
                   'collections.OrderedDict': 'OrderedDict'}
