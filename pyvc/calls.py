"""pyvc engine, part 2: calls - builtins, collection methods, spec helpers, contracts."""
import ast
import z3

from . import kinds as K
from .kinds import V, Unsupported
from .engine import (Interp, PyObj, PyRaise, PathEnd, Return_, simp, BUILTINS,
                     SPEC_BUILTINS)


class CallsMixin:

    def e_Call(self, node):
        # spec helpers that need unevaluated arguments
        if isinstance(node.func, ast.Name) and node.func.id in ('old', 'forall', 'exists', 'unchanged', 'fun') \
                and node.func.id not in self.env:
            return getattr(self, 'sp_' + node.func.id)(node)
        if isinstance(node.func, ast.Name) and node.func.id == 'super':
            raise Unsupported('bare super()')
        # super(Class, self).method(...)
        if isinstance(node.func, ast.Attribute) and isinstance(node.func.value, ast.Call) and \
                isinstance(node.func.value.func, ast.Name) and node.func.value.func.id == 'super':
            return self.call_super(node)
        fn = self.eval(node.func)
        args, kwargs = [], {}
        for a in node.args:
            if isinstance(a, ast.Starred):
                v = self.eval(a.value)
                if isinstance(v, V) and isinstance(v.kind, K.Tuple):
                    args += K.tuple_items(v)
                elif isinstance(v, PyObj) and v.tag == 'pytuple':
                    args += v.items
                else:
                    raise Unsupported('*args of %r' % (v,))
            elif isinstance(a, ast.GeneratorExp):
                args.append(PyObj('genexp', node=a))
            else:
                args.append(self.eval(a))
        for kw in node.keywords:
            if kw.arg is None:
                kv = self.eval(kw.value)
                if isinstance(kv, PyObj) and kv.tag == 'pykwargs':
                    kwargs.update(kv.items)
                    continue
                raise Unsupported('**kwargs call')
            kwargs[kw.arg] = self.eval(kw.value)
        return self.call(fn, args, kwargs, node)

    def call_super(self, node):
        sup = node.func.value
        if len(sup.args) != 2:
            raise Unsupported('super() form')
        cls = sup.args[0].id
        self_v = self.eval(sup.args[1])
        meth = node.func.attr
        for c in self.w.mro(cls)[1:]:
            n = '%s.%s' % (c, meth)
            if n in self.w.contracts:
                args = [self.eval(a) for a in node.args]
                kwargs = {kw.arg: self.eval(kw.value) for kw in node.keywords}
                return self.call_contract(self.w.contracts[n], [self_v] + args, kwargs, node)
        raise Unsupported('super(%s).%s has no contract' % (cls, meth))

    def call(self, fn, args, kwargs, node):
        if not isinstance(fn, PyObj):
            raise Unsupported('call of non-function value %r (line %s)' % (fn, node.lineno))
        if fn.tag == 'module' and fn.name.split('.')[0] in ('logger', 'logging'):
            return K.NONE       # logging has no modelled effect
        if fn.tag == 'builtin':
            m = getattr(self, 'b_' + fn.name, None)
            if m is None:
                raise Unsupported('builtin %s' % fn.name)
            return m(args, kwargs, node)
        if fn.tag == 'func':
            return self.call_contract(fn.contract, args, kwargs, node)
        if fn.tag == 'method':
            return self.call_contract(fn.contract, [fn.self_] + args, kwargs, node)
        if fn.tag == 'cmethod':
            return self.call_cmethod(fn, args, kwargs, node)
        if fn.tag == 'class':
            return self.instantiate(fn.name, args, kwargs, node)
        if fn.tag == 'excclass':
            return self.new_exception(fn.name, args, kwargs, node)
        if fn.tag == 'specfunc':
            return self.w.spec_funcs[fn.name](self, *args, **kwargs)
        if fn.tag == 'lambda':
            return self.call_lambda(fn, args)
        raise Unsupported('call of %r' % (fn,))

    def call_lambda(self, fn, args):
        saved = self.env
        self.env = dict(fn.env)
        # lambdas see later bindings of enclosing locals too
        for k2, v2 in saved.items():
            self.env.setdefault(k2, v2)
        try:
            for a, v in zip(fn.node.args.args, args):
                self.env[a.arg] = v
            return self.eval(fn.node.body)
        finally:
            self.env = saved

    # ---------------------------------------------------------------- builtins
    def b_len(self, args, kwargs, node):
        v = args[0]
        if isinstance(v, PyObj):
            if v.tag in ('emptylist', 'emptydict'):
                return K.vint(0)
            raise Unsupported('len of %r' % (v,))
        k = v.kind
        if isinstance(k, K.Seq):
            return K.vint(K.seq_len(v))
        if isinstance(k, (K.Set, K.Map)):
            return K.vint(v.terms[0])
        if isinstance(k, K.Tuple):
            return K.vint(len(k.items))
        if isinstance(k, K._Str):
            return K.vint(z3.Length(v.t))
        raise Unsupported('len of %r' % (k,))

    def b_bool(self, args, kwargs, node):
        return K.vbool(self.truth(args[0]))

    def b_truthy(self, args, kwargs, node):
        return K.vbool(self.truth(args[0]))

    def b_callable(self, args, kwargs, node):
        v = args[0]
        if isinstance(v, PyObj):
            return K.vbool(v.tag in ('func', 'method', 'lambda', 'class', 'builtin'))
        k = v.kind.inner if isinstance(v.kind, K.Opt) else v.kind
        if isinstance(k, K.Atom):
            f = self.p.ctx.ufunc('callable!' + k.sort_name, k.leaf_sorts()[0], z3.BoolSort())
            t = f(K.opt_inner(v).t if isinstance(v.kind, K.Opt) else v.t)
            if isinstance(v.kind, K.Opt):
                t = z3.And(z3.Not(K.opt_isnone(v)), t)
            return K.vbool(t)
        return K.vbool(False)

    def b_str(self, args, kwargs, node):
        if isinstance(args[0], PyObj):
            return K.vstr(self.p.fresh('str!pyobj', z3.StringSort()))
        return K.vstr(self.to_str(args[0]))

    def b__(self, args, kwargs, node):
        """gettext marker: identity on the message."""
        return args[0]

    b_to_str = b_str

    def b_isinstance(self, args, kwargs, node):
        v, cls = args
        names = []
        if isinstance(cls, PyObj) and cls.tag == 'pytuple':
            names = cls.items
        else:
            names = [cls]
        res = []
        for c in names:
            res.append(self.isinstance1(v, c, node))
        return K.vbool(z3.Or(*res))

    def isinstance1(self, v, c, node):
        cname = None
        if isinstance(c, PyObj):
            if c.tag in ('class', 'excclass'):
                cname = c.name
            elif c.tag == 'builtin':
                cname = c.name
            elif c.tag == 'module':
                cname = c.name
        if cname is None:
            raise Unsupported('isinstance against %r' % (c,))
        if isinstance(v, PyObj):
            raise Unsupported('isinstance of %r' % (v,))
        k = v.kind
        notnone = z3.BoolVal(True)
        if isinstance(k, K.Opt):
            notnone = z3.Not(K.opt_isnone(v))
            v = K.opt_inner(v)
            k = v.kind
        if isinstance(k, K._None):
            return z3.BoolVal(False)
        simple = {'str': K._Str, 'six.text_type': K._Str, 'six.string_types': K._Str,
                  'bool': K._Bool, 'int': K._Int, 'list': K.Seq, 'tuple': K.Tuple,
                  'dict': (K.Map, K.Rec), 'set': K.Set, 'six.integer_types': K._Int}
        if cname in self.w.builtin_classes and isinstance(k, K.Ref):
            cname = self.w.builtin_classes[cname]
        if cname in simple:
            if cname in ('int', 'six.integer_types') and isinstance(k, K._Bool):
                return notnone
            if isinstance(k, (K.Atom,)):
                f = self.p.ctx.ufunc('isinst!%s!%s' % (k.sort_name, cname), k.leaf_sorts()[0], z3.BoolSort())
                return z3.And(notnone, f(v.t))
            return z3.And(notnone, z3.BoolVal(isinstance(k, simple[cname])))
        if isinstance(k, K.Ref):
            subs = self.w.subclasses(cname)
            if cname not in self.w.classes:
                raise Unsupported('isinstance against undeclared class %s' % cname)
            return z3.And(notnone, z3.Or(*[self.p.ctx.dtype(v.t) == self.p.ctx.class_id(s)
                                           for s in subs]))
        if isinstance(k, K.Atom):
            f = self.p.ctx.ufunc('isinst!%s!%s' % (k.sort_name, cname), k.leaf_sorts()[0], z3.BoolSort())
            return z3.And(notnone, f(v.t))
        return z3.BoolVal(False)

    def b_issubclass(self, args, kwargs, node):
        v, cls = args
        cname = cls.name if isinstance(cls, PyObj) and cls.tag in ('module', 'class', 'excclass', 'builtin') else None
        if cname is None or isinstance(v, PyObj):
            raise Unsupported('issubclass(%r, %r)' % (v, cls))
        k = v.kind
        notnone = z3.BoolVal(True)
        if isinstance(k, K.Opt):
            notnone = z3.Not(K.opt_isnone(v))
            v = K.opt_inner(v)
            k = v.kind
        if not isinstance(k, K.Atom):
            raise Unsupported('issubclass on %r' % (k,))
        f = self.p.ctx.ufunc('issubclass!%s' % cname, k.leaf_sorts()[0], z3.BoolSort())
        if not self.spec and not z3.is_true(simp(notnone)):
            self.implicit_raise(notnone, 'TypeError', 'issubclass() arg 1 must be a class', node)
        return K.vbool(f(v.t))

    def b_list(self, args, kwargs, node):
        if not args:
            return PyObj('emptylist')
        v = args[0]
        if isinstance(v, PyObj) and v.tag == 'genexp':
            return self.comprehension(v.node.elt, v.node.generators, 'list')
        if isinstance(v, PyObj) and v.tag == 'emptylist':
            return v
        if isinstance(v, PyObj) and v.tag == 'mapview':
            return self.mapview_seq(v.map, v.what)
        if isinstance(v, V) and isinstance(v.kind, K.Map):
            return self.mapview_seq(v, 'keys')
        if isinstance(v.kind, K.Seq):
            return V(v.kind, v.terms)       # list(x) is a new list
        if isinstance(v.kind, K.Tuple) and v.kind.items:
            return K.coerce(v, K.Seq(v.kind.items[0]))
        raise Unsupported('list(%r)' % (v.kind,))

    def mapview_seq(self, m, what):
        """list(dict view): the live entries of the insertion log, in order, as a fresh list."""
        # the listing is a function of the dict value: the same dict (term for term) lists the same way
        memo = self.p.__dict__.setdefault('mapview_memo', {})
        mkey = (what,) + tuple(t.get_id() for t in m.terms)
        if mkey in memo:
            return memo[mkey]
        n = m.terms[1]

        def elem(pos):
            key = K.map_key_at(m, pos)
            if what == 'keys':
                return key
            if what == 'values':
                return K.map_get(m, key)
            return K.vtuple([key, K.map_get(m, key)])
        idx = self.p.fresh('mv!idx', z3.ArraySort(z3.IntSort(), z3.IntSort()))
        inv = self.p.fresh('mv!inv', z3.ArraySort(z3.IntSort(), z3.IntSort()))
        j, j2, i = self.p.fresh('mv!j', z3.IntSort()), self.p.fresh('mv!j2', z3.IntSort()), self.p.fresh('mv!i', z3.IntSort())
        ej = elem(z3.Select(idx, j))
        out = self.p.fresh_value(K.Seq(ej.kind), 'mv')
        cnt = K.seq_len(out)
        self.p.assume(cnt == m.terms[0])
        self.p.assume(z3.And(0 <= cnt, cnt <= n))
        self.p.assume(K.forall([j], z3.Implies(z3.And(0 <= j, j < cnt), z3.And(
            0 <= z3.Select(idx, j), z3.Select(idx, j) < n, K.map_live(m, z3.Select(idx, j)),
            *[z3.Select(a, j) == t for a, t in zip(out.terms[1:], ej.terms)])),
            patterns=[z3.Select(idx, j), z3.Select(out.terms[1], j)]))
        self.p.assume(K.forall([j, j2], z3.Implies(z3.And(0 <= j, j < j2, j2 < cnt),
                                                   z3.Select(idx, j) < z3.Select(idx, j2)),
                               patterns=[z3.MultiPattern(z3.Select(idx, j), z3.Select(idx, j2))]))
        self.p.assume(K.forall([i], z3.Implies(z3.And(0 <= i, i < n, K.map_live(m, i)), z3.And(
            0 <= z3.Select(inv, i), z3.Select(inv, i) < cnt, z3.Select(idx, z3.Select(inv, i)) == i)),
            patterns=[z3.Select(inv, i), z3.Select(m.terms[2], i)]))
        self.assume_valid(out)
        memo[mkey] = out
        return out

    def b_tuple(self, args, kwargs, node):
        if not args:
            return K.vtuple([])
        v = args[0]
        if isinstance(v, PyObj) and v.tag == 'genexp':
            return self.comprehension(v.node.elt, v.node.generators, 'list')
        if isinstance(v.kind, (K.Tuple, K.Seq)):
            return v      # NOTE: tuple(list) keeps Seq kind (no distinction list/tuple for Seq)
        raise Unsupported('tuple(%r)' % (v.kind,))

    def b_set(self, args, kwargs, node):
        if not args:
            return PyObj('emptyset')
        v = args[0]
        if isinstance(v, V) and isinstance(v.kind, K.Set):
            return v
        if isinstance(v, V) and isinstance(v.kind, K.Map):
            return V(K.Set(v.kind.key), [v.terms[0], v.terms[3]])      # the key set: size = len(dict), membership = dom
        if isinstance(v, PyObj) and v.tag == 'emptydict':
            return PyObj('emptyset')
        if isinstance(v, PyObj) and v.tag == 'genexp':
            return self.subset_comprehension(v.node)
        if isinstance(v, PyObj) and v.tag == 'emptylist':
            return PyObj('emptyset')
        if isinstance(v, V) and isinstance(v.kind, K.Seq) and v.kind.elem is not None:
            # set(list): exactly the elements of the list (witness index for the backward direction)
            out = self.p.fresh_value(K.Set(v.kind.elem), 'setof')
            n = K.seq_len(v)
            i = self.p.fresh('setof!i', z3.IntSort())
            sorts = v.kind.elem.leaf_sorts()
            xs = [self.p.fresh('setof!x', srt) for srt in sorts]
            wit = self.p.fresh('setof!w', K.nested_array_sort(sorts, z3.IntSort()))
            at_i = [z3.Select(a, i) for a in v.terms[1:]]
            self.p.assume(z3.And(0 <= out.terms[0], out.terms[0] <= n))
            self.p.assume(K.forall([i], z3.Implies(z3.And(0 <= i, i < n), K.nsel(out.terms[1], at_i)), patterns=at_i[:1]))
            wx = K.nsel(wit, xs)
            self.p.assume(K.forall(xs, z3.Implies(K.nsel(out.terms[1], xs), z3.And(
                0 <= wx, wx < n, *[z3.Select(a, wx) == x for a, x in zip(v.terms[1:], xs)])),
                patterns=[K.nsel(out.terms[1], xs)]))
            self.assume_valid(out)
            return out
        raise Unsupported('set(x)')

    def b_dict_eq(self, args, kwargs, node):
        """dict.__eq__(a, b): same keys, equal values (order-insensitive)."""
        a, b = args
        if isinstance(a, PyObj) or isinstance(b, PyObj):
            raise Unsupported('dict.__eq__ on %r, %r' % (a, b))
        if not (isinstance(a.kind, K.Map) and a.kind == b.kind):
            raise Unsupported('dict.__eq__ on %r, %r' % (a.kind, b.kind))
        kx = self.p.fresh('deq!k', a.kind.key.leaf_sorts()[0])
        kv = V(a.kind.key, [kx])
        return K.vbool(z3.ForAll([kx], z3.And(
            z3.Select(a.terms[3], kx) == z3.Select(b.terms[3], kx),
            z3.Implies(z3.Select(a.terms[3], kx), self.eq(K.map_get(a, kv), K.map_get(b, kv))))))

    def subset_comprehension(self, ge):
        """set(x for x in S if pred(x)) over a set S: the subset of S satisfying pred."""
        if len(ge.generators) != 1:
            raise Unsupported('set(genexp) with several generators')
        g = ge.generators[0]
        src = self.eval(g.iter)
        if not (isinstance(ge.elt, ast.Name) and isinstance(g.target, ast.Name) and ge.elt.id == g.target.id
                and isinstance(src, V) and isinstance(src.kind, K.Set)):
            return self.image_set(ge.elt, ge.generators)
        xs = self.p.fresh_value(src.kind.elem, 'sub!x')
        saved_env = dict(self.env)
        saved_spec, self.spec = self.spec, True
        try:
            self.env[g.target.id] = xs
            pred = z3.And(*[self.truth(self.eval(c)) for c in g.ifs]) if g.ifs else z3.BoolVal(True)
        finally:
            self.spec = saved_spec
            self.env = saved_env
        out = self.p.fresh_value(src.kind, 'subset')
        self.assume_valid(out)
        self.p.assume(K.forall(xs.terms, K.nsel(out.terms[1], xs.terms) == z3.And(K.nsel(src.terms[1], xs.terms), pred),
                               patterns=[K.nsel(out.terms[1], xs.terms), K.nsel(src.terms[1], xs.terms)]))
        self.p.assume(out.terms[0] <= src.terms[0])
        return out

    def b_dict(self, args, kwargs, node):
        if not args and not kwargs:
            return PyObj('emptydict')
        raise Unsupported('dict(...)')

    b_OrderedDict = b_dict

    def b_getattr(self, args, kwargs, node):
        name = simp(args[1].t)
        if not z3.is_string_value(name):
            base = args[0]
            k = base.kind.inner if isinstance(base, V) and isinstance(base.kind, K.Opt) else getattr(base, 'kind', None)
            dyn = getattr(self.w, 'dynamic_getattr', {})
            if isinstance(k, K.Ref):
                for c in self.w.mro(k.cls):
                    if c in dyn:
                        return PyObj('method', self_=base, contract=self.w.contracts[dyn[c]])
            raise Unsupported('getattr with symbolic name')
        attr = name.as_string()
        if isinstance(args[0], PyObj) and args[0].tag == 'exc':
            if attr in args[0].fields:
                return args[0].fields[attr]
            if len(args) == 3:
                return args[2]
            raise PyRaise('AttributeError', None, 'exception has no attribute %s (line %s)' % (attr, node.lineno))
        if len(args) == 3:
            base = args[0]
            k = base.kind.inner if isinstance(base.kind, K.Opt) else base.kind
            if isinstance(k, K.Ref):
                key, fk = self.heap_key(k.cls, attr)
                if key is None and self.w.find_method(k.cls, attr) is None and \
                        self.class_const(k.cls, attr) is None:
                    return args[2]
            else:
                return args[2]
        return self.getattr(args[0], attr, node)

    def b_setattr(self, args, kwargs, node):
        name = simp(args[1].t)
        if not z3.is_string_value(name):
            raise Unsupported('setattr with symbolic attribute name')
        base = args[0]
        if not (isinstance(base, V) and isinstance(base.kind, K.Ref)):
            raise Unsupported('setattr on %r' % (base,))
        key, fk = self.heap_key(base.kind.cls, name.as_string())
        if key is None:
            raise Unsupported('setattr of undeclared field %s.%s' % (base.kind.cls, name.as_string()))
        self.heap_write(base, key, fk, self.coerce_checked(args[2], fk, 'setattr@%s: value not None' % node.lineno, node))
        self.p.written.add(key)
        return K.NONE

    def b_hasattr(self, args, kwargs, node):
        name = simp(args[1].t)
        base = args[0]
        if (isinstance(base, PyObj) and base.tag == 'module') and not self.spec:
            # an unmodelled module / module-level object: whether it has the attribute is unknown
            self.p.__dict__.setdefault('opaque', set()).add('hasattr(%s, ...)' % base.name)
            return K.vbool(self.p.fresh('hasattr!opaque', z3.BoolSort()))
        if not z3.is_string_value(name):
            raise Unsupported('hasattr with symbolic name')
        k = base.kind.inner if isinstance(base.kind, K.Opt) else base.kind
        if isinstance(k, K.Ref):
            key, fk = self.heap_key(k.cls, name.as_string())
            if key is None:
                subs = [c for c in self.w.subclasses(k.cls) if self.w.field_kind(c, name.as_string())[0] is not None
                        or self.w.find_method(c, name.as_string()) is not None]
                if subs:
                    t = K.opt_inner(base).t if isinstance(base.kind, K.Opt) else base.t
                    return K.vbool(z3.Or(*[self.p.ctx.dtype(t) == self.p.ctx.class_id(c) for c in subs]))
            if key is not None:
                # declared optional-presence fields: '<field>?' ghost presence
                pk, pkind = self.heap_key(k.cls, name.as_string() + '?')
                if pk is not None:
                    return self.heap_read(base, pk, pkind)
                return K.vbool(True)
            return K.vbool(self.w.find_method(k.cls, name.as_string()) is not None)
        raise Unsupported('hasattr on %r' % (k,))

    def b_iteritems(self, args, kwargs, node):
        return PyObj('mapview', map=args[0], what='items')

    def b_iterkeys(self, args, kwargs, node):
        return PyObj('mapview', map=args[0], what='keys')

    def b_itervalues(self, args, kwargs, node):
        return PyObj('mapview', map=args[0], what='values')

    def _all_any(self, args, is_all):
        g0 = args[0]
        if not (isinstance(g0, PyObj) and g0.tag == 'genexp'):
            raise Unsupported('all()/any() of a non-generator')
        ge = g0.node
        if len(ge.generators) != 1:
            raise Unsupported('all()/any() with several generators')
        g = ge.generators[0]
        tag, src = self.iter_source(self.eval(g.iter))
        if tag == 'empty':
            return K.vbool(is_all)
        if tag == 'set':
            src, tag = self.set_to_seq(src), 'seq'
        if tag == 'pytuple':
            res = []
            saved = dict(self.env)
            saved_spec, self.spec = self.spec, True
            try:
                for item in src:
                    self.assign_to(g.target, item)
                    conds = [self.truth(self.eval(c)) for c in g.ifs]
                    body = self.truth(self.eval(ge.elt))
                    res.append(z3.Implies(z3.And(*conds), body) if is_all else z3.And(*conds + [body]))
            finally:
                self.spec = saved_spec
                self.env = saved
            return K.vbool((z3.And if is_all else z3.Or)(*res) if res else z3.BoolVal(is_all))
        if tag == 'seq':
            n = K.seq_len(src)
            elem = lambda q: K.seq_get(src, q)
            live = lambda q: z3.BoolVal(True)
        elif tag.startswith('map:'):
            n = src.terms[1]
            what = tag[4:]
            elem = lambda q: (K.map_key_at(src, q) if what == 'keys' else
                              (K.map_get(src, K.map_key_at(src, q)) if what == 'values'
                               else K.vtuple([K.map_key_at(src, q), K.map_get(src, K.map_key_at(src, q))])))
            live = lambda q: K.map_live(src, q)
        else:
            raise Unsupported('all()/any() over %s' % tag)
        q = self.p.fresh('aa!i', z3.IntSort())
        saved = dict(self.env)
        saved_spec, self.spec = self.spec, True
        try:
            self.assign_to(g.target, elem(q))
            conds = [self.truth(self.eval(c)) for c in g.ifs]
            body = self.truth(self.eval(ge.elt))
        finally:
            self.spec = saved_spec
            self.env = saved
        guard = z3.And(0 <= q, q < n, live(q), *conds)
        return K.vbool(z3.ForAll([q], z3.Implies(guard, body)) if is_all else z3.Exists([q], z3.And(guard, body)))

    def b_all(self, args, kwargs, node):
        return self._all_any(args, True)

    def b_any(self, args, kwargs, node):
        return self._all_any(args, False)

    def b_enumerate(self, args, kwargs, node):
        return PyObj('enumerate', seq=args[0])

    def b_deepcopy(self, args, kwargs, node):
        """copy.deepcopy of a value-semantic container (or None / a scalar): the same content, a new owner."""
        v = args[0]
        if isinstance(v, PyObj):
            if v.tag in ('emptylist', 'emptydict', 'emptyset'):
                return v
            raise Unsupported('deepcopy of %r' % (v,))
        base = v.kind.inner if isinstance(v.kind, K.Opt) else v.kind
        if isinstance(base, K.Ref):
            raise Unsupported('deepcopy of an object reference')
        return V(v.kind, v.terms)

    def b_reversed(self, args, kwargs, node):
        """reversed(list): the list read back to front (element j is element len-1-j of the argument)."""
        src = args[0]
        if isinstance(src, PyObj) and src.tag == 'emptylist':
            return src
        if not isinstance(src.kind, K.Seq):
            raise Unsupported('reversed of %r' % (src.kind,))
        n = K.seq_len(src)
        j = z3.Int('rev!j')
        return V(src.kind, [n] + [z3.Lambda([j], z3.Select(a, n - 1 - j)) for a in src.terms[1:]])

    def b_sorted(self, args, kwargs, node):
        """sorted(set-or-list, key=lambda, reverse=const): a fresh list that is a duplicate-free enumeration of a
        set (or a permutation of a list), ordered by the key; the position function is kept for ghost code."""
        src = args[0]
        if isinstance(src, PyObj) and src.tag == 'emptylist':
            return src
        if isinstance(src, V) and isinstance(src.kind, K.Opt):
            self.implicit_raise(z3.Not(K.opt_isnone(src)), 'TypeError', "'NoneType' object is not iterable", node)
            src = K.opt_inner(src)
            args = [src] + list(args[1:])
        if isinstance(src, PyObj):
            raise Unsupported('sorted(%r)' % (src,))
        key = kwargs.get('key')
        rev = kwargs.get('reverse', K.vbool(False))
        revc = simp(rev.t)
        if not (z3.is_true(revc) or z3.is_false(revc)):
            raise Unsupported('sorted with symbolic reverse')
        if isinstance(src.kind, K.Set):
            out = self.set_to_seq(src)
        elif isinstance(src.kind, K.Seq):
            out = self.permutation_of(src)
        else:
            raise Unsupported('sorted(%r)' % (src.kind,))
        n = K.seq_len(out)
        if key is not None:
            i, j = self.p.fresh('srt!i', z3.IntSort()), self.p.fresh('srt!j', z3.IntSort())
            saved_spec, self.spec = self.spec, True
            try:
                ki = self.as_int(self.call_lambda(key, [K.seq_get(out, i)]))
                kj = self.as_int(self.call_lambda(key, [K.seq_get(out, j)]))
            finally:
                self.spec = saved_spec
            order = (ki >= kj) if z3.is_true(revc) else (ki <= kj)
            self.p.assume(z3.ForAll([i, j], z3.Implies(z3.And(0 <= i, i < j, j < n), order)))
        elif isinstance(out.kind.elem, K._Str):
            pass        # string order is not modelled: sorted(list of str) is some permutation of the input
        elif out.kind.elem.nleaves() == 1 and isinstance(out.kind.elem, K._Int):
            i, j = self.p.fresh('srt!i', z3.IntSort()), self.p.fresh('srt!j', z3.IntSort())
            a = out.terms[1]
            order = (z3.Select(a, i) >= z3.Select(a, j)) if z3.is_true(revc) else (z3.Select(a, i) <= z3.Select(a, j))
            self.p.assume(z3.ForAll([i, j], z3.Implies(z3.And(0 <= i, i < j, j < n), order)))
        else:
            raise Unsupported('sorted without key on %r' % (out.kind.elem,))
        self.p.last_sorted = out
        return out

    def permutation_of(self, src):
        out = self.p.fresh_value(src.kind, 'perm')
        n = K.seq_len(src)
        p_, q_ = (self.p.fresh('perm!p', z3.ArraySort(z3.IntSort(), z3.IntSort())),
                  self.p.fresh('perm!q', z3.ArraySort(z3.IntSort(), z3.IntSort())))
        i = self.p.fresh('perm!i', z3.IntSort())
        self.p.assume(K.seq_len(out) == n)

        def body_out(i):       # every output cell comes from a source cell
            return z3.Implies(z3.And(0 <= i, i < n), z3.And(
                0 <= z3.Select(p_, i), z3.Select(p_, i) < n, z3.Select(q_, z3.Select(p_, i)) == i,
                *[z3.Select(o, i) == z3.Select(a, z3.Select(p_, i)) for o, a in zip(out.terms[1:], src.terms[1:])]))

        def body_src(k):       # every source cell goes to an output cell
            return z3.Implies(z3.And(0 <= k, k < n), z3.And(
                0 <= z3.Select(q_, k), z3.Select(q_, k) < n, z3.Select(p_, z3.Select(q_, k)) == k,
                *[z3.Select(o, z3.Select(q_, k)) == z3.Select(a, k) for o, a in zip(out.terms[1:], src.terms[1:])]))
        base_arr = src.terms[1]
        while z3.is_app(base_arr) and base_arr.decl().kind() == z3.Z3_OP_STORE:
            base_arr = base_arr.arg(0)
        self.p.assume(K.forall([i], body_out(i), patterns=[z3.Select(out.terms[1], i)]))
        self.p.assume(K.forall([i], body_src(i), patterns=[z3.Select(src.terms[1], i), z3.Select(base_arr, i)]))
        # cells written by append() are not visible to e-matching (they sit inside store terms): instantiate there
        arr = src.terms[1]
        for _ in range(16):
            if z3.is_app(arr) and arr.decl().kind() == z3.Z3_OP_STORE:
                self.p.assume(body_src(arr.arg(1)))
                arr = arr.arg(0)
            else:
                break
        self.p.seq_pos[out.terms[1].get_id()] = ('perm', p_, q_)
        return out

    def b_index_in(self, args, kwargs, node):
        """index_in(seq, x): position of x in a duplicate-free enumeration produced by sorted(set)/set iteration."""
        seq, x = args
        ent = self.p.seq_pos.get(seq.terms[1].get_id())
        if ent is None or ent[0] != 'setpos':
            raise Unsupported('index_in on a sequence without a registered position function')
        return K.vint(K.nsel(ent[1], K.coerce(x, seq.kind.elem).terms))

    def b_use_lemma(self, args, kwargs, node):
        """Ghost: assume a separately proved lemma, instantiated with the given bindings."""
        name = simp(args[0].t).as_string()
        params, hyps, concl = self.w.lemma_texts[name]
        sub = self.sub_interp(dict(kwargs))
        for p_ in params:
            if p_ not in sub.env:
                raise Unsupported('use_lemma(%s): missing binding %s' % (name, p_))
        sub.spec = True
        sub.old_env, sub.old_heap, sub.old_globals = self.old_env, self.old_heap, self.old_globals
        hs = [sub.truth(sub.eval_text(h)) for h in hyps]
        self.p.assume(z3.Implies(z3.And(*hs) if hs else z3.BoolVal(True), sub.truth(sub.eval_text(concl))))
        self.p.used_lemmas = getattr(self.p, 'used_lemmas', set()) | {name}
        return K.NONE

    def b_src_index(self, args, kwargs, node):
        """src_index(filtered, j): position in the source that element j of a filter comprehension came from."""
        ent = self.p.seq_pos.get(args[0].terms[1].get_id())
        if ent is None or ent[0] != 'filter':
            raise Unsupported('src_index on a sequence that is not the result of a filter comprehension')
        return K.vint(z3.Select(ent[1], self.as_int(args[1])))

    def b_dst_index(self, args, kwargs, node):
        ent = self.p.seq_pos.get(args[0].terms[1].get_id())
        if ent is None or ent[0] != 'filter':
            raise Unsupported('dst_index on a sequence that is not the result of a filter comprehension')
        return K.vint(z3.Select(ent[2], self.as_int(args[1])))

    def b_last_sorted(self, args, kwargs, node):
        return self.p.last_sorted

    def b_fun(self, args, kwargs, node):
        raise Unsupported('fun() needs unevaluated arguments')

    def sp_fun(self, node):
        """fun(K1, ..., Kn, lambda x1..xn: body): the ghost function as a z3 lambda (array)."""
        *dom_nodes, lam = node.args
        names = [a.arg for a in lam.args.args]
        saved_spec, self.spec = self.spec, True
        saved_env = self.env
        self.env = dict(self.env)
        try:
            bound, kinds = [], []
            for nm, dn in zip(names, dom_nodes):
                dom = self.eval(dn)
                if not (isinstance(dom, PyObj) and dom.tag == 'kind'):
                    raise Unsupported('fun() domain must be a declared kind')
                v = self.p.fresh_value(dom.kind, 'lam!' + nm)
                self.env[nm] = v
                bound += v.terms
                kinds.append(dom.kind)
            body = self.eval(lam.body)
            key = kinds[0] if len(kinds) == 1 else K.Tuple(*kinds)
            terms = []
            for t in body.terms:
                arr = t
                for b in reversed(bound):
                    arr = z3.Lambda([b], arr)
                terms.append(arr)
            return V(K.Fun(key, body.kind), terms)
        finally:
            self.env = saved_env
            self.spec = saved_spec

    def b_int(self, args, kwargs, node):
        return K.vint(self.as_int(args[0]))

    # ------------------------------------------------------------ spec helpers
    def b_implies(self, args, kwargs, node):
        return K.vbool(z3.Implies(self.truth(args[0]), self.truth(args[1])))

    def b_iff(self, args, kwargs, node):
        return K.vbool(self.truth(args[0]) == self.truth(args[1]))

    def b_ite(self, args, kwargs, node):
        return self.ite(self.truth(args[0]), args[1], args[2])

    def b_same(self, args, kwargs, node):
        """same(a, b): identical representation (all leaves equal) - implies ==, cheap for lists/dicts in specs."""
        a, b = args
        if a.kind != b.kind:
            b = K.coerce(b, a.kind)
        return K.vbool(z3.And(*[x == y for x, y in zip(a.terms, b.terms)]) if a.terms else z3.BoolVal(True))

    def b_is_none(self, args, kwargs, node):
        v = args[0]
        if isinstance(v.kind, K._None):
            return K.vbool(True)
        if isinstance(v.kind, K.Opt):
            return K.vbool(K.opt_isnone(v))
        return K.vbool(False)

    def b_some(self, args, kwargs, node):
        v = args[0]
        if isinstance(v.kind, K.Opt):
            return K.opt_inner(v)
        return v

    def b_dtype_is(self, args, kwargs, node):
        v, name = args
        nm = simp(name.t).as_string()
        if isinstance(v.kind, K.Opt):
            return K.vbool(z3.And(z3.Not(K.opt_isnone(v)),
                                  self.p.ctx.dtype(K.opt_inner(v).t) == self.p.ctx.class_id(nm)))
        return K.vbool(self.p.ctx.dtype(v.t) == self.p.ctx.class_id(nm))

    def b_range(self, args, kwargs, node):
        if len(args) == 1:
            return PyObj('range', lo=z3.IntVal(0), hi=self.as_int(args[0]))
        return PyObj('range', lo=self.as_int(args[0]), hi=self.as_int(args[1]))

    def b_live(self, args, kwargs, node):
        return K.vbool(K.map_live(args[0], self.as_int(args[1])))

    def b_key_at(self, args, kwargs, node):
        return K.map_key_at(args[0], self.as_int(args[1]))

    def b_log_len(self, args, kwargs, node):
        return K.vint(args[0].terms[1])

    def b_sel(self, args, kwargs, node):
        """sel(seq, i): unchecked element read (total), for specs."""
        return K.seq_get(args[0], self.as_int(args[1]))

    def b_distinct(self, args, kwargs, node):
        return K.vbool(z3.Distinct(*[a.t for a in args]) if len(args) > 1 else z3.BoolVal(True))

    def b_raised(self, args, kwargs, node):
        if self.exc is None:
            return K.vbool(False)
        nm = simp(args[0].t).as_string()
        return K.vbool(self.w.exc_is(self.exc.kind, nm))

    def b_allocated(self, args, kwargs, node):
        v = args[0]
        t = K.opt_inner(v).t if isinstance(v.kind, K.Opt) else v.t
        return K.vbool(z3.And(t > 0, t < self.p.alloc))

    def b_fresh_ref(self, args, kwargs, node):
        """fresh_ref(r): r was allocated during this call."""
        v = args[0]
        t = K.opt_inner(v).t if isinstance(v.kind, K.Opt) else v.t
        return K.vbool(t >= self.old_alloc)

    def sp_old(self, node):
        if self.old_env is None:
            raise Unsupported('old() outside a postcondition')
        saved = (self.env, self.p.heap, self.p.globals, self.old_env)
        saved_epoch = self.p.heap_epoch
        self.p.heap_epoch = getattr(self, 'old_epoch', saved_epoch)
        self.env, self.p.heap, self.p.globals = dict(self.old_env), dict(self.old_heap), \
            dict(self.old_globals)
        # quantifier-bound / spec-local names stay visible inside old()
        for k2, v2 in saved[0].items():
            if k2 not in self.env:
                self.env[k2] = v2
        try:
            return self.eval(node.args[0])
        finally:
            self.env, self.p.heap, self.p.globals = saved[0], saved[1], saved[2]
            self.p.heap_epoch = saved_epoch

    def sp_unchanged(self, node):
        """unchanged('Class.field', ...) - heap arrays identical to the pre-state."""
        conj = []
        for a in node.args:
            key = a.value
            cur = self.p.heap.get(key)
            old = self.old_heap.get(key)
            if cur is None and old is None:
                continue
            cls, f = key.split('.')
            _, kind = self.w.field_kind(cls, f)
            cur = self.heap_arrays(key, kind)
            if old is None:
                old = [z3.Const('H0!%s!%d' % (key, i), z3.ArraySort(z3.IntSort(), s))
                       for i, s in enumerate(kind.leaf_sorts())]
            conj += [c == o for c, o in zip(cur, old)]
        return K.vbool(z3.And(*conj) if conj else z3.BoolVal(True))

    def _quant(self, node, is_forall):
        dom_node, lam = node.args
        if not isinstance(lam, ast.Lambda):
            raise Unsupported('quantifier body must be a lambda')
        names = [a.arg for a in lam.args.args]
        saved_spec, self.spec = self.spec, True
        saved_env = self.env
        self.env = dict(self.env)
        try:
            bound, guards = [], []
            doms = dom_node.elts if (isinstance(dom_node, ast.Tuple) and len(names) > 1) else [dom_node]
            for nm, dn in zip(names, doms):
                dom = self.eval(dn)
                if isinstance(dom, PyObj) and dom.tag == 'range':
                    x = self.p.fresh('q!' + nm, z3.IntSort())
                    guards.append(z3.And(dom.lo <= x, x < dom.hi))
                    self.env[nm] = K.vint(x)
                    bound.append(x)
                elif isinstance(dom, PyObj) and dom.tag == 'kind':
                    v = self.p.fresh_value(dom.kind, 'q!' + nm)
                    self.env[nm] = v
                    bound += v.terms
                    if isinstance(dom.kind, K.Ref):
                        ids = [self.p.ctx.class_id(c) for c in self.w.subclasses(dom.kind.cls)] or \
                              [self.p.ctx.class_id(dom.kind.cls)]
                        guards.append(z3.And(v.t > 0, z3.Or(*[self.p.ctx.dtype(v.t) == i for i in ids])))
                elif isinstance(dom, V) and isinstance(dom.kind, K.Set):
                    v = self.p.fresh_value(dom.kind.elem, 'q!' + nm)
                    self.env[nm] = v
                    bound += v.terms
                    guards.append(K.set_has(dom, v))
                elif isinstance(dom, V) and isinstance(dom.kind, K.Map):
                    v = self.p.fresh_value(dom.kind.key, 'q!' + nm)
                    self.env[nm] = v
                    bound += v.terms
                    guards.append(K.map_has(dom, v))
                elif isinstance(dom, V) and isinstance(dom.kind, K.Seq):
                    # quantify over elements via an index
                    x = self.p.fresh('q!i!' + nm, z3.IntSort())
                    guards.append(z3.And(0 <= x, x < K.seq_len(dom)))
                    self.env[nm] = K.seq_get(dom, x)
                    bound.append(x)
                elif isinstance(dom, V) and isinstance(dom.kind, K.Tuple):
                    # finite: expand
                    res = []
                    for e in K.tuple_items(dom):
                        self.env[nm] = e
                        res.append(self.truth(self.eval(lam.body)))
                    return K.vbool((z3.And if is_forall else z3.Or)(*res) if res
                                   else z3.BoolVal(is_forall))
                else:
                    raise Unsupported('quantifier domain %r' % (dom,))
            body = self.truth(self.eval(lam.body))
            g = z3.And(*guards) if guards else z3.BoolVal(True)
            if is_forall:
                return K.vbool(z3.ForAll(bound, z3.Implies(g, body)))
            return K.vbool(z3.Exists(bound, z3.And(g, body)))
        finally:
            self.env = saved_env
            self.spec = saved_spec

    def sp_forall(self, node):
        return self._quant(node, True)

    def sp_exists(self, node):
        return self._quant(node, False)

    # ------------------------------------------------------- collection methods
    def call_cmethod(self, fn, args, kwargs, node):
        base, name, target = fn.self_, fn.name, fn.target
        if isinstance(base, PyObj):
            if base.tag == 'emptylist' and name == 'append':
                self.assign_to(target, K.seq_append(K.empty_seq(args[0].kind), args[0]), node, inplace=True)
                return K.NONE
            if base.tag == 'emptylist' and name == 'extend':
                self.assign_to(target, args[0], node, inplace=True)
                return K.NONE
            if base.tag == 'emptyset' and name == 'add':
                self.assign_to(target, K.set_add(K.empty_set(args[0].kind), args[0]), node, inplace=True)
                return K.NONE
            if base.tag == 'emptydict' and name == 'get':
                return args[1] if len(args) > 1 else K.NONE
            raise Unsupported('method %s on %s (declare the local kind)' % (name, base.tag))
        k = base.kind
        upd = None
        res = K.NONE
        if isinstance(k, K.Seq):
            if name == 'append':
                upd = K.seq_append(base, self.coerce_checked(args[0], k.elem, 'append@%s: value not None' % node.lineno, node)
                                   if isinstance(args[0], V) else args[0])
            elif name == 'extend':
                other = args[0]
                if isinstance(other, PyObj) and other.tag == 'emptylist':
                    upd = base
                else:
                    upd = self.seq_concat(base, K.coerce(other, k))
            elif name == 'pop' and not args:
                n = K.seq_len(base)
                self.implicit_raise(n > 0, 'IndexError', 'pop from empty list', node)
                res = K.seq_get(base, n - 1)
                self.assume_valid(res)
                upd = V(k, [n - 1] + base.terms[1:])
            elif name == 'index' or name == 'count':
                raise Unsupported('list.%s' % name)
        elif isinstance(k, K.Set):
            if name == 'add':
                upd = K.set_add(base, args[0])
            elif name == 'discard':
                upd = K.set_remove(base, args[0])
            elif name == 'remove':
                self.implicit_raise(K.set_has(base, args[0]), 'KeyError', 'set.remove', node)
                upd = K.set_remove(base, args[0])
            elif name == 'update' and len(args) == 1 and isinstance(args[0], PyObj) and args[0].tag == 'genexp':
                upd = self.image_set(args[0].node.elt, args[0].node.generators, base=base)
            elif name == 'update' and len(args) == 1 and isinstance(args[0], PyObj) and \
                    args[0].tag in ('emptylist', 'emptyset'):
                upd = base
            elif name == 'update' and len(args) == 1 and isinstance(args[0], V) and args[0].kind == k and \
                    k.elem.nleaves() == 1:
                # union in place: membership is the disjunction, the size lies between the larger and the sum
                other = args[0]
                x = z3.Const('un!x', k.elem.leaf_sorts()[0])
                size = self.p.fresh('un!size', z3.IntSort())
                self.p.assume(z3.And(size >= base.terms[0], size >= other.terms[0],
                                     size <= base.terms[0] + other.terms[0]))
                mem = self.p.fresh('un!mem', base.terms[1].sort())
                self.p.assume(K.forall([x], z3.Select(mem, x) == z3.Or(z3.Select(base.terms[1], x),
                                                                         z3.Select(other.terms[1], x)),
                                       patterns=[z3.Select(mem, x), z3.Select(base.terms[1], x),
                                                 z3.Select(other.terms[1], x)]))
                upd = V(k, [size, mem])
                self.assume_valid(upd)
        elif isinstance(k, K.Map):
            if name == 'get':
                dflt = args[1] if len(args) > 1 else K.NONE
                has = K.map_has(base, args[0])
                if self.spec:
                    got = K.map_get(base, args[0])
                    return self.ite(has, K.coerce(got, K.optk(k.val)) if isinstance(dflt.kind, K._None) else got,
                                    K.coerce(dflt, K.optk(k.val)) if isinstance(dflt.kind, K._None) else dflt)
                if self.branch(has):
                    got = K.map_get(base, args[0])
                    self.assume_valid(got)
                    return got
                return dflt
            if name == 'setdefault':
                has = K.map_has(base, args[0])
                if self.branch(has):
                    got = K.map_get(base, args[0])
                    self.assume_valid(got)
                    return got
                dv = args[1]
                if isinstance(dv, PyObj):
                    dv = self.empty_of(k.val, dv)
                upd = K.map_set(base, args[0], dv)
                res = K.coerce(dv, k.val)
            elif name == 'pop':
                has = K.map_has(base, args[0])
                if self.branch(has):
                    res = K.map_get(base, args[0])
                    self.assume_valid(res)
                    upd = K.map_del(base, args[0])
                elif len(args) > 1:
                    return args[1]
                else:
                    raise PyRaise('KeyError', None, 'dict.pop at line %s' % node.lineno)
            elif name in ('items', 'keys', 'values'):
                return PyObj('mapview', map=base, what=name)
            elif name == 'copy':
                return V(base.kind, base.terms)     # a new dict: no longer the owner's own container
            elif name == 'update' and len(args) == 1 and isinstance(args[0], V) and isinstance(args[0].kind, K.Map):
                other = K.V(k, args[0].terms) if args[0].kind == k else None
                if other is None:
                    raise Unsupported('dict.update with a different dict kind')
                upd = self.p.fresh_value(k, 'upd')
                self.assume_valid(upd)
                kx = self.p.fresh('upd!k', k.key.leaf_sorts()[0])
                self.p.assume(K.forall([kx], z3.And(
                    z3.Select(upd.terms[3], kx) == z3.Or(z3.Select(base.terms[3], kx), z3.Select(other.terms[3], kx)),
                    *[z3.Select(u, kx) == z3.If(z3.Select(other.terms[3], kx), z3.Select(o, kx), z3.Select(b, kx))
                      for u, o, b in zip(upd.terms[5:], other.terms[5:], base.terms[5:])]),
                    patterns=[z3.Select(upd.terms[3], kx)] + [z3.Select(u, kx) for u in upd.terms[5:6]]))
            elif name == 'clear':
                upd = K.empty_map(k.key, k.val)
        elif isinstance(k, K.Rec):
            if name == 'pop':
                sk = simp(args[0].t)
                if not z3.is_string_value(sk) or sk.as_string() not in k.fields:
                    raise Unsupported('record.pop with unknown key')
                off, fk = k.slot(sk.as_string())
                got = V(fk, base.terms[off + 1:off + 1 + fk.nleaves()])
                terms = list(base.terms)
                terms[off] = z3.BoolVal(False)
                present = base.terms[off]
                if len(args) > 1:
                    dflt = K.coerce(args[1], fk) if not isinstance(args[1].kind, K._None) else None
                    if dflt is None:
                        raise Unsupported('record.pop with None default')
                    res = self.ite(present, got, dflt)
                else:
                    self.implicit_raise(present, 'KeyError', 'dict.pop', node)
                    res = got
                self.assign_to(target, V(k, terms), node, inplace=True)
                return res
            if name == 'get':
                s = simp(args[0].t)
                if not z3.is_string_value(s):
                    raise Unsupported('record.get with symbolic key')
                key = s.as_string()
                dflt = args[1] if len(args) > 1 else K.NONE
                if key not in k.fields:
                    return dflt
                off, fk = k.slot(key)
                got = V(fk, base.terms[off + 1:off + 1 + fk.nleaves()])
                if self.spec:
                    tk = fk if not isinstance(dflt.kind, K._None) else K.optk(fk)
                    return self.ite(base.terms[off], K.coerce(got, tk), K.coerce(dflt, tk))
                if self.branch(base.terms[off]):
                    return got
                return dflt
        elif isinstance(k, K._Str):
            if name == 'startswith':
                return K.vbool(z3.PrefixOf(args[0].t, base.t))
            if name == 'endswith':
                return K.vbool(z3.SuffixOf(args[0].t, base.t))
            if name == 'replace':
                # z3 str.replace replaces only the first occurrence; Python all
                raise Unsupported('str.replace (all occurrences)')
            if name in ('strip', 'lower', 'upper', 'title'):
                f = self.p.ctx.ufunc('str_' + name, z3.StringSort(), z3.StringSort())
                return K.vstr(f(base.t))
            if name == 'split':
                return self.str_split(base, args, node, right=False)
            if name == 'rsplit':
                return self.str_split(base, args, node, right=True)
            if name == 'join':
                arg = args[0]
                if isinstance(arg, PyObj) and arg.tag == 'emptylist':
                    return K.vstr('')
                if isinstance(arg, V) and isinstance(arg.kind, K.Seq) and isinstance(arg.kind.elem, K._Str):
                    # the text is an uninterpreted function of separator and parts (total: never raises for str parts)
                    f = self.p.ctx.ufunc('str_join', z3.StringSort(), z3.IntSort(), arg.terms[1].sort(), z3.StringSort())
                    return K.vstr(f(base.t, arg.terms[0], arg.terms[1]))
                self.implicit_raise(z3.BoolVal(False), 'TypeError', 'join of non-string items', node)
                raise PathEnd()
        if upd is None and res is K.NONE:
            raise Unsupported('method %s on %r (line %s)' % (name, k, node.lineno))
        if upd is not None:
            if target is None:
                raise Unsupported('mutation without assignable target')
            self.assign_to(target, upd, node, inplace=True)
        return res

    def str_split(self, base, args, node, right):
        if len(args) != 2:
            raise Unsupported('split without maxsplit')
        sep, ms = simp(args[0].t), simp(self.as_int(args[1]))
        if not (z3.is_string_value(sep) and z3.is_int_value(ms) and ms.as_long() == 1
                and len(sep.as_string()) == 1):
            raise Unsupported('split form')
        s = base.t
        idx = z3.IndexOf(s, sep, 0) if not right else z3.LastIndexOf(s, sep)
        if self.spec:
            raise Unsupported('split in spec')
        if self.branch(idx >= 0):
            a = z3.SubString(s, 0, idx)
            b = z3.SubString(s, idx + 1, z3.Length(s) - idx - 1)
            return K.coerce(K.vtuple([K.vstr(a), K.vstr(b)]), K.Seq(K.Str))
        return K.coerce(K.vtuple([K.vstr(s)]), K.Seq(K.Str))

    def empty_of(self, kind, pyobj):
        if pyobj.tag == 'emptylist' and isinstance(kind, K.Seq):
            return K.empty_seq(kind.elem)
        if pyobj.tag == 'emptydict' and isinstance(kind, K.Map):
            return K.empty_map(kind.key, kind.val)
        if pyobj.tag in ('emptyset', 'emptylist') and isinstance(kind, K.Set):
            return K.empty_set(kind.elem)       # e.g. a set-valued field reset with []
        if pyobj.tag == 'emptydict' and isinstance(kind, K.Rec):
            return V(kind, [t for f in kind.fields for t in [z3.BoolVal(False)] + kind.fields[f].default_terms()])
        if pyobj.tag == 'pydict' and isinstance(kind, K.Rec):
            # a record literal holding empty containers: each value takes the declared kind of its key
            given = {}
            for kn, vn in zip(pyobj.node.keys, pyobj.node.values):
                if kn.value not in kind.fields:
                    raise Unsupported('record key %r not declared in %r' % (kn.value, kind))
                v = self.eval(vn)
                fk = kind.fields[kn.value]
                given[kn.value] = self.empty_of(fk, v) if isinstance(v, PyObj) else K.coerce(v, fk)
            terms = []
            for f, fk in kind.fields.items():
                terms += ([z3.BoolVal(True)] + given[f].terms) if f in given else ([z3.BoolVal(False)] + fk.default_terms())
            return V(kind, terms)
        if isinstance(kind, K.Opt):
            return K.opt_some(self.empty_of(kind.inner, pyobj))
        raise Unsupported('empty %s for %r' % (pyobj.tag, kind))

    # ----------------------------------------------------------- objects
    def alloc_ref(self, cls):
        r = self.p.alloc
        self.p.alloc = r + 1
        self.p.assume(self.p.ctx.dtype(r) == self.p.ctx.class_id(cls))
        self.p.new_refs.append((r, cls))
        self.freshness_axioms(r)
        return V(K.Ref(cls), [r])

    def freshness_axioms(self, r):
        """A newly allocated reference occurs nowhere in the heap (the heap only holds allocated refs)."""
        o = self.p.fresh('fr!o', z3.IntSort())
        for cls, d in self.w.classes.items():
            for f, kind in d['fields'].items():
                key = '%s.%s' % (cls, f)
                k = kind.inner if isinstance(kind, K.Opt) else kind
                off = 1 if isinstance(kind, K.Opt) else 0
                arrs = self.heap_arrays(key, kind)
                if isinstance(k, K.Ref):
                    self.p.assume(z3.ForAll([o], z3.Select(arrs[off], o) != r))
                elif isinstance(k, K.Set) and isinstance(k.elem, K.Ref):
                    self.p.assume(z3.ForAll([o], z3.Not(z3.Select(z3.Select(arrs[off + 1], o), r))))
                elif isinstance(k, K.Map) and isinstance(k.val, K.Ref):
                    x = self.p.fresh('fr!k', k.key.leaf_sorts()[0])
                    self.p.assume(z3.ForAll([o, x], z3.Select(z3.Select(arrs[off + 5], o), x) != r))
                elif isinstance(k, K.Seq) and isinstance(k.elem, K.Ref):
                    i = self.p.fresh('fr!i', z3.IntSort())
                    self.p.assume(z3.ForAll([o, i], z3.Select(z3.Select(arrs[off + 1], o), i) != r))

    def instantiate(self, cls, args, kwargs, node):
        ref = self.alloc_ref(cls)
        init = self.w.find_method(cls, '__init__')
        if init is not None:
            self.call_contract(init, [ref] + args, kwargs, node)
        elif args or kwargs:
            raise Unsupported('%s(...) has no __init__ contract' % cls)
        return ref

    def new_exception(self, name, args, kwargs, node):
        return PyObj('exc', kind=name, args=args, fields=dict(kwargs))

    # ----------------------------------------------------------- contracts
    def bind_args(self, c, args, kwargs, node):
        names = [n for n in c.params if n != c.vararg]
        bound = {}
        if len(args) > len(names) and not c.vararg:
            raise PyRaise('TypeError', None, 'too many arguments for %s' % c.name)
        for n, v in zip(names, args):
            bound[n] = v
        if c.vararg:
            extra = list(args[len(names):])
            bound[c.vararg] = PyObj('pytuple', items=extra) \
                if any(isinstance(a, PyObj) for a in extra) else K.vtuple(extra)
            vk = c.params.get(c.vararg)
            if vk is not None and isinstance(bound[c.vararg], V):
                bound[c.vararg] = K.coerce(bound[c.vararg], vk)
        extra_kw = {}
        for n, v in list(kwargs.items()):
            if n not in names and c.kwarg:
                extra_kw[n] = v
                continue
            if n not in names:
                raise Unsupported('%s: keyword %r not declared in contract' % (c.name, n))
            if n in bound:
                raise PyRaise('TypeError', None, 'multiple values for %s' % n)
            bound[n] = v
        if c.kwarg:
            bound[c.kwarg] = PyObj('pykwargs', items=extra_kw)
        for n in names:
            if n not in bound and c.params[n] is None:
                bound[n] = PyObj('unbound', name=n)
        for n in names:
            if n not in bound:
                d = getattr(c, 'defaults', {}).get(n, '<missing>')
                if d == '<missing>':
                    raise Unsupported('%s: missing argument %r (no default declared)' % (c.name, n))
                bound[n] = K.from_py(d)
        out = {}
        for n in names:
            v = bound[n]
            kind = c.params[n]
            if kind is None or isinstance(v, PyObj):
                if isinstance(v, PyObj) and v.tag in ('emptylist', 'emptydict', 'emptyset') and kind is not None:
                    v = self.empty_of(kind, v)
                out[n] = v
            else:
                if isinstance(v.kind, K._None) and not isinstance(kind, (K.Opt, K._None)):
                    # a plain None where the contract declares a non-None parameter
                    self.check(z3.BoolVal(False), 'call %s@%s:arg %s not None' %
                               (c.name, getattr(node, 'lineno', '?'), n), 'precondition', node)
                    raise PathEnd()
                if isinstance(v.kind, K.Opt) and not isinstance(kind, K.Opt):
                    # the contract declares a non-None parameter: passing None is the caller's fault
                    self.check(z3.Not(K.opt_isnone(v)), 'call %s@%s:arg %s not None' %
                               (c.name, getattr(node, 'lineno', '?'), n), 'precondition', node)
                    v = K.opt_inner(v)
                nv = K.coerce(v, kind)
                if getattr(v, 'origin', None) is not None and nv is not v:
                    nv = V(nv.kind, nv.terms)
                    nv.origin = v.origin        # still the owner's own container
                out[n] = nv
        if c.vararg:
            out[c.vararg] = bound[c.vararg]
        return out

    def call_contract(self, c, args, kwargs, node):
        if self.spec and not c.pure:
            raise Unsupported('call of non-pure %s in a specification' % c.name)
        self.p.called.add(c.name)
        bound = self.bind_args(c, args, kwargs, node)
        for pn in getattr(c, 'stores', ()):
            org = getattr(bound.get(pn), 'origin', None)
            if org is not None and not self.spec:
                self.check(z3.BoolVal(False), 'no-shared-container[%s.%s <- %s]' % (c.name, pn, org[0]),
                           'a list/dict/set read from %s is handed to %s, which keeps it, without being copied: later '
                           'in-place changes through one object would silently change the other' % (org[0], c.name), node)
        if c.inline:
            return self.call_inline(c, bound, node)
        sub = self.sub_interp(bound)
        label = 'call %s@%s' % (c.name, getattr(node, 'lineno', '?'))
        # preconditions are obligations of the caller
        for i, r in enumerate(c.requires):
            sub.spec = True
            self.check(sub.truth(sub.eval_text(r)), '%s:pre[%d]' % (label, i), 'precondition', node)
        sub.snapshot_old()
        # may raise?
        if c.may_raise and not self.spec:
            for ek in c.may_raise:
                b = self.p.fresh('raises!%s!%s' % (c.short, ek), z3.BoolSort())
                if self.branch(b):
                    self.raise_from_contract(c, sub, ek, node)
        for ek, cond in c.raises.items():
            if self.spec:
                break
            if cond is True:
                b = self.p.fresh('raises!%s!%s' % (c.short, ek), z3.BoolSort())
            else:
                sub.spec = True
                b = sub.truth(sub.eval_text(cond))
                if not c.raises_exact:
                    b = z3.And(b, self.p.fresh('raises!%s!%s' % (c.short, ek), z3.BoolSort()))
            if self.branch(b):
                self.raise_from_contract(c, sub, ek, node)
        self.havoc_modifies(c, sub)
        if not c.pure:
            self.advance_alloc()
        self.flush_ref_bounds()
        sub.run_ghost(c.effects)
        res = K.NONE
        if c.returns is not None and not isinstance(c.returns, K._None):
            if c.pure and all(isinstance(b, V) for b in bound.values()):
                res = self.pure_result(c, bound)
                self.assume_valid_new(res)
                return res
            res = self.p.fresh_value(c.returns, 'ret!' + c.short)
            self.assume_valid_new(res)
        sub.result = res
        sub.spec = True
        for e in c.ensures:
            self.p.assume(sub.truth(sub.eval_text(e)))
        return res

    def pure_uf(self, c, bound):
        """A pure function is a function of its arguments (and of the heap epoch if it may read the heap)."""
        reads_heap = any(isinstance(b.kind, K.Ref) or (isinstance(b.kind, K.Opt) and isinstance(b.kind.inner, K.Ref))
                         for b in bound.values())
        epoch = self.p.heap_epoch if (reads_heap and c.reads is None) else 0
        arg_terms = [t for b in bound.values() for t in b.terms]
        res = V(c.returns, [
            self.p.ctx.ufunc('pure!%s!e%d!%d!%s' % (c.name, epoch, i, '_'.join(str(t.sort()) for t in arg_terms)),
                             *([t.sort() for t in arg_terms] + [srt]))(*arg_terms)
            if arg_terms else z3.Const('pure!%s!%d' % (c.name, i), srt)
            for i, srt in enumerate(c.returns.leaf_sorts())])
        return res, epoch

    def pure_result(self, c, bound):
        res, epoch = self.pure_uf(c, bound)
        key = (c.name, epoch)
        if key not in self.p.pure_axioms and c.ensures:
            self.p.pure_axioms.add(key)
            # axiom: forall params. requires => ensures[result := f(params)]
            qb = {n: self.p.fresh_value(b.kind, 'ax!' + n) for n, b in bound.items()}
            sub = self.sub_interp(qb)
            sub.spec = True
            sub.snapshot_old()
            sub.result, _ = self.pure_uf(c, qb)
            pre = [sub.truth(sub.eval_text(r)) for r in c.requires]
            post = [sub.truth(sub.eval_text(e)) for e in c.ensures]
            bvars = [t for b in qb.values() for t in b.terms]
            body = z3.Implies(z3.And(*pre) if pre else z3.BoolVal(True), z3.And(*post))
            self.p.assume(z3.ForAll(bvars, body) if bvars else body)
        return res

    def raise_from_contract(self, c, sub, ek, node):
        self.havoc_modifies(c, sub)
        if not c.pure:
            self.advance_alloc()
        self.flush_ref_bounds()
        sub.run_ghost(c.effects_exc)
        e = PyRaise(ek, None, origin='%s at line %s' % (c.name, getattr(node, 'lineno', '?')))
        e.obj = PyObj('exc', kind=ek, args=[], fields={
            f: self.p.fresh_value(k, 'excf!' + f) for f, k in getattr(c, 'exc_fields', {}).items()})
        sub.exc = e
        sub.spec = True
        for t in c.ensures_exc:
            self.p.assume(sub.truth(sub.eval_text(t)))
        raise e

    def b_exc_attr(self, args, kwargs, node):
        name = simp(args[0].t).as_string()
        if self.exc is None:
            raise Unsupported('exc_attr outside an exceptional postcondition')
        obj = getattr(self.exc, 'obj', None)
        if obj is None or name not in obj.fields:
            kind = args[1].kind if len(args) > 1 else K.Atom('Missing')
            if obj is None:
                self.exc.obj = obj = PyObj('exc', kind=self.exc.kind, args=[], fields={})
            obj.fields[name] = self.p.fresh_value(kind, 'excattr!missing!' + name)
            obj.fields.setdefault('$missing', set()).add(name) if False else None
            self.p.missing_exc_attrs = getattr(self.p, 'missing_exc_attrs', set()) | {name}
        return obj.fields[name]

    def b_has_exc_attr(self, args, kwargs, node):
        name = simp(args[0].t).as_string()
        obj = getattr(self.exc, 'obj', None) if self.exc is not None else None
        return K.vbool(obj is not None and name in obj.fields and
                       name not in getattr(self.p, 'missing_exc_attrs', set()))

    def assume_valid_new(self, v):
        """Result of a call: references may have been allocated by the callee."""
        self.assume_valid(v)

    def advance_alloc(self):
        na = self.p.fresh('alloc', z3.IntSort())
        self.p.assume(na >= self.p.alloc)
        self.p.alloc = na

    def sub_interp(self, bound):
        sub = type(self)(self.p, self.w, self.c, self.x, spec=self.spec)
        sub.env = dict(bound)
        sub.depth = self.depth + 1
        return sub

    def snapshot_old(self):
        self.old_env = dict(self.env)
        self.old_heap = dict(self.p.heap)
        self.old_globals = dict(self.p.globals)
        self.old_alloc = self.p.alloc
        self.old_epoch = self.p.heap_epoch

    def havoc_modifies(self, c, sub):
        for m in c.modifies:
            if m in self.w.ghost:
                kind, _ = self.w.ghost[m]
                self.p.globals[m] = self.p.fresh_value(kind, 'g!' + m)
            elif m == '*heap':
                for key in list(self.all_heap_keys()):
                    self.havoc_field(key)
            elif m == '*ghost':
                for g, (kind, _) in self.w.ghost.items():
                    self.p.globals[g] = self.p.fresh_value(kind, 'g!' + g)
            elif '[' in m:
                key, expr = m[:-1].split('[', 1)
                saved_spec, sub.spec = sub.spec, True
                try:
                    v = sub.eval_text(expr)
                finally:
                    sub.spec = saved_spec
                if isinstance(v.kind, K.Opt):
                    v = K.opt_inner(v)
                self.havoc_field_at(key, v)
            else:
                self.havoc_field(m)

    def havoc_field_at(self, key, ref):
        cls, f = key.split('.')
        owner, kind = self.w.field_kind(cls, f)
        if owner is None:
            raise Unsupported('modifies names undeclared field %s' % key)
        k2 = '%s.%s' % (owner, f)
        self.p.heap_epoch += 1
        arrs = self.heap_arrays(k2, kind)
        self.p.heap[k2] = [z3.Store(a, ref.t, self.p.fresh('Hat!%s!%d' % (key, i), s_))
                           for i, (a, s_) in enumerate(zip(arrs, kind.leaf_sorts()))]

    def all_heap_keys(self):
        for cls, d in self.w.classes.items():
            for f in d['fields']:
                yield '%s.%s' % (cls, f)

    def havoc_field(self, key):
        cls, f = key.split('.')
        owner, kind = self.w.field_kind(cls, f)
        if owner is None:
            raise Unsupported('modifies names undeclared field %s' % key)
        self.p.havoc_n += 1
        self.p.heap_epoch += 1
        self.p.heap['%s.%s' % (owner, f)] = [
            self.p.fresh('H!%s!%d' % (key, i), z3.ArraySort(z3.IntSort(), s))
            for i, s in enumerate(kind.leaf_sorts())]
        self.assume_field_valid(kind, self.p.heap['%s.%s' % (owner, f)])
        self.p.__dict__.setdefault('recent_havoc', []).append(('%s.%s' % (owner, f), kind))

    def flush_ref_bounds(self):
        """Every reference stored in a field that was just havocked (loop head, callee effects) denotes an object
        allocated so far: below the current allocation counter."""
        todo = self.p.__dict__.get('recent_havoc') or []
        self.p.recent_havoc = []
        a = self.p.alloc
        done = set()
        for key, kind in todo:
            if key in done or key not in self.p.heap:
                continue
            done.add(key)
            arrs = self.p.heap[key]
            k, off = (kind.inner, 1) if isinstance(kind, K.Opt) else (kind, 0)
            o = self.p.fresh('ra!o', z3.IntSort())
            if isinstance(k, K.Map) and isinstance(k.val, K.Ref):
                x = self.p.fresh('ra!k', k.key.leaf_sorts()[0])
                dom = z3.Select(z3.Select(arrs[off + 3], o), x)
                val = z3.Select(z3.Select(arrs[off + 5], o), x)
                self.p.assume(K.forall([o, x], z3.Implies(dom, z3.And(val > 0, val < a)), patterns=[val]))
            elif isinstance(k, K.Seq) and isinstance(k.elem, K.Ref):
                i = self.p.fresh('ra!i', z3.IntSort())
                val = z3.Select(z3.Select(arrs[off + 1], o), i)
                self.p.assume(K.forall([o, i], z3.Implies(z3.And(0 <= i, i < z3.Select(arrs[off], o)),
                                                          z3.And(val > 0, val < a)), patterns=[val]))
            elif isinstance(k, K.Set) and isinstance(k.elem, K.Ref):
                x = self.p.fresh('ra!x', z3.IntSort())
                mem = z3.Select(z3.Select(arrs[off + 1], o), x)
                self.p.assume(K.forall([o, x], z3.Implies(mem, z3.And(x > 0, x < a)), patterns=[mem]))

    def eval_text(self, text):
        node = _parse_expr(text)
        return self.eval(node)

    def run_ghost(self, stmts):
        if not stmts:
            return
        saved = self.spec
        self.spec = False
        self.ghost_mode = True
        try:
            for text in stmts:
                for st in _parse_stmts(text):
                    self.exec(st)
        finally:
            self.spec = saved
            self.ghost_mode = False

    def call_inline(self, c, bound, node):
        from . import extract
        if self.depth > 4:
            raise Unsupported('inline depth')
        ex = extract.find(c.module, c.name)
        sub = type(self)(self.p, self.w, c, ex, spec=False)
        sub.env = dict(bound)
        sub.depth = self.depth + 1
        self.p.inlined.add(c.name)
        result = K.NONE
        try:
            sub.exec_block(ex.node.body)
        except Return_ as r:
            result = r.value
        # value-semantic containers the callee mutates in place are written back to the caller's argument expression
        inout = getattr(c, 'inout', ())
        if inout and node is not None:
            names = list(c.params)
            off = len(names) - len(node.args) if not node.keywords else None
            for nm in inout:
                if off is None:
                    raise Unsupported('inout parameter with keyword arguments')
                j = names.index(nm) - off
                if j < 0 or j >= len(node.args):
                    raise Unsupported('inout parameter %s not passed positionally' % nm)
                self.assign_to(node.args[j], sub.env[nm], node)
        return result


_expr_cache, _stmt_cache = {}, {}


def _parse_expr(text):
    if text not in _expr_cache:
        _expr_cache[text] = ast.parse(text.strip(), mode='eval').body
    return _expr_cache[text]


def _parse_stmts(text):
    if text not in _stmt_cache:
        import textwrap
        _stmt_cache[text] = ast.parse(textwrap.dedent(text)).body
    return _stmt_cache[text]
