"""`bin/verif check <property>`: decide one property; write evidence; print verdict lines."""
import importlib
import json
import os
import sys
import time
import traceback

from .runner import ROOT, REPO, load_known, run_functions

# evidence/ and replays/ of runs against a scratch copy (VERIF_REPO != /repo: mutant and seed experiments) must not
# overwrite the committed evidence of the real tree
OUT_ROOT = ROOT if os.path.realpath(REPO) == os.path.realpath('/repo') else \
    os.path.join(os.environ.get('VERIF_SCRATCH_OUT') or '/var/tmp', 'verif-out-' + os.path.basename(os.path.realpath(REPO)))

ENCODING_ASSUMPTIONS = [
    'engine: pyvc (this repository, /verif/pyvc) - AST-to-SMT symbolic executor; it is itself trusted',
    'python ints are mathematical integers (exact); no floats',
    'containers declared in the sidecar have value semantics (no aliasing between two containers)',
    'dict iteration = insertion order; set iteration = arbitrary permutation',
    "'%s' formatting = concatenation of str() images; str()/repr() of opaque atoms uninterpreted",
    'attribute reads of declared fields run no descriptors except contracted properties',
    'no threads, no re-entrant signal handlers touching the analysed heap',
    'termination of loops is not proved',
]


def load_baseline(prop):
    path = os.path.join(ROOT, 'baseline', '%s.json' % prop)
    if not os.path.exists(path):
        return {}
    with open(path) as fp:
        return json.load(fp)


def write_baseline(prop):
    """Record which obligations are discharged on the current (unchanged) tree: bin/verif baseline <prop>."""
    with open(os.path.join(OUT_ROOT, 'evidence', '%s.json' % prop)) as fp:
        ev = json.load(fp)
    out = {}
    for f in ev['coverage']['functions_under_contract']:
        out[f['function']] = {'sha256': f.get('sha256'), 'discharged': [], 'abstracted_sha': f.get('abstracted_sha') or {}}
    for o in ev['coverage']['obligation_results']:
        fn, _, label = o['id'].partition(':')
        if fn in out and o['result'] == 'discharged':
            out[fn]['discharged'].append(label)
    os.makedirs(os.path.join(ROOT, 'baseline'), exist_ok=True)
    with open(os.path.join(ROOT, 'baseline', '%s.json' % prop), 'w') as fp:
        json.dump(out, fp, indent=1, sort_keys=True)
    return out


class _BoundedProc(object):
    """One bounded suite in its own (non-daemonic) process; .get() waits for the JSON result."""

    def __init__(self, modname, bname, tier, seed):
        import multiprocessing as mp
        import tempfile
        ctx = mp.get_context('fork')
        fd, self.path = tempfile.mkstemp(suffix='.json', dir=os.environ.get('VERIF_SCRATCH') or None)
        os.close(fd)
        self.proc = ctx.Process(target=_bounded_to_file, args=(modname, bname, tier, seed, self.path))
        self.proc.daemon = False
        self.proc.start()

    def get(self):
        self.proc.join()
        try:
            with open(self.path) as fp:
                return json.load(fp)
        except Exception:
            return {'__crash__': 'bounded suite process ended without a result (exit code %s)' % self.proc.exitcode}
        finally:
            try:
                os.unlink(self.path)
            except OSError:
                pass


def _bounded_to_file(modname, bname, tier, seed, path):
    res = _bounded_worker(modname, bname, tier, seed)
    with open(path, 'w') as fp:
        json.dump(res, fp, default=str)


def _bounded_worker(modname, bname, tier, seed):
    try:
        t0 = time.time()
        fam = importlib.import_module(modname).build()
        b = [x for x in fam.bounded if x.name == bname][0]
        res = dict(b.run(tier=tier, seed=seed))
        res['suite_wall_s'] = round(time.time() - t0, 2)
        return json.loads(json.dumps(res, default=str))
    except Exception:
        return {'__crash__': traceback.format_exc()}


def registry():
    mod = importlib.import_module('contracts.registry')
    return mod.PROPS


def check_import_identity():
    import django_evolution
    got = os.path.realpath(os.path.dirname(django_evolution.__file__))
    want = os.path.realpath(os.path.join(REPO, 'django_evolution'))
    return got == want, got


def run_check(prop, tier='quick', seed=0, strict=False, procs=None):
    t0 = time.time()
    os.environ['VERIF_TIER_EFFECTIVE'] = tier
    procs = procs or int(os.environ.get('VERIF_PROCS', '16'))
    reg = registry()[prop]
    known = load_known()
    my_known = [k for k in known['findings'] if k['property'] == prop]
    lines = []
    violations = []
    checker_defects = []
    ok, got = check_import_identity()
    if not ok:
        checker_defects.append('django_evolution imports from %s, not from %s' % (got, REPO))

    baseline = load_baseline(prop)
    families = []
    for modname in reg['families']:
        mod = importlib.import_module(modname)
        families.append((modname, mod.build()))

    # bounded stand-ins run concurrently with the deductive part (own process: they use the real database)
    import multiprocessing as _mp
    bjobs = [(modname, b.name) for modname, fam in families for b in fam.bounded if prop in b.serves]
    basync = [_BoundedProc(mn, bn, tier, seed) for mn, bn in bjobs]     # non-daemonic: suites may fork workers

    # ---- 1. deductive part: functions under contract
    jobs = []
    for modname, fam in families:
        for c in fam.functions(prop):
            jobs.append((modname, c.name, prop))
    fresults = run_functions(jobs, procs)
    fam_by_name = dict(families)

    obligations, discharged = 0, 0
    ob_records = []
    undecided_functions = []
    functions_under_contract = []
    solver_ms = 0
    for r in fresults:
        if r.get('crash'):
            checker_defects.append('engine crash in %s:\n%s' % (r['function'], r['crash']))
            continue
        functions_under_contract.append({k: r.get(k) for k in (
            'function', 'file', 'line', 'sha256', 'dropped', 'cut', 'paths', 'completed_paths',
            'exits', 'called', 'inlined', 'abstracted', 'abstracted_sha', 'opaque', 'wall_s', 'undecided')})
        # an abstracted statement that has disappeared from a function verified on the baseline: the ghost model that
        # stood for it describes nothing any more
        base_fn = baseline.get(r['function'], {})
        for prefix in (r.get('abstract_missing') or []):
            if prefix in (base_fn.get('abstracted_sha') or {}) and base_fn.get('sha256') != r.get('sha256'):
                oid = '%s:abstraction-justified[%s]' % (r['function'], prefix)
                obligations += 1
                ob_records.append({'id': oid, 'kind': 'abstraction', 'result': 'refuted', 'instances': 1, 'ms': 0,
                                   'solver': ['text comparison'], 'line': r.get('line')})
                violations.append(write_replay(prop, oid, {
                    'function': r['function'], 'file': r.get('file'), 'obligation': oid, 'reproduced': False,
                    'family': r['family'], 'replayer': r['function'], 'label': 'abstraction-justified[%s]' % prefix,
                    'solver_output': 'the statement starting with %r, which the contract replaces by a ghost model, is no '
                                     'longer in the function (baseline sha256 %s, now %s)'
                                     % (prefix, base_fn.get('sha256'), r.get('sha256'))}))
        # statements replaced by a ghost model are trusted to mean what the model says: if their text differs from
        # the text recorded with the baseline, that trust is gone and the affected obligations are not discharged
        base_abs = baseline.get(r['function'], {}).get('abstracted_sha') or {}
        for prefix, sha in (r.get('abstracted_sha') or {}).items():
            obligations += 1
            oid = '%s:abstraction-justified[%s]' % (r['function'], prefix.split('\n')[0][:50])
            if prefix in base_abs and base_abs[prefix] != sha:
                ob_records.append({'id': oid, 'kind': 'abstracted statement unchanged', 'result': 'refuted', 'ms': 0, 'solver': ['sha256']})
                violations.append(write_replay(prop, oid, {
                    'function': r['function'], 'file': r.get('file'), 'obligation': oid, 'reproduced': False,
                    'family': r['family'], 'replayer': r['function'], 'label': oid,
                    'solver_output': 'the statement starting with %r is replaced by a ghost model in the contract; its text '
                                     'changed since the baseline (sha %s -> %s), so the model is no longer justified'
                                     % (prefix, base_abs[prefix], sha)}))
            else:
                discharged += 1
                ob_records.append({'id': oid, 'kind': 'abstracted statement unchanged', 'result': 'discharged', 'ms': 0, 'solver': ['sha256']})
        if r['undecided']:
            undecided_functions.append((r['function'], r['undecided']))
            continue
        if not r['obligations']:
            checker_defects.append('zero obligations generated for %s' % r['function'])
        if r['canary'] is False:
            checker_defects.append('vacuity canary: no reachable exit for %s (contradictory assumptions?)'
                                   % r['function'])
        for o in r['obligations']:
            obligations += 1
            solver_ms += o['ms']
            rec = {k: o[k] for k in ('id', 'kind', 'result', 'instances', 'ms', 'solver', 'line')}
            if o.get('crosscheck'):
                rec['crosscheck'] = o['crosscheck']
            if o.get('disagreement'):
                checker_defects.append('solver disagreement on %s (discharged, but the cross-check found a model)' % o['id'])
            ob_records.append(rec)
            if o['result'] == 'discharged':
                discharged += 1
            elif o['result'] == 'refuted':
                violations.append(handle_refuted(prop, r, o, fam_by_name[r['family']]))
            else:
                fam_ = fam_by_name[r['family']]
                if r['function'] in fam_.replay:
                    # candidate counter-model (quantifier-free part only): believed only if it replays
                    v = handle_refuted(prop, r, o, fam_)
                    if v.get('reproduced'):
                        violations.append(v)
                        undecided_functions.append((r['function'], 'obligation %s undecided by the solvers '
                                                    '(candidate input replayed natively: reproduced)' % o['label']))
                        continue
                base = baseline.get(r['function'], {})
                # ownership side condition: it is generated only where a container is shared, so "absent from the
                # baseline of a function that verified there" means it held on the unchanged tree
                held_before = o['label'] in base.get('discharged', []) or \
                    (o['label'].startswith('no-shared-container') and base.get('discharged'))
                if held_before and base.get('sha256') != r.get('sha256'):
                    # the obligation was discharged on the unchanged tree; the function's text changed and the
                    # solvers can no longer prove it: reported as a violation without a failing input
                    violations.append(write_replay(prop, o['id'], {
                        'function': r['function'], 'file': r.get('file'), 'obligation': o['id'], 'kind': o['kind'],
                        'reproduced': False, 'family': r['family'], 'replayer': r['function'], 'label': o['label'],
                        'solver_output': 'unknown (z3 e-matching, cvc5, z3 default all gave up); the same obligation '
                                         'is discharged on the baseline source (sha256 %s), the analysed source has '
                                         'sha256 %s' % (base.get('sha256'), r.get('sha256'))}))
                undecided_functions.append((r['function'], 'obligation %s undecided by the solvers' % o['label']))

    # ---- 2. lemmas over contracts
    from . import lemmas as L
    for modname, fam in families:
        for lem in fam.lemmas:
            if prop not in lem.serves:
                continue
            for res in L.run_lemma(fam, lem):
                obligations += 1
                solver_ms += res['ms']
                ob_records.append({k: res[k] for k in ('id', 'kind', 'result', 'ms', 'solver')})
                if res['result'] == 'discharged':
                    discharged += 1
                elif res['result'] == 'refuted':
                    violations.append(handle_refuted_lemma(prop, lem, res, fam))
                else:
                    undecided_functions.append((lem.name, 'lemma undecided: %s' % res.get('reason', '')))

    # ---- 3. syntactic obligations on the real AST
    for modname, fam in families:
        for syn in fam.syntactic:
            if prop not in syn.serves:
                continue
            obligations += 1
            try:
                okk, detail = syn.run()
            except Exception as e:      # noqa
                okk, detail = None, 'could not decide: %r' % e
            ob_records.append({'id': 'syntactic:' + syn.name, 'kind': 'syntactic (AST inspection): ' + syn.what,
                               'result': 'discharged' if okk else ('refuted' if okk is False else 'unknown'),
                               'ms': 0, 'solver': ['ast']})
            if okk:
                discharged += 1
            elif okk is False:
                violations.append(write_replay(prop, 'syntactic:' + syn.name, {
                    'obligation': 'syntactic:' + syn.name, 'what': syn.what, 'detail': detail,
                    'reproduced': None, 'solver_output': detail}, no_input=True))
            else:
                undecided_functions.append((syn.name, detail))

    # ---- 4. bounded stand-ins (never counted as proved)
    bounded_records = []
    bounded_known_seen = set()
    for modname, fam in families:
        for b in fam.bounded:
            if prop not in b.serves:
                continue
            tb = time.time()
            try:
                res = basync[[j[1] for j in bjobs].index(b.name)].get()
                if isinstance(res, dict) and res.get('__crash__'):
                    checker_defects.append('bounded check %s crashed:\n%s' % (b.name, res['__crash__']))
                    continue
            except Exception:
                checker_defects.append('bounded check %s crashed:\n%s' % (b.name, traceback.format_exc()))
                continue
            res = dict(res)
            res.update(name=b.name, scope=b.scope, stands_in_for=b.stands_in_for,
                       wall_s=res.get('suite_wall_s', round(time.time() - tb, 2)))
            failures = res.pop('failures', [])
            res['failures'] = len(failures)
            res['unknown_failures'] = len([f for f in failures if not f.get('known')])
            for extra in ('failure_classes', 'failure_total'):
                if extra in res:
                    res[extra] = res[extra]
            bounded_records.append(res)
            listed = {k.get('id') for k in my_known if k.get('kind') == 'bounded'}
            for label in list(res.get('failure_classes') or {}) + list(res.get('failure_counts') or {}):
                for part in str(label).split('|')[-1].strip().split('+'):
                    if part in listed:
                        bounded_known_seen.add(part)
            for f in failures:
                kid = f.get('known_id')
                parts = str(kid).split('+') if kid else []
                if f.get('known') and parts and all(p_ in listed for p_ in parts):
                    bounded_known_seen.update(parts)
                    continue
                f = dict(f)
                f['known'] = False      # a class the committed known-findings file does not list is a violation
                violations.append(handle_bounded_failure(prop, b, f))

    # ---- 5. known findings: witnesses must still fail; print KNOWN-FINDING
    known_reported = []
    final_violations = []
    for v in violations:
        if v is None:
            continue
        final_violations.append(v)
    for k in my_known:
        if k.get('kind') == 'bounded':
            if k['id'] in bounded_known_seen:
                known_reported.append({'id': k['id'], 'what': k['what'], 'status': 'witnessed by the bounded suite in this run'})
                lines.append('KNOWN-FINDING: property=%s %s: %s' % (prop, k['id'], k['what']))
            continue
        fam = None
        for modname, f in families:
            if k.get('function') in f.replay or k.get('replayer') in f.replay:
                fam = f
        status = 'witness not replayed (no adapter)'
        if fam is not None:
            rp = fam.replay.get(k.get('replayer') or k['function'])
            try:
                rr = rp(k['obligation'], k['witness'])
                status = 'witness still fails' if rr.get('reproduced') else 'witness no longer fails'
            except Exception as e:      # noqa
                status = 'witness replay crashed: %r' % e
        known_reported.append({'id': k.get('id'), 'what': k['what'], 'status': status})
        if status == 'witness still fails':
            lines.append('KNOWN-FINDING: property=%s %s' % (prop, k['what']))
        elif status == 'witness no longer fails':
            lines.append('NOTE: known finding %s no longer reproduces (entry is stale): %s' %
                         (k.get('id'), k['what']))

    # drop violations that are exactly a listed finding (matched by obligation + guard on inputs)
    kept = []
    for v in final_violations:
        if v.get('known'):
            continue
        kept.append(v)
    final_violations = kept

    wall = time.time() - t0
    proof_complete = (obligations > 0 and discharged == obligations and not undecided_functions
                      and not checker_defects)
    level = reg['level'] if proof_complete or reg['level'] != 'proof' else 'other'
    trusted = sorted({'%s: %s' % (c.name, c.note or 'assumed contract')
                      for _, fam in families for c in fam.world.contracts.values()
                      if c.trusted and any(c.name in (fr.get('called') or []) for fr in functions_under_contract)})
    abstractions = sorted({'%s: statement %r replaced by ghost model' % (fr['function'], a)
                           for fr in functions_under_contract for a in (fr.get('abstracted') or [])})
    cuts = sorted({'%s: analysed up to (not including) %r' % (fr['function'], fr['cut'])
                   for fr in functions_under_contract if fr.get('cut')})
    cuts += sorted({'%s: %s is not modelled by the sidecar and read as an unconstrained value' % (fr['function'], a)
                    for fr in functions_under_contract for a in (fr.get('opaque') or [])})
    samples = [o for o in ob_records[:3]]
    coverage = {
        'obligations': obligations, 'discharged': discharged,
        'checker_cmd': 'bin/verif check %s --tier %s' % (prop, tier),
        'trusted_base': ENCODING_ASSUMPTIONS[:1] + trusted,
        'functions_under_contract': functions_under_contract,
        'obligation_results': ob_records,
        'solver_time_s': round(solver_ms / 1000.0, 3),
        'undecided': [{'where': a, 'why': b} for a, b in undecided_functions],
        'bounded': bounded_records,
        'known_findings_reported': known_reported,
        'samples': samples or [{'note': 'no obligations'}],
        'explanation': reg.get('explanation', ''),
        'not_decided': reg.get('not_decided', []),
    }
    ev_total = sum(b.get('evaluations', 0) for b in bounded_records)
    if bounded_records:
        coverage['evaluations'] = ev_total
        coverage['distinct_nontrivial'] = sum(b.get('distinct_nontrivial', 0) for b in bounded_records)
        coverage['rule'] = '; '.join('%s: %s' % (b['name'], b.get('rule', b['scope'])) for b in bounded_records)
        coverage['exhaustive'] = all(b.get('exhaustive', False) for b in bounded_records)
    if level != 'proof' and not coverage['explanation']:
        coverage['explanation'] = 'deductive obligations incomplete in this run; see undecided'
    evidence = {
        'property_id': prop, 'tier': tier, 'seed': seed, 'level': level,
        'coverage': coverage,
        'assumptions': ENCODING_ASSUMPTIONS + trusted + abstractions + cuts + reg.get('assumptions', []),
        'wall_s': round(wall, 2),
        'violations': len(final_violations),
    }
    os.makedirs(os.path.join(OUT_ROOT, 'evidence'), exist_ok=True)
    with open(os.path.join(OUT_ROOT, 'evidence', '%s.json' % prop), 'w') as fp:
        json.dump(evidence, fp, indent=1, default=str)

    for ln in lines:
        print(ln)
    print('%s: %d/%d obligations discharged over %d functions; %d undecided; bounded runs %d; %.1fs'
          % (prop, discharged, obligations, len(functions_under_contract), len(undecided_functions),
             len(bounded_records), wall))
    for a, b in undecided_functions:
        print('UNDECIDED %s: %s' % (a, b))
    for d in checker_defects:
        print('CHECKER-DEFECT: %s' % d)
    for v in final_violations:
        tail = '' if v.get('reproduced') else ' no-failing-input-found'
        print('VIOLATION property=%s replay=%s%s' % (prop, v['path'], tail))
    if final_violations:
        return 1
    if checker_defects:
        return 3
    if undecided_functions and strict:
        return 3
    return 0


# ------------------------------------------------------------------ violations

def write_replay(prop, obligation, payload, no_input=False):
    d = os.path.join(OUT_ROOT, 'replays', prop)
    os.makedirs(d, exist_ok=True)
    name = ''.join(ch if ch.isalnum() or ch in '._-' else '_' for ch in obligation)[:120]
    path = os.path.join(d, name + '.json')
    payload = dict(payload)
    payload['property'] = prop
    payload['rerun'] = 'bin/verif replay replays/%s/%s.json' % (prop, name)
    with open(path, 'w') as fp:
        json.dump(payload, fp, indent=1, default=str)
    return {'path': os.path.relpath(path, ROOT) if OUT_ROOT == ROOT else path, 'reproduced': bool(payload.get('reproduced')),
            'obligation': obligation}


def handle_refuted(prop, fres, o, fam):
    """Replay the solver's counterexample on the real code."""
    cname = fres['function']
    rp = fam.replay.get(cname)
    payload = {'function': cname, 'file': fres.get('file'), 'line': o.get('line'),
               'obligation': o['id'], 'kind': o['kind'], 'inputs': o.get('inputs'),
               'solver_output': o.get('model'), 'goal': o.get('goal'), 'family': fres['family'],
               'replayer': cname, 'label': o['label']}
    rr = None
    if rp is not None:
        try:
            rr = rp(o['label'], o.get('inputs') or {})
        except Exception:
            rr = {'reproduced': False, 'error': traceback.format_exc()}
    payload['native'] = rr
    payload['reproduced'] = bool(rr and rr.get('reproduced'))
    return write_replay(prop, o['id'], payload)


def handle_refuted_lemma(prop, lem, res, fam):
    payload = {'lemma': lem.name, 'obligation': res['id'], 'solver_output': res.get('model'),
               'inputs': res.get('inputs'), 'family': fam.name, 'replayer': lem.name, 'label': res['id']}
    rp = fam.replay.get(lem.name)
    rr = None
    if rp is not None:
        try:
            rr = rp(res['id'], res.get('inputs') or {})
        except Exception:
            rr = {'reproduced': False, 'error': traceback.format_exc()}
    payload['native'] = rr
    payload['reproduced'] = bool(rr and rr.get('reproduced'))
    return write_replay(prop, res['id'], payload)


def handle_bounded_failure(prop, b, f):
    known = f.get('known', False)
    payload = {'bounded_check': b.name, 'obligation': 'bounded:%s:%s' % (b.name, f.get('clause', '')),
               'inputs': f.get('inputs'), 'observed': f.get('observed'), 'reproduced': True,
               'replayer': 'bounded:' + b.name, 'label': f.get('clause', ''),
               'solver_output': 'n/a (native bounded run of the same contract)'}
    v = write_replay(prop, payload['obligation'] + '_' + __import__('hashlib').sha1(json.dumps(f.get('inputs'), default=str, sort_keys=True).encode()).hexdigest()[:10], payload)
    v['known'] = known
    return v


def replay_file(path):
    with open(path) as fp:
        payload = json.load(fp)
    fam = importlib.import_module(payload['family']).build() if payload.get('family', '').startswith('contracts.') \
        else None
    if fam is None:
        for modname in registry()[payload['property']]['families']:
            f = importlib.import_module(modname).build()
            if payload.get('replayer') in f.replay:
                fam = f
    if fam is None or payload.get('replayer') not in fam.replay:
        print('no replay adapter for %s; solver output:\n%s' % (payload.get('obligation'), payload.get('solver_output')))
        return 2
    rr = fam.replay[payload['replayer']](payload.get('label'), payload.get('inputs') or {})
    print(json.dumps(rr, indent=1, default=str))
    return 1 if rr.get('reproduced') else 0
