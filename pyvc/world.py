"""Sidecar declarations: classes, contracts, exceptions, ghost state.

A *World* is what one verification unit knows besides the real source text:
field kinds of the classes it touches, the contracts of the functions it
verifies or calls, trusted stubs for externals, ghost globals (monitors) and
the exception hierarchy.
"""
from .kinds import Kind, NoneK

BUILTIN_EXC = {
    'BaseException': None, 'Exception': 'BaseException',
    'KeyError': 'LookupError', 'IndexError': 'LookupError', 'LookupError': 'Exception',
    'AttributeError': 'Exception', 'TypeError': 'Exception', 'ValueError': 'Exception',
    'AssertionError': 'Exception', 'NotImplementedError': 'RuntimeError',
    'RuntimeError': 'Exception', 'StopIteration': 'Exception',
    'ImportError': 'Exception', 'NameError': 'Exception', 'UnboundLocalError': 'NameError',
}


class LoopInv:
    def __init__(self, header, clauses, index=None, modifies_extra=(), decreases=None,
                 ghost_pre=(), ghost_post=()):
        self.header = header            # source text of the loop header (drift check)
        self.clauses = list(clauses)    # Python expressions
        self.index = index              # name bound to the ghost index of a for loop
        self.modifies_extra = list(modifies_extra)
        self.ghost_pre = list(ghost_pre)     # ghost statements run at the start of each iteration
        self.ghost_post = list(ghost_post)   # ... at the end of each iteration


class Contract:
    def __init__(self, name, params=None, returns=NoneK, requires=(), ensures=(),
                 ensures_exc=(), raises=None, modifies=(), effects=(), may_raise=(),
                 invariants=None, serves=(), trusted=False, module=None, locals=None,
                 inline=False, note='', cut_before=None, kwparams=None, pure=False,
                 effects_exc=(), vararg=None, assume_after=None, abstract=None,
                 ghost_in_body=None, observe=(), generator=False, defaults=None, kwarg=None, kwarg_keys=(), exc_fields=None, ghost_before=None, raises_exact=True, reads=None, inout=(), stores=()):
        self.name = name
        self.stores = list(stores)             # parameters whose container argument the callee keeps a reference to
        self.inout = list(inout)               # inline callees: value-semantic parameters mutated in place, written back
        self.params = dict(params or {})
        self.returns = returns
        self.requires = list(requires)
        self.ensures = list(ensures)
        self.ensures_exc = list(ensures_exc)
        self.raises = dict(raises or {})       # ExcName -> condition over old state (str) | True
        self.modifies = list(modifies)
        self.effects = list(effects)           # ghost statements run at each call (stubs)
        self.effects_exc = list(effects_exc)   # ghost statements run when the stub raises
        self.may_raise = list(may_raise)
        self.invariants = dict(invariants or {})
        self.serves = list(serves)
        self.trusted = trusted                 # assumed, never verified (external or out of reach)
        self.module = module                   # repo-relative file of the real function
        self.locals = dict(locals or {})
        self.inline = inline
        self.note = note
        self.cut_before = cut_before           # source text of first statement NOT analysed
        self.vararg = vararg
        self.pure = pure
        self.assume_after = dict(assume_after or {})   # {stmt source prefix: [facts]} - listed as assumptions
        self.abstract = dict(abstract or {})   # {stmt source prefix: replacement ghost statements}
        self.ghost_in_body = dict(ghost_in_body or {})  # {stmt source prefix: ghost statements run after it}
        self.observe = list(observe)           # spec expressions evaluated under a counter-model (for replay)
        self.generator = generator
        self.exc_fields = dict(exc_fields or {})
        self.reads = reads        # heap fields a pure function depends on: None = unknown, () = none
        self.raises_exact = raises_exact   # conditional raises clauses are 'iff' (else only 'raises => cond')
        self.ghost_before = dict(ghost_before or {})   # {stmt source prefix: ghost statements run before it}
        self.kwarg, self.kwarg_keys = kwarg, list(kwarg_keys)
        self.defaults = dict(defaults or {})

    @property
    def cls(self):
        return self.name.rsplit('.', 1)[0] if '.' in self.name else None

    @property
    def short(self):
        return self.name.rsplit('.', 1)[-1]


class World:
    def __init__(self, name):
        self.name = name
        self.classes = {}      # cls -> {'fields': {f: Kind}, 'bases': [cls], 'module': file}
        self.contracts = {}    # qualified name -> Contract
        self.exceptions = dict(BUILTIN_EXC)
        self.ghost = {}        # ghost global name -> (Kind, initial python value or None)
        self.spec_funcs = {}   # name -> python callable(engine, *values) -> value
        self.consts = {}       # name -> python constant usable in specs (e.g. MERGEABLE)
        self.externals = {}    # dotted/global name in repo code -> contract name
        self.lemmas = []
        self.lemma_texts = {}   # name -> (params, [hypothesis texts], conclusion text)
        self.module_names = set()   # global names of the real module treated as opaque objects/modules
        self.builtin_classes = {}   # python builtin type name -> sidecar class (isinstance on references)
        self.const_overrides = {}   # (class, attr) -> callable(interp) -> value, for non-literal class constants
        self.kinds = {}        # name -> Kind usable as a quantifier domain in specs

    # -- declaration helpers
    def cls(self, name, fields=None, bases=(), module=None, views=None):
        self.classes[name] = {'fields': dict(fields or {}), 'bases': list(bases),
                              'module': module, 'views': dict(views or {})}
        return name

    def exc(self, name, base='Exception'):
        self.exceptions[name] = base

    def contract(self, *a, **kw):
        c = Contract(*a, **kw)
        self.contracts[c.name] = c
        return c

    def stub(self, *a, **kw):
        kw['trusted'] = True
        return self.contract(*a, **kw)

    def define(self, name, params, text):
        """Named specification macro: ``name(args)`` expands to ``text`` with params bound (current state)."""
        def expand(it, *args):
            sub = it.sub_interp(dict(zip(params, args)))
            sub.spec = True
            sub.old_env, sub.old_heap, sub.old_globals = it.old_env, it.old_heap, it.old_globals
            sub.old_alloc = getattr(it, 'old_alloc', None)
            sub.old_epoch = getattr(it, 'old_epoch', 0)
            sub.result, sub.exc = it.result, it.exc
            return sub.eval_text(text)
        self.spec_funcs[name] = expand

    def ghost_var(self, name, kind, init=None):
        self.ghost[name] = (kind, init)

    # -- queries
    def mro(self, cls):
        out, todo = [], [cls]
        while todo:
            c = todo.pop(0)
            if c in out:
                continue
            out.append(c)
            todo += self.classes.get(c, {}).get('bases', [])
        return out

    def subclasses(self, cls):
        return [c for c in self.classes if cls in self.mro(c)]

    def field_kind(self, cls, field):
        for c in self.mro(cls):
            f = self.classes.get(c, {}).get('fields', {})
            if field in f:
                return c, f[field]
        return None, None

    def find_method(self, cls, meth):
        for c in self.mro(cls):
            n = '%s.%s' % (c, meth)
            if n in self.contracts:
                return self.contracts[n]
        return None

    def exc_is(self, name, base):
        while name is not None:
            if name == base:
                return True
            name = self.exceptions.get(name)
        return False
