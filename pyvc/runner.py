"""Property-level check runner: verify functions, lemmas, bounded stand-ins; report."""
import importlib
import json
import multiprocessing as mp
import os
import sys
import time
import traceback

ROOT = os.path.dirname(os.path.dirname(os.path.abspath(__file__)))
REPO = os.environ.get('VERIF_REPO', '/repo')


class Family:
    """What a contracts/<family>.py module's build() returns."""

    def __init__(self, name, world):
        self.name = name
        self.world = world
        self.replay = {}        # contract name -> callable(label, inputs) -> dict(reproduced=bool, ...)
        self.lemmas = []        # Lemma
        self.bounded = []       # Bounded
        self.syntactic = []     # Syntactic
        self.notes = []

    def functions(self, prop):
        return [c for c in self.world.contracts.values()
                if not c.trusted and c.module and prop in c.serves]


class Lemma:
    """A solver-checked consequence of contracts (no code involved)."""

    def __init__(self, name, serves, build, uses=()):
        self.name, self.serves, self.build, self.uses = name, list(serves), build, list(uses)


class Bounded:
    """Native run of the real code under the same contract over an enumerated scope."""

    def __init__(self, name, serves, run, scope, stands_in_for=''):
        self.name, self.serves, self.run, self.scope = name, list(serves), run, scope
        self.stands_in_for = stands_in_for


class Syntactic:
    """An AST-level obligation on the real source (decided by inspection of the tree)."""

    def __init__(self, name, serves, run, what):
        self.name, self.serves, self.run, self.what = name, list(serves), run, what


def load_known():
    path = os.path.join(ROOT, 'known_findings.json')
    if not os.path.exists(path):
        return {'findings': [], 'fixed': []}
    with open(path) as fp:
        return json.load(fp)


# ------------------------------------------------------------------ workers

def _verify_worker(args):
    modname, cname, prop = args
    sys.setrecursionlimit(20000)
    try:
        from pyvc import verify, extract
        extract.clear_cache()
        mod = importlib.import_module(modname)
        fam = mod.build()
        c = fam.world.contracts[cname]
        known = [k for k in load_known()['findings']
                 if k.get('function') == cname and k['property'] == prop]
        c.known_guards = {}
        for k in known:
            c.known_guards.setdefault(k['obligation'], []).append(k['guard'])
        rep = verify.verify_function(fam.world, c)
        out = {'function': cname, 'module': c.module, 'undecided': rep.undecided,
               'paths': rep.paths, 'completed_paths': rep.completed_paths,
               'exits': rep.exits, 'wall_s': round(rep.wall_s, 3),
               'called': sorted(rep.called), 'inlined': sorted(rep.inlined),
               'abstracted': sorted(rep.used_abstract), 'cut': c.cut_before,
               'opaque': sorted(getattr(rep, 'opaque', ())),
               'abstracted_sha': {k_: __import__('hashlib').sha256(v_.encode()).hexdigest()[:16] for k_, v_ in rep.abstracted_text.items()},
               'obligations': [], 'canary': None, 'family': modname}
        if rep.extracted is not None:
            out.update(file=rep.extracted.relpath, line=rep.extracted.lineno,
                       sha256=rep.extracted.sha256, dropped=rep.extracted.dropped)
            # abstracted statements that are no longer in the function's text
            import ast as _ast
            segs = [(rep.extracted.seg(n) or '') for n in _ast.walk(rep.extracted.node) if isinstance(n, _ast.stmt)]
            out['abstract_missing'] = sorted(pfx for pfx in c.abstract if not any(sg.startswith(pfx) for sg in segs))
        if rep.undecided is None:
            for label, d in rep.named().items():
                o = {'id': '%s:%s' % (cname, label), 'label': label, 'kind': d['kind'], 'crosscheck': d.get('crosscheck'),
                     'disagreement': d.get('disagreement', False),
                     'result': d['result'], 'instances': d['instances'], 'ms': d['ms'],
                     'solver': sorted(d['solver']), 'line': d['line']}
                if d['cex'] is not None:
                    ob = d['cex']
                    o['candidate_only'] = d['result'] != 'refuted'
                    try:
                        dec = verify.Decoder(ob.model, ob.interp)
                        o['inputs'] = dec.inputs(ob)
                    except Exception as e:      # noqa
                        o['inputs'] = {'<undecodable>': repr(e)}
                    o['model'] = str(ob.model)[:4000]
                    o['goal'] = str(ob.goal)[:1500]
                out['obligations'].append(o)
            out['canary'] = verify.canary(fam.world, c, rep)
        return out
    except Exception:
        return {'function': cname, 'crash': traceback.format_exc(), 'obligations': [],
                'undecided': 'engine crash', 'family': modname}


def run_functions(jobs, procs):
    if not jobs:
        return []
    # every function in its own worker process; a worker that dies (solver watchdog, crash of the solver library)
    # costs only its own function, which is reported as undecided
    from concurrent.futures import ProcessPoolExecutor
    from concurrent.futures.process import BrokenProcessPool
    ctx = mp.get_context('fork')
    results = {}
    pending = list(enumerate(jobs))
    rounds = 0
    while pending and rounds < 4:
        rounds += 1
        with ProcessPoolExecutor(max_workers=max(1, min(procs, len(pending))), mp_context=ctx,
                                 initializer=_worker_init) as ex:
            futs = [(i, j, ex.submit(_verify_worker, j)) for i, j in pending]
            still = []
            for i, j, f in futs:
                try:
                    results[i] = f.result()
                except BrokenProcessPool:
                    still.append((i, j))
                except Exception:
                    results[i] = {'function': j[1], 'crash': traceback.format_exc(), 'obligations': [],
                                  'undecided': 'engine crash', 'family': j[0]}
        if len(still) == len(pending) or rounds == 3:
            # no progress possible for these: one of them takes the pool down every time; run them one by one
            for i, j in still:
                with ProcessPoolExecutor(max_workers=1, mp_context=ctx, initializer=_worker_init) as ex1:
                    try:
                        results[i] = ex1.submit(_verify_worker, j).result()
                    except BrokenProcessPool:
                        results[i] = {'function': j[1], 'obligations': [], 'family': j[0], 'canary': None,
                                      'undecided': 'worker process died (solver call overran its budget by more '
                                                   'than a minute, or the solver library crashed)'}
            still = []
        pending = still
    return [results[i] for i in range(len(jobs))]


def _worker_init():
    from pyvc import verify
    verify._watchdog()
