"""Lemmas: solver-checked consequences of contracts (no code involved)."""
import time
import z3

from .verify import cvc5_check


def run_lemma(fam, lem, timeout_ms=30000):
    out = []
    for item in lem.build(fam):
        oid, hyps, goal = item[0], item[1], item[2]
        decode = item[3] if len(item) > 3 else None
        t0 = time.time()
        s = z3.Solver()
        s.set('timeout', timeout_ms)
        for h in hyps:
            s.add(h)
        s.add(z3.Not(goal))
        uses_strings = 'String' in s.to_smt2()
        r = z3.unknown
        if uses_strings and cvc5_check(s, timeout_ms) == 'unsat':
            r = z3.unsat
            solver_name = 'cvc5-1.0.3 --strings-exp'
        else:
            solver_name = 'z3-' + z3.get_version_string()
            from .verify import z3_cli_check
            cli = z3_cli_check(s, timeout_ms)       # separate process: the in-process call may ignore its timeout
            if cli is None or cli == 'sat':
                r = s.check()                       # (a model is needed for the replay)
            else:
                r = z3.unsat if cli == 'unsat' else z3.unknown
        res = {'id': 'lemma:%s:%s' % (lem.name, oid), 'kind': 'lemma over contracts',
               'solver': [solver_name]}
        if r == z3.unsat:
            res['result'] = 'discharged'
        elif r == z3.sat:
            res['result'] = 'refuted'
            m = s.model()
            res['model'] = str(m)[:4000]
            if decode is not None:
                try:
                    res['inputs'] = decode(m)
                except Exception as e:      # noqa
                    res['inputs'] = {'<undecodable>': repr(e)}
        else:
            r2 = cvc5_check(s, timeout_ms)
            if r2 == 'unsat':
                res['result'] = 'discharged'
                res['solver'] = ['cvc5']
            else:
                res['result'] = 'unknown'
                res['reason'] = s.reason_unknown()
        res['ms'] = int((time.time() - t0) * 1000)
        out.append(res)
    return out


class SpecEnv:
    """Evaluate contract-language texts over fresh symbolic state (no code), for lemmas."""

    def __init__(self, world, params):
        from .engine import Ctx
        from .verify import setup_path
        from .world import Contract
        c = Contract('<lemma>', params=params)
        self.ctx = Ctx(world)
        self.p, self.it = setup_path(world, c, None, self.ctx, [])
        self.it.spec = True

    def t(self, text):
        return self.it.truth(self.it.eval_text(text))

    def bind(self, name, value):
        self.it.env[name] = value

    @property
    def assumptions(self):
        return list(self.p.pc)
