"""pyvc engine, part 3: statements, loops with invariants, try/with, assignment."""
import ast
import z3

from . import kinds as K
from .kinds import V, Unsupported
from .engine import (Interp, PyObj, PyRaise, PathEnd, Return_, Break_, Continue_, simp)
from .calls import CallsMixin, _parse_stmts

MUTATORS = {'append', 'extend', 'pop', 'add', 'remove', 'discard', 'update', 'setdefault',
            'clear', 'insert', 'sort', 'reverse', 'popitem'}


def stored_names(stmts):
    """Syntactic over-approximation of what a block may modify."""
    names, fields, calls = set(), set(), set()

    def target(t):
        if isinstance(t, ast.Name):
            names.add(t.id)
        elif isinstance(t, (ast.Tuple, ast.List)):
            for e in t.elts:
                target(e)
        elif isinstance(t, ast.Attribute):
            fields.add(t.attr)
            root(t.value)
        elif isinstance(t, ast.Subscript):
            root_store(t.value)
        elif isinstance(t, ast.Starred):
            target(t.value)

    def root(t):
        pass

    def root_store(t):
        # x[...] = v / x.f[...] = v / x[...][...] = v
        if isinstance(t, ast.Name):
            names.add(t.id)
        elif isinstance(t, ast.Attribute):
            fields.add(t.attr)
        elif isinstance(t, ast.Subscript):
            root_store(t.value)

    for st in stmts:
        for n in ast.walk(st):
            if isinstance(n, ast.Assign):
                for t in n.targets:
                    target(t)
            elif isinstance(n, (ast.AugAssign, ast.AnnAssign)):
                target(n.target)
            elif isinstance(n, (ast.For,)):
                target(n.target)
            elif isinstance(n, ast.With):
                for it in n.items:
                    if it.optional_vars is not None:
                        target(it.optional_vars)
            elif isinstance(n, ast.ExceptHandler) and n.name:
                names.add(n.name)
            elif isinstance(n, ast.Delete):
                for t in n.targets:
                    if isinstance(t, ast.Subscript):
                        root_store(t.value)
                    else:
                        target(t)
            elif isinstance(n, ast.Call):
                f = n.func
                if isinstance(f, ast.Attribute):
                    calls.add((f.value.id, f.attr) if isinstance(f.value, ast.Name) else f.attr)
                    if f.attr in MUTATORS:
                        root_store(f.value)
                elif isinstance(f, ast.Name):
                    calls.add(f.id)
            elif isinstance(n, (ast.Yield, ast.YieldFrom)):
                names.add('$yield')
    return names, fields, calls


class Exec(CallsMixin, Interp):
    ghost_mode = False

    # -------------------------------------------------------------- blocks
    def exec_block(self, stmts):
        for st in stmts:
            if self.c.cut_before and self.x is not None and self.depth == 0:
                seg = self.x.seg(st) or ''
                if seg.startswith(self.c.cut_before):
                    self.p.cut_hit = True
                    raise Return_(K.NONE)
            self.exec(st)

    def exec(self, st):
        if self.x is not None and not self.ghost_mode and self.depth == 0 and \
                (self.c.abstract or self.c.ghost_in_body or self.c.ghost_before):
            seg = (self.x.seg(st) or '')
            for prefix, extra in self.c.ghost_before.items():
                if seg.startswith(prefix):
                    self.p.used_abstract.add(prefix)
                    self.run_ghost(extra)
            for prefix, repl in self.c.abstract.items():
                if seg.startswith(prefix):
                    self.p.used_abstract.add(prefix)
                    self.p.abstracted_text[prefix] = ast.unparse(st)
                    self.run_ghost(repl)
                    return
            for prefix, extra in self.c.ghost_in_body.items():
                if seg.startswith(prefix):
                    self.p.used_abstract.add(prefix)
                    self._exec1(st)
                    self.run_ghost(extra)
                    return
        self._exec1(st)

    def _exec1(self, st):
        m = getattr(self, 's_' + type(st).__name__, None)
        if m is None:
            raise Unsupported('statement %s (line %s)' % (type(st).__name__,
                                                         getattr(st, 'lineno', '?')))
        m(st)

    # -------------------------------------------------------------- simple
    def s_Pass(self, st):
        pass

    def s_Expr(self, st):
        if isinstance(st.value, ast.Constant):
            return      # docstring
        if isinstance(st.value, ast.Yield):
            return self.do_yield(st.value)
        self.eval(st.value)

    def do_yield(self, node):
        v = self.eval(node.value) if node.value is not None else K.NONE
        cur = self.env.get('$yield')
        if cur is None:
            raise Unsupported('yield in a function not declared as generator')
        self.env['$yield'] = K.seq_append(cur, v)

    def s_Return(self, st):
        raise Return_(self.eval(st.value) if st.value is not None else K.NONE)

    def s_Break(self, st):
        raise Break_()

    def s_Continue(self, st):
        raise Continue_()

    def s_Assert(self, st):
        if self.ghost_mode:
            # ghost assert = proof obligation
            self.check(self.truth(self.spec_eval(st.test)), 'ghost-assert@%s' % ast.unparse(st.test)[:60],
                       'ghost assertion', st)
            return
        self.implicit_raise(self.truth(self.eval(st.test)), 'AssertionError', 'assert', st)

    def spec_eval(self, node):
        saved, self.spec = self.spec, True
        try:
            return self.eval(node)
        finally:
            self.spec = saved

    def s_Raise(self, st):
        if st.exc is None:
            if self.exc is None:
                raise Unsupported('bare raise outside handler')
            raise self.exc
        v = self.eval(st.exc)
        if isinstance(v, PyObj) and v.tag == 'excclass':
            v = PyObj('exc', kind=v.name, args=[], fields={})
        if isinstance(v, PyObj) and v.tag == 'exc':
            e = PyRaise(v.kind, None, origin='raise at line %s' % st.lineno)
            e.obj = v
            raise e
        raise Unsupported('raise of %r' % (v,))

    def s_Assign(self, st):
        v = self.eval(st.value)
        for t in st.targets:
            self.assign_to(t, v, st)

    def s_AnnAssign(self, st):
        if st.value is not None:
            self.assign_to(st.target, self.eval(st.value), st)

    def s_AugAssign(self, st):
        cur = self.eval(st.target)
        rhs = self.eval(st.value)
        if isinstance(cur, PyObj) and cur.tag == 'emptylist':
            new = rhs
        elif isinstance(cur, V) and isinstance(cur.kind, K.Seq) and isinstance(st.op, ast.Add):
            if isinstance(rhs, PyObj) and rhs.tag == 'emptylist':
                new = cur
            else:
                new = self.seq_concat(cur, K.coerce(rhs, cur.kind))
        else:
            new = self.binop(st.op, cur, rhs, st)
        self.assign_to(st.target, new, st, inplace=isinstance(cur, V) and isinstance(cur.kind, (K.Seq, K.Set, K.Map)))

    def s_Delete(self, st):
        for t in st.targets:
            if isinstance(t, ast.Subscript):
                base = self.eval(t.value)
                key = self.eval(t.slice)
                if isinstance(base, V) and isinstance(base.kind, K.Map):
                    self.implicit_raise(K.map_has(base, key), 'KeyError', 'del of missing key', st)
                    self.assign_to(t.value, K.map_del(base, key), st, inplace=True)
                    continue
            raise Unsupported('del form (line %s)' % st.lineno)

    def s_ImportFrom(self, st):
        # function-local import: the imported names become opaque module-level names
        for a in st.names:
            self.w.module_names.add(a.asname or a.name)

    def s_Import(self, st):
        for a in st.names:
            self.w.module_names.add((a.asname or a.name).split('.')[0])

    def s_Global(self, st):
        for n in st.names:
            if n not in self.p.globals:
                raise Unsupported('global %s is not declared as module state in the sidecar' % n)
        self.global_names = getattr(self, 'global_names', set()) | set(st.names)

    def s_FunctionDef(self, st):
        raise Unsupported('nested function %s' % st.name)

    # -------------------------------------------------------------- assignment
    def declared_local(self, name):
        return self.c.locals.get(name) if self.c is not None and self.depth == 0 else None

    def assign_to(self, t, v, node=None, inplace=False):
        if isinstance(t, ast.Name) and inplace and not self.spec:
            cur = self.env.get(t.id)
            org = getattr(cur, 'origin', None) if isinstance(cur, V) else None
            if org is not None and isinstance(v, V):
                # in-place change through a local alias of an object's container: the object sees it too
                okey, okind, oref = org
                nv = K.coerce(v, okind)
                self.heap_write(oref, okey, okind, V(nv.kind, nv.terms))
                self.p.written.add(okey)
                v = V(v.kind, v.terms)
                v.origin = org
        if isinstance(t, ast.Name):
            dk = self.declared_local(t.id)
            if t.id in self.p.globals and (self.ghost_mode or t.id in getattr(self, 'global_names', ())):
                kind = self.w.ghost[t.id][0]
                self.p.globals[t.id] = K.coerce(v, kind)
                return
            if dk is not None:
                if isinstance(v, PyObj):
                    v = self.empty_of(dk, v)
                else:
                    v = K.coerce(v, dk)
            if self.ghost_mode and t.id not in self.env:
                self.ghost_locals[t.id] = v
            else:
                self.env[t.id] = v
            return
        if isinstance(t, (ast.Tuple, ast.List)):
            if isinstance(v, PyObj) and v.tag == 'pytuple':
                items = v.items
            elif isinstance(v, V) and isinstance(v.kind, K.Tuple):
                items = K.tuple_items(v)
            elif isinstance(v, V) and isinstance(v.kind, K.Seq):
                n = K.seq_len(v)
                self.implicit_raise(n == len(t.elts), 'ValueError', 'unpack', node)
                items = [K.seq_get(v, z3.IntVal(i)) for i in range(len(t.elts))]
            else:
                raise Unsupported('unpack of %r' % (v,))
            if len(items) != len(t.elts):
                raise PyRaise('ValueError', None, 'unpack arity at line %s' % getattr(node, 'lineno', '?'))
            for e, x in zip(t.elts, items):
                self.assign_to(e, x, node)
            return
        if isinstance(t, ast.Attribute):
            base = self.eval(t.value)
            if isinstance(base, PyObj) and base.tag == 'exc':
                base.fields[t.attr] = v
                return
            if isinstance(base, PyObj):
                raise Unsupported('attribute store on %r' % (base,))
            if isinstance(base.kind, K.Opt):
                self.implicit_raise(z3.Not(K.opt_isnone(base)), 'AttributeError',
                                    'attribute store on None', node)
                base = K.opt_inner(base)
            if not isinstance(base.kind, K.Ref):
                raise Unsupported('attribute store on %r' % (base.kind,))
            key, fk = self.heap_key(base.kind.cls, t.attr)
            if key is None:
                raise Unsupported('store to undeclared field %s.%s (line %s)' %
                                  (base.kind.cls, t.attr, getattr(node, 'lineno', '?')))
            if isinstance(v, PyObj):
                v = self.empty_of(fk, v)
            v = self.coerce_checked(v, fk, 'store %s.%s@%s: value not None' %
                                    (base.kind.cls, t.attr, getattr(node, 'lineno', '?')), node)
            self.heap_write(base, key, fk, v)
            self.p.written.add(key)
            return
        if isinstance(t, ast.Subscript):
            base = self.eval(t.value)
            idx = self.eval(t.slice)
            if isinstance(base, PyObj):
                raise Unsupported('subscript store on %r (declare the local kind)' % (base,))
            k = base.kind
            if isinstance(k, K.Fun):
                new = K.fun_set(base, idx, v)
            elif isinstance(k, K.Map):
                if isinstance(v, PyObj):
                    v = self.empty_of(k.val, v)
                v = self.coerce_checked(v, k.val, 'dict store@%s: value not None' % getattr(node, 'lineno', '?'), node)
                new = K.map_set(base, idx, v)
            elif isinstance(k, K.Seq):
                i = self.as_int(idx)
                n = K.seq_len(base)
                self.implicit_raise(z3.And(-n <= i, i < n), 'IndexError', 'list assignment', node)
                new = K.seq_set(base, z3.If(i >= 0, i, n + i), v)
            elif isinstance(k, K.Rec):
                s = simp(idx.t)
                if not z3.is_string_value(s) and isinstance(idx.kind, K._Str) and not self.spec:
                    for f in k.fields:          # symbolic key: case split over the declared keys
                        if self.branch(idx.t == z3.StringVal(f)):
                            idx = K.vstr(f)
                            s = simp(idx.t)
                            break
                    else:
                        raise Unsupported('record store with a key outside the declared ones')
                if not z3.is_string_value(s) or s.as_string() not in k.fields:
                    raise Unsupported('record store with unknown key')
                off, fk = k.slot(s.as_string())
                v = self.empty_of(fk, v) if isinstance(v, PyObj) else K.coerce(v, fk)
                terms = list(base.terms)
                terms[off] = z3.BoolVal(True)
                terms[off + 1:off + 1 + fk.nleaves()] = v.terms
                new = V(k, terms)
            else:
                raise Unsupported('subscript store on %r' % (k,))
            self.assign_to(t.value, new, node, inplace=True)
            return
        raise Unsupported('assignment target %s' % type(t).__name__)

    # -------------------------------------------------------------- if
    def s_If(self, st):
        if self.branch(self.truth(self.eval(st.test))):
            self.exec_block_plain(st.body)
        else:
            self.exec_block_plain(st.orelse)

    def exec_block_plain(self, stmts):
        self.exec_block(stmts)

    # -------------------------------------------------------------- loops
    def loop_inv(self, st):
        ordinal = self.loop_ordinals().get(id(st))
        inv = self.c.invariants.get(ordinal) if self.depth == 0 or self.c.inline else None
        if inv is not None and self.x is not None:
            head = (self.x.seg(st) or '').split('\n')[0].strip()
            if inv.header and inv.header.strip() != head:
                raise Unsupported('loop %s header drift: contract has %r, source has %r' %
                                  (ordinal, inv.header, head))
        return ordinal, inv

    def loop_ordinals(self):
        if not hasattr(self, '_ordinals'):
            self._ordinals = {}
            if self.x is not None:
                n = 0
                for node in ast.walk(self.x.node):
                    pass
                # source order: walk statements depth-first in order
                def visit(stmts):
                    nonlocal n
                    for s in stmts:
                        if isinstance(s, (ast.For, ast.While)):
                            n += 1
                            self._ordinals[id(s)] = n
                        for fld in ('body', 'orelse', 'finalbody'):
                            if hasattr(s, fld):
                                visit(getattr(s, fld))
                        if isinstance(s, ast.Try):
                            for h in s.handlers:
                                visit(h.body)
                visit(self.x.node.body)
        return self._ordinals

    def havoc_for_loop(self, body, inv):
        names, fields, calls = stored_names(body)
        for n in inv.modifies_extra:
            if '.' in n:
                self.havoc_field(n.split('[')[0])
            else:
                names.add(n)
        # callee effects (receiver class resolved through the current environment where possible)
        plain_calls = set()
        resolved = []
        for cl in calls:
            dotted = '%s.%s' % cl if isinstance(cl, tuple) else cl
            if dotted in self.w.externals:
                # a module-level object of the real code mapped to a sidecar contract (signal.send, helpers)
                resolved.append(self.w.contracts[self.w.externals[dotted]])
                continue
            if isinstance(cl, tuple):
                recv = self.env.get(cl[0])
                rk = recv.kind if isinstance(recv, V) else None
                if isinstance(rk, K.Opt):
                    rk = rk.inner
                if isinstance(rk, K.Ref):
                    m = self.w.find_method(rk.cls, cl[1])
                    if m is not None:
                        resolved.append(m)
                    continue
                if isinstance(rk, (K.Seq, K.Set, K.Map, K._Str, K.Rec)):
                    continue
                plain_calls.add(cl[1])
            else:
                plain_calls.add(cl)
        calls = plain_calls
        for cn, c in list(self.w.contracts.items()) + [(m.name, m) for m in resolved]:
            if c in resolved or c.short in calls or (c.short == '__init__' and c.cls in calls):
                todo = [c]
                seen = set()
                while todo:
                    cc = todo.pop()
                    if cc.name in seen:
                        continue
                    seen.add(cc.name)
                    for m in cc.modifies:
                        if m in self.w.ghost:
                            names.add(m)
                        elif m == '*heap':
                            for key in self.all_heap_keys():
                                self.havoc_field(key)
                        elif m == '*ghost':
                            names |= set(self.w.ghost)
                        else:
                            self.havoc_field(m.split('[')[0])
                    if cc.inline and cc.module:
                        from . import extract
                        ex = extract.find(cc.module, cc.name)
                        n2, f2, c2 = stored_names(ex.node.body)
                        fields |= f2
                        c2 = {x[1] if isinstance(x, tuple) else x for x in c2}
                        for c3n, c3 in self.w.contracts.items():
                            if c3.short in c2:
                                todo.append(c3)
                    # ghost effects may assign ghost globals
                    for text in list(cc.effects) + list(cc.effects_exc):
                        for gs in _parse_stmts(text):
                            gn, gf, gc = stored_names([gs])
                            names |= {g for g in gn if g in self.w.ghost}
        for text in list(inv.ghost_pre) + list(inv.ghost_post):
            for gs in _parse_stmts(text):
                gn, gf, gc = stored_names([gs])
                names |= gn
        if self.c.ghost_in_body and self.x is not None:
            segs = [(self.x.seg(n) or '') for b in body for n in ast.walk(b) if isinstance(n, ast.stmt)]
            for prefix, extra in list(self.c.ghost_in_body.items()) + list(self.c.ghost_before.items()):
                if not any(sg.startswith(prefix) for sg in segs):
                    continue
                for text in extra:
                    for gs in _parse_stmts(text):
                        gn, gf, gc = stored_names([gs])
                        names |= {g for g in gn if g in self.w.ghost or g in self.ghost_locals}
        for f in fields:
            for cls, d in self.w.classes.items():
                if f in d['fields']:
                    self.havoc_field('%s.%s' % (cls, f))
        for n in sorted(names):
            if n in self.env:
                cur = self.env[n]
                dk = self.declared_local(n)
                if isinstance(cur, PyObj):
                    if dk is None:
                        if cur.tag in ('emptylist', 'emptydict', 'emptyset'):
                            raise Unsupported('local %r modified in loop needs a declared kind' % n)
                        continue
                    cur = self.empty_of(dk, cur)
                kind = dk or cur.kind
                nv = self.p.fresh_value(kind, 'L!' + n)
                self.assume_valid(nv)
                self.env[n] = nv
            elif n in self.ghost_locals:
                cur = self.ghost_locals[n]
                nv = self.p.fresh_value(cur.kind, 'L!' + n)
                self.assume_valid(nv)
                self.ghost_locals[n] = nv
            elif n in self.p.globals:
                kind = self.w.ghost[n][0]
                nv = self.p.fresh_value(kind, 'G!' + n)
                self.assume_valid(nv)
                self.p.globals[n] = nv
            else:
                dk = self.declared_local(n)
                if dk is not None:
                    nv = self.p.fresh_value(dk, 'L!' + n)
                    self.assume_valid(nv)
                    self.env[n] = nv
        self.advance_alloc()
        self.flush_ref_bounds()

    def coerce_declared_locals(self, body):
        names, _, _ = stored_names(body)
        for n in names:
            dk = self.declared_local(n)
            if dk is not None and n in self.env:
                cur = self.env[n]
                self.env[n] = self.empty_of(dk, cur) if isinstance(cur, PyObj) else K.coerce(cur, dk)

    def check_inv(self, inv, ordinal, when, st):
        saved, self.spec = self.spec, True
        try:
            for i, cl in enumerate(inv.clauses):
                self.check(self.truth(self.eval_text(cl)),
                           'loop%d:inv[%d]:%s' % (ordinal, i, when), 'loop invariant (%s)' % when, st)
        finally:
            self.spec = saved

    def assume_inv(self, inv):
        saved, self.spec = self.spec, True
        try:
            for cl in inv.clauses:
                self.p.assume(self.truth(self.eval_text(cl)))
        finally:
            self.spec = saved

    def s_While(self, st):
        ordinal, inv = self.loop_inv(st)
        if st.orelse:
            raise Unsupported('while-else')
        if inv is None:
            # bounded unrolling only when the guard becomes concretely false
            for _ in range(64):
                c = simp(self.truth(self.eval(st.test)))
                if z3.is_false(c):
                    return
                if not z3.is_true(c):
                    raise Unsupported('while loop %s without invariant' % ordinal)
                try:
                    self.exec_block(st.body)
                except Break_:
                    return
                except Continue_:
                    pass
            raise Unsupported('while loop %s: unrolling limit' % ordinal)
        self.coerce_declared_locals(st.body)
        self.check_inv(inv, ordinal, 'entry', st)
        self.havoc_for_loop(st.body, inv)
        self.assume_inv(inv)
        self.note_loop_exit(ordinal, z3.Not(self.truth(self.eval(st.test))), st)
        if self.branch(self.truth(self.eval(st.test))):
            try:
                self.run_ghost(inv.ghost_pre)
                self.exec_block(st.body)
            except Break_:
                return
            except Continue_:
                pass
            self.run_ghost(inv.ghost_post)
            self.check_inv(inv, ordinal, 'preserved', st)
            raise PathEnd()

    def iter_source(self, it):
        """Normalise an iterable to (kind_tag, payload)."""
        if isinstance(it, PyObj):
            if it.tag in ('emptylist', 'emptydict', 'emptyset'):
                return 'empty', None
            if it.tag == 'enumerate':
                tag, payload = self.iter_source(it.seq)
                return 'enum:' + tag, payload
            if it.tag == 'mapview':
                if isinstance(it.map, PyObj):
                    if it.map.tag == 'emptydict':
                        return 'empty', None
                    raise Unsupported('view of %r' % (it.map,))
                m = it.map
                if isinstance(m.kind, K.Opt):
                    self.implicit_raise(z3.Not(K.opt_isnone(m)), 'AttributeError', 'dict view of None', None)
                    m = K.opt_inner(m)
                return 'map:' + it.what, m
            if it.tag == 'pytuple':
                return 'pytuple', it.items
            if it.tag == 'range':
                return 'range', it
            raise Unsupported('iteration over %r' % (it,))
        k = it.kind
        if isinstance(k, K.Opt):
            self.implicit_raise(z3.Not(K.opt_isnone(it)), 'TypeError', "'NoneType' object is not iterable", None)
            it = K.opt_inner(it)
            k = it.kind
        if isinstance(k, K.Seq):
            return 'seq', it
        if isinstance(k, K.Tuple):
            return 'pytuple', K.tuple_items(it)
        if isinstance(k, K.Map):
            return 'map:keys', it
        if isinstance(k, K.Set):
            return 'set', it
        raise Unsupported('iteration over %r' % (k,))

    def s_For(self, st):
        ordinal, inv = self.loop_inv(st)
        if st.orelse:
            raise Unsupported('for-else')
        it = self.eval(st.iter)
        tag, src = self.iter_source(it)
        enum = tag.startswith('enum:')
        if enum:
            tag = tag[5:]
        if tag == 'empty':
            return
        if tag == 'pytuple':
            for j, item in enumerate(src):
                self.assign_to(st.target, K.vtuple([K.vint(j), item]) if enum else item, st)
                try:
                    self.exec_block(st.body)
                except Break_:
                    return
                except Continue_:
                    pass
            return
        if tag == 'set':
            src = self.set_to_seq(src)
            tag = 'seq'
            self.ghost_locals['order'] = src      # the (arbitrary) enumeration, nameable in invariants
        if tag == 'range':
            n_log = src.hi - src.lo
        else:
            n_log = K.seq_len(src) if tag == 'seq' else src.terms[1]

        def element(i):
            if tag == 'range':
                return K.vint(src.lo + i)
            if tag == 'seq':
                e = K.seq_get(src, i)
            else:
                key = K.map_key_at(src, i)
                what = tag[4:]
                if what == 'keys':
                    e = key
                elif what == 'values':
                    e = K.map_get(src, key)
                else:
                    e = K.vtuple([key, K.map_get(src, key)])
            self.assume_valid(e)
            return e

        def is_live(i):
            return K.map_live(src, i) if tag.startswith('map:') else z3.BoolVal(True)

        n_c = simp(n_log)
        if inv is None:
            if not z3.is_int_value(n_c):
                raise Unsupported('for loop %s (line %s) over symbolic length without invariant'
                                  % (ordinal, st.lineno))
            cnt = 0
            for j in range(n_c.as_long()):
                jj = z3.IntVal(j)
                if not self.branch(is_live(jj)):
                    continue
                e = element(jj)
                self.assign_to(st.target, K.vtuple([K.vint(cnt), e]) if enum else e, st)
                cnt += 1
                try:
                    self.exec_block(st.body)
                except Break_:
                    return
                except Continue_:
                    pass
            return
        if enum and tag != 'seq':
            raise Unsupported('enumerate over non-list with invariant')
        idx = inv.index or ('_i%d' % ordinal)
        self.coerce_declared_locals(st.body)
        if tag == 'seq':
            self.ghost_locals[idx + '_seq'] = src      # the iterated list, nameable in invariants
        self.ghost_locals[idx] = K.vint(0)
        self.check_inv(inv, ordinal, 'entry', st)
        if isinstance(st.target, ast.Name) and st.target.id not in self.env and not enum:
            # give the loop variable its kind already now, so that method calls on it inside the body are resolved to
            # the right class when the body's effects are havocked (otherwise every method of that name counts)
            ek = None
            if tag == 'seq':
                ek = src.kind.elem
            elif tag == 'map:keys':
                ek = src.kind.key
            elif tag == 'map:values':
                ek = src.kind.val
            if ek is not None:
                self.env[st.target.id] = self.p.fresh_value(ek, 'tgt!' + st.target.id)
        self.havoc_for_loop(st.body, inv)
        i = self.p.fresh('idx!' + idx, z3.IntSort())
        self.ghost_locals[idx] = K.vint(i)
        self.p.assume(z3.And(0 <= i, i <= n_log))
        self.assume_inv(inv)
        self.note_loop_exit(ordinal, z3.Not(i < n_log), st)
        if self.branch(i < n_log):
            if self.branch(is_live(i)):
                e = element(i)
                self.assign_to(st.target, K.vtuple([K.vint(i), e]) if enum else e, st)
                try:
                    self.run_ghost(inv.ghost_pre)
                    self.exec_block(st.body)
                except Break_:
                    return
                except Continue_:
                    pass
                self.run_ghost(inv.ghost_post)
            self.ghost_locals[idx] = K.vint(i + 1)
            self.check_inv(inv, ordinal, 'preserved', st)
            raise PathEnd()
        # exit: i == n

    def note_loop_exit(self, ordinal, exit_cond, st):
        """Vacuity guard: right after assuming the invariant, leaving the loop must be possible (otherwise the
        invariant - or what was havocked for it - contradicts the loop ever ending, and everything after the loop goes
        unexamined).  Only recorded on the first, undecided exploration of the branch."""
        if len(self.p.taken) < len(self.p.decisions):
            return
        if not self.p.feasible(exit_cond) and self.p.feasible(z3.Not(exit_cond)):
            self.p.__dict__.setdefault('dead_exits', set()).add(
                'loop %s (line %s) cannot be left under its invariant' % (ordinal, getattr(st, 'lineno', '?')))

    def set_to_seq(self, s):
        """Iteration order of a set: an arbitrary (fresh, unconstrained) enumeration without repeats."""
        k = K.Seq(s.kind.elem)
        seq = self.p.fresh_value(k, 'setorder')
        n = K.seq_len(seq)
        i = self.p.fresh('so!i', z3.IntSort())
        sorts = s.kind.elem.leaf_sorts()
        xs = [self.p.fresh('so!x', srt) for srt in sorts]
        pos = self.p.fresh('so!pos', K.nested_array_sort(sorts, z3.IntSort()))
        self.p.assume(n == s.terms[0])
        at_i = [z3.Select(a, i) for a in seq.terms[1:]]
        self.p.assume(K.forall([i], z3.Implies(z3.And(0 <= i, i < n),
                                                z3.And(K.nsel(s.terms[1], at_i),
                                                       K.nsel(pos, at_i) == i)),
                                patterns=[at_i[0]]))
        px = K.nsel(pos, xs)
        self.p.assume(K.forall(xs, z3.Implies(K.nsel(s.terms[1], xs),
                                               z3.And(0 <= px, px < n,
                                                      *[z3.Select(a, px) == x for a, x in zip(seq.terms[1:], xs)])),
                                patterns=[K.nsel(s.terms[1], xs), px]))
        self.p.seq_pos[seq.terms[1].get_id()] = ('setpos', pos)
        return seq

    def flatmap_comprehension(self, elt, gens):
        """[elt for a in outer for b in inner(a)] without filters: the concatenation, in order, of the mapped inner
        lists (offsets off[t], inverse witnesses tq/kq)."""
        g1, g2 = gens
        if g1.ifs or g2.ifs or g1.is_async or g2.is_async:
            raise Unsupported('filtered comprehension with several generators')
        outer = self.eval(g1.iter)
        tag, src = self.iter_source(outer)
        if tag == 'empty':
            return PyObj('emptylist')
        if tag != 'seq':
            raise Unsupported('comprehension with several generators over %s' % tag)
        n = K.seq_len(src)
        saved = dict(self.env)
        saved_spec, self.spec = self.spec, True
        try:
            def inner_at(t):
                self.assign_to(g1.target, K.seq_get(src, t))
                inner = self.eval(g2.iter)
                if isinstance(inner, PyObj) or not isinstance(inner.kind, K.Seq):
                    raise Unsupported('inner generator of a comprehension must be a list')
                return inner

            def elt_at(t, k):
                inner = inner_at(t)
                self.assign_to(g2.target, K.seq_get(inner, k))
                return self.eval(elt)
            t, k, q = (self.p.fresh('fm!t', z3.IntSort()), self.p.fresh('fm!k', z3.IntSort()),
                       self.p.fresh('fm!q', z3.IntSort()))
            off = self.p.fresh('fm!off', z3.ArraySort(z3.IntSort(), z3.IntSort()))
            tq = self.p.fresh('fm!tq', z3.ArraySort(z3.IntSort(), z3.IntSort()))
            kq = self.p.fresh('fm!kq', z3.ArraySort(z3.IntSort(), z3.IntSort()))
            e = elt_at(t, k)
            out = self.p.fresh_value(K.Seq(e.kind), 'fm')
            ln = K.seq_len(inner_at(t))
            self.p.assume(z3.Select(off, 0) == 0)
            self.p.assume(K.forall([t], z3.Implies(z3.And(0 <= t, t < n),
                                                   z3.And(ln >= 0, z3.Select(off, t + 1) == z3.Select(off, t) + ln)),
                                   patterns=[z3.Select(off, t)]))
            self.p.assume(K.seq_len(out) == z3.Select(off, n))
            self.p.assume(K.forall([t, k], z3.Implies(
                z3.And(0 <= t, t < n, 0 <= k, k < ln),
                z3.And(*[z3.Select(a, z3.Select(off, t) + k) == x for a, x in zip(out.terms[1:], e.terms)])),
                patterns=[z3.MultiPattern(z3.Select(off, t), x) for x in e.terms[:1] if not z3.is_const(x)]))
            lq = K.seq_len(inner_at(z3.Select(tq, q)))
            self.p.assume(K.forall([q], z3.Implies(
                z3.And(0 <= q, q < K.seq_len(out)),
                z3.And(0 <= z3.Select(tq, q), z3.Select(tq, q) < n, 0 <= z3.Select(kq, q), z3.Select(kq, q) < lq,
                       q == z3.Select(off, z3.Select(tq, q)) + z3.Select(kq, q))),
                patterns=[z3.Select(a, q) for a in out.terms[1:2]]))
            return out
        finally:
            self.env = saved
            self.spec = saved_spec

    def comprehension(self, elt, gens, what):
        if len(gens) == 2:
            return self.flatmap_comprehension(elt, gens)
        if len(gens) != 1 or gens[0].is_async:
            raise Unsupported('comprehension with several generators')
        g = gens[0]
        it = self.eval(g.iter)
        tag, src = self.iter_source(it)
        saved = dict(self.env)
        try:
            if tag == 'empty':
                return PyObj('emptylist')
            if tag == 'pytuple':
                out = []
                for item in src:
                    self.assign_to(g.target, item)
                    if all(self.branch(self.truth(self.eval(c))) for c in g.ifs):
                        out.append(self.eval(elt))
                if not out:
                    return PyObj('emptylist')
                if what == 'tuple':
                    return K.vtuple(out)
                s = K.empty_seq(out[0].kind)
                for o in out:
                    s = K.seq_append(s, o)
                return s
            if tag == 'set':
                src = self.set_to_seq(src)
                tag = 'seq'
            if tag == 'seq' and not g.ifs:
                q = self.p.fresh('comp!i', z3.IntSort())
                self.assign_to(g.target, K.seq_get(src, q))
                saved_spec, self.spec = self.spec, True
                try:
                    e = self.eval(elt)
                finally:
                    self.spec = saved_spec
                out = self.p.fresh_value(K.Seq(e.kind), 'comp')
                self.p.assume(K.seq_len(out) == K.seq_len(src))
                self.p.assume(z3.ForAll([q], z3.Implies(
                    z3.And(0 <= q, q < K.seq_len(src)),
                    z3.And(*[z3.Select(a, q) == t for a, t in zip(out.terms[1:], e.terms)]))))
                return out
            if tag == 'seq' and len(g.ifs) >= 1:
                return self.filter_comprehension(elt, g, K.seq_len(src), lambda pos: K.seq_get(src, pos),
                                                 lambda pos: z3.BoolVal(True))
            if tag.startswith('map:'):
                what = tag[4:]

                def melem(pos, src=src, what=what):
                    key = K.map_key_at(src, pos)
                    if what == 'keys':
                        return key
                    if what == 'values':
                        return K.map_get(src, key)
                    return K.vtuple([key, K.map_get(src, key)])
                return self.filter_comprehension(elt, g, src.terms[1], melem,
                                                 lambda pos, src=src: K.map_live(src, pos))
            raise Unsupported('comprehension over %s' % tag)
        finally:
            self.env = saved

    def filter_comprehension(self, elt, g, n, elem_at, live_at):
        """[elt for x in src if pred]: axiomatised as an order-preserving filter (spec-mode pred/elt)."""
        idx = self.p.fresh('flt!idx', z3.ArraySort(z3.IntSort(), z3.IntSort()))
        inv = self.p.fresh('flt!inv', z3.ArraySort(z3.IntSort(), z3.IntSort()))
        j, j2, i = (self.p.fresh('flt!j', z3.IntSort()), self.p.fresh('flt!j2', z3.IntSort()),
                    self.p.fresh('flt!i', z3.IntSort()))
        saved_spec, self.spec = self.spec, True
        try:
            def at(pos):
                self.assign_to(g.target, elem_at(pos))
                pred = z3.And(live_at(pos), *[self.truth(self.eval(c)) for c in g.ifs])
                return pred, self.eval(elt)
            pj, ej = at(z3.Select(idx, j))
            pi, _ = at(i)
        finally:
            self.spec = saved_spec
        out = self.p.fresh_value(K.Seq(ej.kind), 'flt')
        m = K.seq_len(out)
        self.p.assume(z3.And(0 <= m, m <= n))
        self.p.assume(K.forall([j], z3.Implies(z3.And(0 <= j, j < m), z3.And(
            0 <= z3.Select(idx, j), z3.Select(idx, j) < n, pj,
            *[z3.Select(a, j) == t for a, t in zip(out.terms[1:], ej.terms)])),
            patterns=[z3.Select(idx, j)] + [z3.Select(a, j) for a in out.terms[1:2]]))
        self.p.assume(K.forall([j, j2], z3.Implies(z3.And(0 <= j, j < j2, j2 < m),
                                                    z3.Select(idx, j) < z3.Select(idx, j2)),
                                patterns=[z3.MultiPattern(z3.Select(idx, j), z3.Select(idx, j2))]))
        src_pat = [t for t in elem_at(i).terms if not z3.is_const(t)][:1]
        self.p.assume(K.forall([i], z3.Implies(z3.And(0 <= i, i < n, pi), z3.And(
            0 <= z3.Select(inv, i), z3.Select(inv, i) < m, z3.Select(idx, z3.Select(inv, i)) == i)),
            patterns=[z3.Select(inv, i)] + src_pat))
        self.p.seq_pos[out.terms[1].get_id()] = ('filter', idx, inv)
        return out

    def e_SetComp(self, node):
        return self.image_set(node.elt, node.generators)

    def image_set(self, elt, generators, base=None):
        """{f(x) for x in src if p(x)} (optionally united with `base`): membership by an existential over the source."""
        if len(generators) != 1:
            raise Unsupported('set comprehension with several generators')
        g = generators[0]
        tag, src = self.iter_source(self.eval(g.iter))
        if tag == 'set':
            src, tag = self.set_to_seq(src), 'seq'
        if tag == 'empty':
            return base if base is not None else PyObj('emptyset')
        if tag == 'seq':
            n = K.seq_len(src)
            elem_at = lambda pos: K.seq_get(src, pos)
            live_at = lambda pos: z3.BoolVal(True)
        elif tag.startswith('map:'):
            n = src.terms[1]
            what = tag[4:]

            def elem_at(pos):
                key = K.map_key_at(src, pos)
                return key if what == 'keys' else (K.map_get(src, key) if what == 'values'
                                                   else K.vtuple([key, K.map_get(src, key)]))
            live_at = lambda pos: K.map_live(src, pos)
        else:
            raise Unsupported('set comprehension over %s' % tag)
        q = self.p.fresh('sc!i', z3.IntSort())
        saved = dict(self.env)
        saved_spec, self.spec = self.spec, True
        try:
            self.assign_to(g.target, elem_at(q))
            pred = z3.And(live_at(q), *[self.truth(self.eval(c)) for c in g.ifs])
            e = self.eval(elt)
        finally:
            self.spec = saved_spec
            self.env = saved
        kind = base.kind if base is not None else K.Set(e.kind)
        e = K.coerce(e, kind.elem)
        out = self.p.fresh_value(kind, 'setcomp')
        self.assume_valid(out)
        xs = [self.p.fresh('sc!x', srt) for srt in e.kind.leaf_sorts()]
        img = z3.Exists([q], z3.And(0 <= q, q < n, pred, *[x == t for x, t in zip(xs, e.terms)]))
        if base is not None:
            img = z3.Or(K.nsel(base.terms[1], xs), img)
        self.p.assume(K.forall(xs, K.nsel(out.terms[1], xs) == img, patterns=[K.nsel(out.terms[1], xs)]))
        self.p.assume(K.forall([q], z3.Implies(z3.And(0 <= q, q < n, pred), K.nsel(out.terms[1], e.terms))))
        return out

    def e_ListComp(self, node):
        return self.comprehension(node.elt, node.generators, 'list')

    def e_GeneratorExp(self, node):
        return self.comprehension(node.elt, node.generators, 'list')

    # -------------------------------------------------------------- try / with
    def handler_matches(self, h, exc):
        if h.type is None:
            return True
        names = []
        t = h.type
        elts = t.elts if isinstance(t, ast.Tuple) else [t]
        for e in elts:
            names.append(ast.unparse(e).split('.')[-1])
        for n in names:
            if n not in self.w.exceptions:
                raise Unsupported('except clause names undeclared exception %s' % n)
        return any(self.w.exc_is(exc.kind, n) for n in names)

    def s_Try(self, st):
        try:
            try:
                self.exec_block(st.body)
            except PyRaise as e:
                if e.kind not in self.w.exceptions:
                    raise Unsupported('exception kind %s undeclared' % e.kind)
                for h in st.handlers:
                    if self.handler_matches(h, e):
                        if not hasattr(e, 'obj'):
                            e.obj = PyObj('exc', kind=e.kind, args=[], fields={})
                        if h.name:
                            self.env[h.name] = e.obj
                        saved_exc, self.exc = self.exc, e
                        try:
                            self.exec_block(h.body)
                        finally:
                            self.exc = saved_exc
                        break
                else:
                    raise
            else:
                self.exec_block(st.orelse)
        except PathEnd:
            raise
        except (PyRaise, Return_, Break_, Continue_):
            if st.finalbody:
                self.exec_block(st.finalbody)
            raise
        else:
            if st.finalbody:
                self.exec_block(st.finalbody)

    def s_With(self, st):
        if len(st.items) != 1:
            raise Unsupported('with several items')
        item = st.items[0]
        mgr = self.eval(item.context_expr)
        if not (isinstance(mgr, V) and isinstance(mgr.kind, K.Ref)):
            raise Unsupported('with on %r' % (mgr,))
        enter = self.w.find_method(mgr.kind.cls, '__enter__')
        exit_ = self.w.find_method(mgr.kind.cls, '__exit__')
        if enter is None or exit_ is None:
            raise Unsupported('%s has no __enter__/__exit__ contract' % mgr.kind.cls)
        val = self.call_contract(enter, [mgr], {}, st)
        if item.optional_vars is not None:
            self.assign_to(item.optional_vars, val, st)
        exck = K.Opt(K.Atom('ExcInfo'))
        none3 = [K.opt_none(K.Atom('ExcInfo'))] * 3
        try:
            self.exec_block(st.body)
        except PathEnd:
            raise
        except PyRaise as e:
            some = K.opt_some(self.p.fresh_value(K.Atom('ExcInfo'), 'excinfo'))
            r = self.call_contract(exit_, [mgr, some, some, some], {}, st)
            if isinstance(r, V) and not isinstance(r.kind, K._None) and self.branch(self.truth(r)):
                return
            raise e
        except (Return_, Break_, Continue_):
            self.call_contract(exit_, [mgr] + none3, {}, st)
            raise
        else:
            self.call_contract(exit_, [mgr] + none3, {}, st)
