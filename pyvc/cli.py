import argparse
import os
import sys


def main():
    ap = argparse.ArgumentParser(prog='verif')
    sub = ap.add_subparsers(dest='cmd', required=True)
    c = sub.add_parser('check')
    c.add_argument('prop')
    c.add_argument('--tier', default=os.environ.get('VERIF_TIER', 'quick'))
    c.add_argument('--strict', action='store_true')
    r = sub.add_parser('replay')
    r.add_argument('path')
    sub.add_parser('selftest')
    b = sub.add_parser('baseline')
    b.add_argument('props', nargs='*')
    sub.add_parser('list')
    a = ap.parse_args()
    sys.setrecursionlimit(20000)
    import django
    django.setup()
    from pyvc import check
    if a.cmd == 'check':
        seed = int(os.environ.get('VERIF_SEED', '0') or 0)
        sys.exit(check.run_check(a.prop, tier=a.tier, seed=seed, strict=a.strict))
    if a.cmd == 'replay':
        path = a.path if os.path.isabs(a.path) else os.path.join(check.ROOT, a.path)
        sys.exit(check.replay_file(path))
    if a.cmd == 'list':
        for k, v in sorted(check.registry().items()):
            print(k, v['families'])
        sys.exit(0)
    if a.cmd == 'baseline':
        for pr in (a.props or sorted(check.registry())):
            rc = check.run_check(pr, tier='quick', seed=0, strict=True)
            if rc != 0:
                print('baseline NOT written for %s (rc=%s)' % (pr, rc))
                continue
            check.write_baseline(pr)
            print('baseline written for', pr)
        sys.exit(0)
    if a.cmd == 'selftest':
        from pyvc import selftest
        sys.exit(selftest.main())


if __name__ == '__main__':
    main()
