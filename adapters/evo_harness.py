"""Native scenario harness for django-evolution (real code, real SQLite).

This module runs the *real* django-evolution machinery (``AppMutator``, the
SQLite evolver backend, ``SQLExecutor``) against the *real* scratch SQLite
test database for small, programmatically described scenarios and reports
what happened as plain Python data (lists / dicts / tuples / scalars).

Environment
===========

Run from an (empty) scratch cwd with::

    PYTHONPATH=/repo:/repo/tests:/verif DJANGO_SETTINGS_MODULE=settings \\
        /verif/.venv/bin/python yourscript.py

and call :func:`setup` once (every public function calls it lazily anyway,
but ``django_evolution.mutations`` can only be imported *after* ``setup()``
because importing it needs the Django app registry).
``setup()`` mirrors /repo/conftest.py: compat patches, ``django.setup()``,
``setup_test_environment()``, ``create_test_db()`` for every alias
('default' and 'db_multi', both in-memory shared-cache SQLite databases) and
``migrate``.  The dynamic test app ``tests`` (module
``django_evolution.tests.models``) is registered ONCE and stays registered
until :func:`teardown`; only its *models* are registered/unregistered per
call.  The set of tables existing after ``setup()`` is the *baseline*: every
table not in the baseline is considered scratch and is dropped before and
after each scenario.

Model description format ("spec")
=================================

::

    spec = {
        'TestModel': {
            'fields': {
                'char_field': ('CharField', {'max_length': 20}),
                'int_field': ('IntegerField', {'null': True}),
                'ref': ('ForeignKey', {'to': 'Other'}),
            },
            'meta': {'unique_together': [('char_field', 'int_field')]},
        },
        'Other': {'fields': {'value': ('IntegerField', {})}},
    }

* dict order is significant (model order and field/column order); use
  ``OrderedDict`` or plain (insertion ordered) dicts;
* ``field_type_name`` is a class name in ``django.db.models`` (a field class
  object is accepted as well);
* relation kwargs: ``'to': 'ModelName'`` names a model of the same spec
  (``'self'`` and dotted ``'app_label.Model'`` strings are passed through);
  ``on_delete`` defaults to ``models.CASCADE`` and may be given as a string
  (``'SET_NULL'``); ``'through': 'ModelName'`` is resolved the same way;
* an ``id`` AutoField primary key is implicit unless some field has
  ``primary_key=True`` (``DEFAULT_AUTO_FIELD`` of the test settings, i.e.
  ``AutoField`` -> ``integer``);
* ``meta`` accepts any Django ``Meta`` option.  ``indexes`` entries may be
  ``models.Index`` objects or dicts of ``Index`` kwargs; ``constraints``
  entries may be constraint objects or dicts ``{'type': 'UniqueConstraint' |
  'CheckConstraint' | <class>, ...kwargs}``;
* all models get ``app_label = 'tests'``; the default table name therefore is
  ``tests_<modelname lowercased>``.

Row format
==========

``rows = {model_or_table_name: [{column_or_field_name: value, ...}, ...]}``.
Rows are inserted with raw SQL in the given order with foreign-key
enforcement switched off (dangling references are possible on purpose; they
show up in ``fk_check``).  Keys that name a model field are mapped to the
field's column (``'ref'`` -> ``'ref_id'``).

Result format of :func:`run_mutations`
======================================

::

    {
      'error': None | {'class': 'SimulationFailure', 'repr': '...',
                       'message': '...', 'phase': 'setup'|'simulate'|'sql'|
                       'execute', 'group': <index or None>,
                       'failed_statement': '...'   # execute phase only
                      },
      'sql': [[stmt, ...], ...],      # per group, rendered to strings
      'rebuilds': {table: n},         # CREATE TABLE "TEMP_TABLE" rebuilds
      'rebuilds_per_group': [{table: n}, ...],
      'final_sig': {Model: {'fields': {name: {'type': 'django.db.models.X',
                                             'attrs': {...},
                                             'related_model': 'tests.Y'}},
                            'meta': {...}}},
      'final_sig_serialized': <AppSignature.serialize() of app 'tests'>,
      'schema': {table: {'columns': [(name, decl_type, notnull, pk), ...],
                         'column_defaults': {name: dflt_value_sql},
                         'indexes': [(unique, (col, ...)), ...],   # sorted
                         'named_indexes': [(name, unique, (col, ...)), ...],
                         'create_sql': '...',
                         'index_sql': [...],
                         'foreign_keys': [(table, from, to), ...]}},
      'rows': {table: {'columns': [...], 'rows': [tuple, ...]}},
      'fk_check': [(table, rowid, parent, fkid), ...],
      'integrity_check': ['ok'],
      'start_schema': <same structure as 'schema', before the mutations>,
      'start_sig': <same structure as 'final_sig', before the mutations>,
      'sig_matches_end': None | bool,   # only when end_spec is given:
                                        # Diff(final, end).is_empty(), the
                                        # project's own test criterion
      'sig_equals_end': None | bool,    # strict AppSignature.__eq__
      'sig_diff': None | str,           # str(Diff) when not empty
      'end_sig': None | {...},          # only when end_spec is given
      'connection_reset': bool,  # True if a transaction was left open and
                                 # had to be force-closed (that is a finding)
      'hard_reset': bool,        # True if the test DBs had to be re-created
      'elapsed': seconds,
    }

Only scratch tables (those not in the baseline) are reported in ``schema``
and ``rows``.  Row values are the raw SQLite storage values (declared-type
converters are bypassed: booleans are 0/1, datetimes are strings).  Use
:func:`to_jsonable` before ``json.dump`` (tuples -> lists, bytes -> hex).

Error phases: ``setup`` (building models / creating tables / inserting rows),
``simulate`` (``AppMutator.run_mutations``), ``sql`` (``AppMutator.to_sql``),
``execute`` (running the SQL through ``SQLExecutor``).  After an error the
remaining groups are skipped but the database is still introspected.
"""

from __future__ import print_function, unicode_literals

import contextlib
import io
import os
import re
import sys
import time
import warnings
from collections import OrderedDict

APP_LABEL = 'tests'
TEMP_TABLE_NAME = 'TEMP_TABLE'

_state = {
    'ready': False,
    'old_db_names': None,
    'baseline': {},           # alias -> set of table names
    'baseline_db_state': {},  # alias -> DatabaseState of the baseline tables
    'app_registered': False,
    'test_env': False,
}


# ---------------------------------------------------------------------------
# Process-wide setup / teardown
# ---------------------------------------------------------------------------

def setup(quiet=True):
    """Idempotent process-wide initialisation (mirrors /repo/conftest.py)."""
    if _state['ready']:
        return

    os.environ.setdefault('DJANGO_SETTINGS_MODULE', 'settings')
    os.environ.setdefault('DJANGO_EVOLUTION_TEST_DB', 'sqlite3')

    for path in ('/repo/tests', '/repo'):
        if path not in sys.path:
            sys.path.insert(0, path)

    from django_evolution.compat.patches import apply_patches
    apply_patches()

    import django
    django.setup()

    from django.conf import settings
    from django.core import management
    from django.db import connections
    from django.test.utils import setup_test_environment

    if not _state['test_env']:
        setup_test_environment()
        _state['test_env'] = True

    settings.DEBUG = False

    sink = io.StringIO()
    ctx = contextlib.redirect_stdout(sink) if quiet else _null_context()

    with ctx:
        old_db_names = []

        for alias in connections:
            connection = connections[alias]
            old_db_names.append((connection,
                                 connection.settings_dict['NAME']))
            connection.creation.create_test_db(0, autoclobber=True)

        _state['old_db_names'] = old_db_names

        management.call_command('migrate', verbosity=0, interactive=False)

    # Register the dynamic 'tests' app once (the project's tests do this per
    # test via register_models(); it is the expensive part, so keep it).
    from django_evolution.compat.apps import (is_app_registered,
                                              register_app)
    from django_evolution.compat.models import all_models
    from django_evolution.tests import models as evo_test

    all_models[APP_LABEL].clear()

    if not is_app_registered(evo_test):
        register_app(APP_LABEL, evo_test)
        _state['app_registered'] = True

    for alias in connections:
        _state['baseline'][alias] = set(_table_names(connections[alias]))

    _state['ready'] = True


def teardown():
    """Undo :func:`setup`: unregister the app, destroy the test databases."""
    if not _state['ready']:
        return

    from django.db import connections
    from django.test.utils import teardown_test_environment
    from django_evolution.compat.apps import unregister_app

    try:
        for alias in list(_state['baseline']):
            try:
                _cleanup(alias)
            except Exception:
                pass

        if _state['app_registered']:
            unregister_app(APP_LABEL)
            _state['app_registered'] = False
    finally:
        try:
            for connection, name in _state['old_db_names'] or []:
                _reset_connection(connection)
                connection.creation.destroy_test_db(name, verbosity=0)
        finally:
            _state['old_db_names'] = None
            _state['baseline'] = {}

            if _state['test_env']:
                teardown_test_environment()
                _state['test_env'] = False

            _state['ready'] = False
            _state['baseline_db_state'] = {}


@contextlib.contextmanager
def _null_context():
    yield


# ---------------------------------------------------------------------------
# Model building
# ---------------------------------------------------------------------------

_RELATION_TYPES = ('ForeignKey', 'OneToOneField', 'ManyToManyField')


def _resolve_model_ref(value, spec, built, own_name):
    """Resolve a 'to'/'through' value to a class or lazy reference."""
    if not isinstance(value, str):
        return value

    if value == 'self' or value == own_name:
        return 'self'

    if '.' in value:
        return value

    if value in built:
        return built[value]

    if value in spec:
        return '%s.%s' % (APP_LABEL, value)

    raise ValueError('Relation target %r is not a model of the spec' % value)


def _build_field(models, type_name, kwargs, spec, built, own_name):
    if isinstance(type_name, str):
        try:
            field_cls = getattr(models, type_name)
        except AttributeError:
            raise ValueError('Unknown django.db.models field type %r'
                             % type_name)
        name = type_name
    else:
        field_cls = type_name
        name = field_cls.__name__

    kwargs = dict(kwargs or {})

    is_relation = (name in _RELATION_TYPES or
                   (isinstance(field_cls, type) and
                    issubclass(field_cls, models.fields.related.RelatedField)))

    if is_relation:
        if 'to' not in kwargs:
            raise ValueError('Relation field of type %s needs a "to" kwarg'
                             % name)

        kwargs['to'] = _resolve_model_ref(kwargs['to'], spec, built, own_name)

        if 'through' in kwargs:
            through = _resolve_model_ref(kwargs['through'], spec, built,
                                         own_name)
            if through == 'self':
                through = '%s.%s' % (APP_LABEL, own_name)
            kwargs['through'] = through

        is_m2m = issubclass(field_cls, models.ManyToManyField)

        if not is_m2m:
            on_delete = kwargs.get('on_delete', models.CASCADE)

            if isinstance(on_delete, str):
                on_delete = getattr(models, on_delete)

            kwargs['on_delete'] = on_delete

    return field_cls(**kwargs)


def _build_meta_value(models, key, value):
    if key == 'indexes':
        result = []

        for item in value or []:
            if isinstance(item, dict):
                item = models.Index(**item)

            result.append(item)

        return result

    if key == 'constraints':
        result = []

        for item in value or []:
            if isinstance(item, dict):
                item = dict(item)
                ctype = item.pop('type', 'UniqueConstraint')

                if isinstance(ctype, str):
                    ctype = getattr(models, ctype)

                item = ctype(**item)

            result.append(item)

        return result

    return value


def _purge_registry():
    """Remove every 'tests' model (and pending lazy operation) from Django."""
    from django.apps import apps
    from django_evolution.compat.models import all_models
    from django_evolution.utils.models import clear_model_rel_tree

    try:
        from django_evolution.tests import utils as test_utils
        test_utils._registered_test_models = []
    except Exception:
        pass

    all_models[APP_LABEL].clear()

    pending = getattr(apps, '_pending_operations', None)

    if pending:
        for key in list(pending):
            if key and key[0] == APP_LABEL:
                del pending[key]

    apps.clear_cache()
    clear_model_rel_tree()


def build_models(spec):
    """Create and register model classes for a spec.

    Any previously registered 'tests' models are unregistered first.

    Returns:
        collections.OrderedDict: model name -> model class, in spec order.
        Auto-created many-to-many "through" models are registered in Django
        but not included.
    """
    setup()

    from django.db import models
    from django_evolution.tests import models as evo_test

    _purge_registry()

    built = OrderedDict()

    try:
        with warnings.catch_warnings():
            warnings.simplefilter('ignore')

            for model_name, model_spec in spec.items():
                model_spec = model_spec or {}
                meta_attrs = {'app_label': APP_LABEL}

                for key, value in (model_spec.get('meta') or {}).items():
                    meta_attrs[str(key)] = _build_meta_value(models, key,
                                                             value)

                attrs = OrderedDict()
                attrs['__module__'] = evo_test.__name__
                attrs['Meta'] = type(str('Meta'), (object,), meta_attrs)

                for field_name, field_info in (
                        model_spec.get('fields') or {}).items():
                    if isinstance(field_info, models.Field):
                        field = field_info
                    else:
                        if isinstance(field_info, (tuple, list)):
                            if len(field_info) == 1:
                                type_name, kwargs = field_info[0], {}
                            else:
                                type_name, kwargs = field_info[:2]
                        else:
                            type_name, kwargs = field_info, {}

                        field = _build_field(models, type_name, kwargs, spec,
                                             built, model_name)

                    attrs[str(field_name)] = field

                built[model_name] = type(str(model_name), (models.Model,),
                                         dict(attrs))
    except Exception:
        _purge_registry()
        raise

    return built


def _all_tables_of(model_map):
    """Return table names of the models incl. auto-created m2m tables."""
    tables = []

    for model in model_map.values():
        meta = model._meta
        tables.append(meta.db_table)

        for field in meta.local_many_to_many:
            through = field.remote_field.through

            if through is not None and through._meta.auto_created:
                tables.append(through._meta.db_table)

    return tables


# ---------------------------------------------------------------------------
# Signatures
# ---------------------------------------------------------------------------

def _project_sig(model_map):
    from django_evolution.tests.utils import create_test_project_sig

    return create_test_project_sig(models=list(model_map.items()),
                                   app_label=APP_LABEL)


def to_jsonable(value):
    """Recursively convert a result to something ``json.dumps`` accepts."""
    if value is None or isinstance(value, (bool, int, float, str)):
        return value

    if isinstance(value, bytes):
        return 'hex:' + value.hex()

    if isinstance(value, dict):
        return OrderedDict(
            (key if isinstance(key, str) else repr(key), to_jsonable(item))
            for key, item in value.items()
        )

    if isinstance(value, (list, tuple)):
        return [to_jsonable(item) for item in value]

    if isinstance(value, (set, frozenset)):
        return sorted((to_jsonable(item) for item in value), key=repr)

    if isinstance(value, type):
        return '%s.%s' % (value.__module__, value.__name__)

    return repr(value)


def _plain(value):
    """Convert signature values to plain, comparable data (lists, dicts)."""
    if value is None or isinstance(value, (bool, int, float, str, bytes)):
        return value

    if isinstance(value, dict):
        return dict((key, _plain(item)) for key, item in value.items())

    if isinstance(value, (list, tuple)):
        return [_plain(item) for item in value]

    if isinstance(value, (set, frozenset)):
        return sorted((_plain(item) for item in value), key=repr)

    if isinstance(value, type):
        return '%s.%s' % (value.__module__, value.__name__)

    return repr(value)


def simplify_sig(project_sig, app_label=APP_LABEL, normalize=True):
    """Return the simplified signature dict of one app of a project sig.

    With ``normalize=True`` (default) field attributes that are explicitly
    stored with their default value (e.g. ``null=False`` left behind by a
    ``ChangeField``) are dropped, so that an evolved signature compares equal
    to the signature of equivalent freshly built models -- this is the
    equivalence ``django_evolution.diff.Diff`` uses.  The raw data is always
    available from ``final_sig_serialized``.
    """
    app_sig = project_sig.get_app_sig(app_label)

    if app_sig is None:
        return None

    result = OrderedDict()

    for model_sig in app_sig.model_sigs:
        data = model_sig.serialize()
        meta = dict(data['meta'])
        meta.pop('__unique_together_applied', None)

        fields = OrderedDict()

        for field_sig in model_sig.field_sigs:
            field_type = field_sig.field_type
            field_module = field_type.__module__

            if field_module.startswith('django.db.models.fields'):
                field_module = 'django.db.models'

            attrs = {}

            for attr_name, attr_value in field_sig.field_attrs.items():
                if normalize and field_sig.is_attr_value_default(attr_name):
                    continue

                attrs[attr_name] = _plain(attr_value)

            fields[field_sig.field_name] = {
                'type': '%s.%s' % (field_module, field_type.__name__),
                'attrs': attrs,
                'related_model': field_sig.related_model,
            }

        result[model_sig.model_name] = {
            'fields': fields,
            'meta': _plain(meta),
        }

    return result


def _serialized_app_sig(project_sig, app_label=APP_LABEL):
    app_sig = project_sig.get_app_sig(app_label)

    if app_sig is None:
        return None

    try:
        return _plain(app_sig.serialize())
    except Exception as e:  # pragma: no cover - defensive
        return {'__error__': repr(e)}


def sig_of(spec):
    """Return the simplified signature for a spec (see ``final_sig``)."""
    setup()

    try:
        model_map = build_models(spec)
        return simplify_sig(_project_sig(model_map))
    finally:
        _purge_registry()


# ---------------------------------------------------------------------------
# Database helpers
# ---------------------------------------------------------------------------

def _qn(name):
    return '"%s"' % name.replace('"', '""')


def _table_names(connection):
    with connection.cursor() as cursor:
        cursor.execute("SELECT name FROM sqlite_master WHERE type = 'table' "
                       "AND name NOT LIKE 'sqlite_%' ORDER BY name")
        return [row[0] for row in cursor.fetchall()]


def _scratch_tables(connection, alias):
    baseline = _state['baseline'].get(alias, set())

    return [name for name in _table_names(connection)
            if name not in baseline]


def _reset_connection(connection):
    """Force the connection out of any transaction.  Returns True if needed.
    """
    was_dirty = False

    if (connection.in_atomic_block or connection.savepoint_ids or
        connection.needs_rollback):
        was_dirty = True

        try:
            if connection.connection is not None:
                connection.connection.rollback()
        except Exception:
            pass

        connection.in_atomic_block = False
        connection.savepoint_ids = []
        connection.needs_rollback = False

        if hasattr(connection, 'atomic_blocks'):
            connection.atomic_blocks = []

        connection.commit_on_exit = True
        connection.closed_in_transaction = False

        try:
            connection.set_autocommit(True)
        except Exception:
            pass
    elif connection.connection is not None:
        try:
            if connection.connection.in_transaction:
                was_dirty = True
                connection.connection.rollback()
                connection.set_autocommit(True)
        except Exception:
            pass

    try:
        with connection.cursor() as cursor:
            cursor.execute('PRAGMA writable_schema = 0')
            cursor.execute('PRAGMA legacy_alter_table = OFF')
            cursor.execute('PRAGMA foreign_keys = ON')
    except Exception:
        pass

    return was_dirty


def _drop_scratch_tables(connection, alias):
    tables = _scratch_tables(connection, alias)

    if not tables:
        return

    with connection.cursor() as cursor:
        cursor.execute('PRAGMA foreign_keys = OFF')

        try:
            for table in tables:
                cursor.execute('DROP TABLE IF EXISTS %s' % _qn(table))
        finally:
            cursor.execute('PRAGMA foreign_keys = ON')

    leftovers = _scratch_tables(connection, alias)

    if leftovers:
        raise RuntimeError('Could not drop scratch tables %r' % leftovers)


def _hard_reset():
    """Re-create the test databases from scratch (last resort)."""
    teardown()
    setup()


def _cleanup(alias):
    """Drop scratch tables, unregister models, close transactions.

    Returns:
        dict: flags ``connection_reset`` and ``hard_reset``.
    """
    from django.db import connections

    flags = {'connection_reset': False, 'hard_reset': False}

    try:
        _purge_registry()
    except Exception:
        pass

    try:
        connection = connections[alias]
        flags['connection_reset'] = _reset_connection(connection)
        _drop_scratch_tables(connection, alias)
    except Exception:
        flags['hard_reset'] = True
        _hard_reset()

    return flags


def introspect_schema(database='default', tables=None):
    """Introspect the real database (scratch tables only by default)."""
    from django.db import connections

    connection = connections[database]

    if tables is None:
        tables = _scratch_tables(connection, database)

    result = OrderedDict()

    with connection.cursor() as cursor:
        for table in sorted(tables):
            cursor.execute('PRAGMA table_info(%s)' % _qn(table))
            info = cursor.fetchall()

            if not info:
                continue

            columns = [(row[1], row[2], int(row[3]), int(row[5]))
                       for row in info]
            defaults = OrderedDict((row[1], row[4]) for row in info
                                   if row[4] is not None)

            cursor.execute('PRAGMA index_list(%s)' % _qn(table))
            index_list = cursor.fetchall()
            indexes = []
            named_indexes = []

            for index_row in index_list:
                index_name = index_row[1]
                unique = int(index_row[2])
                cursor.execute('PRAGMA index_info(%s)' % _qn(index_name))
                index_columns = tuple(
                    row[2]
                    for row in sorted(cursor.fetchall(),
                                      key=lambda row: row[0])
                )
                indexes.append((unique, index_columns))

                if not index_name.startswith('sqlite_autoindex_'):
                    named_indexes.append((index_name, unique, index_columns))

            cursor.execute("SELECT sql FROM sqlite_master WHERE type = "
                           "'table' AND name = %s", [table])
            row = cursor.fetchone()
            create_sql = row[0] if row else None

            cursor.execute("SELECT sql FROM sqlite_master WHERE type = "
                           "'index' AND tbl_name = %s AND sql IS NOT NULL "
                           "ORDER BY name", [table])
            index_sql = [row[0] for row in cursor.fetchall()]

            cursor.execute('PRAGMA foreign_key_list(%s)' % _qn(table))
            foreign_keys = sorted(
                (row[2], row[3], row[4]) for row in cursor.fetchall()
            )

            result[table] = {
                'columns': columns,
                'column_defaults': defaults,
                'indexes': sorted(indexes, key=repr),
                'named_indexes': sorted(named_indexes, key=repr),
                'create_sql': create_sql,
                'index_sql': index_sql,
                'foreign_keys': sorted(foreign_keys, key=repr),
            }

    return result


def dump_rows(database='default', tables=None):
    """Return the raw rows of the scratch tables ordered by rowid."""
    from django.db import connections

    connection = connections[database]

    if tables is None:
        tables = _scratch_tables(connection, database)

    result = OrderedDict()

    with connection.cursor() as cursor:
        for table in sorted(tables):
            cursor.execute('PRAGMA table_info(%s)' % _qn(table))
            columns = [row[1] for row in cursor.fetchall()]

            if not columns:
                continue

            # The unary "+" turns the column into an expression so that
            # Django's declared-type converters (bool, datetime, ...) are
            # bypassed and the raw storage values are returned.
            select = ', '.join('+%s' % _qn(column) for column in columns)

            try:
                cursor.execute('SELECT %s FROM %s ORDER BY rowid'
                               % (select, _qn(table)))
            except Exception:
                cursor.execute('SELECT %s FROM %s' % (select, _qn(table)))

            result[table] = {
                'columns': columns,
                'rows': [tuple(row) for row in cursor.fetchall()],
            }

    return result


def fk_check(database='default'):
    from django.db import connections

    with connections[database].cursor() as cursor:
        cursor.execute('PRAGMA foreign_key_check')
        return [tuple(row) for row in cursor.fetchall()]


def integrity_check(database='default'):
    from django.db import connections

    with connections[database].cursor() as cursor:
        cursor.execute('PRAGMA integrity_check')
        return [row[0] for row in cursor.fetchall()]


#: If True, :func:`scan_database_state` re-uses a cached scan of the (never
#: changing) baseline tables and only scans the scratch tables.  The result
#: is identical to ``DatabaseState(database, scan=True)`` (the selftest
#: checks this) but ~5x faster.
FAST_DATABASE_STATE = True


def scan_database_state(database='default', fast=None):
    """Return a DatabaseState freshly scanned from the real database."""
    from django.db import connections
    from django_evolution.db import EvolutionOperationsMulti
    from django_evolution.db.state import DatabaseState

    if fast is None:
        fast = FAST_DATABASE_STATE

    if not fast:
        return DatabaseState(database, scan=True)

    connection = connections[database]
    baseline = _state['baseline'].get(database, set())
    cached = _state['baseline_db_state'].get(database)

    if cached is None:
        # Scan while only baseline tables exist?  Not guaranteed, so scan
        # everything once and keep the baseline tables only.
        cached = DatabaseState(database, scan=True)

        for table_name in list(cached._tables):
            if table_name not in baseline:
                del cached._tables[table_name]

        _state['baseline_db_state'][database] = cached

    database_state = cached.clone()
    evolver = EvolutionOperationsMulti(database).get_evolver()

    # Same per-table logic as DatabaseState.rescan_tables().
    for table_name in _table_names(connection):
        if table_name in baseline:
            continue

        database_state.add_table(table_name)
        constraints = evolver.get_constraints_for_table(table_name)

        for constraint_name, constraint_info in constraints.items():
            database_state.add_index(table_name=table_name,
                                     index_name=constraint_name,
                                     columns=constraint_info['columns'],
                                     unique=constraint_info['unique'])

    return database_state


def _create_tables(database):
    """Create the tables of the registered 'tests' models (as the tests do).
    """
    from django_evolution.compat.db import sql_create_app
    from django_evolution.tests import models as evo_test

    sql = sql_create_app(app=evo_test, db_name=database)
    _execute(sql, database, check_constraints=False)


def _insert_rows(model_map, rows, database):
    from django.db import connections, transaction

    connection = connections[database]

    with connection.constraint_checks_disabled():
        with transaction.atomic(using=database):
            with connection.cursor() as cursor:
                for name, table_rows in rows.items():
                    model = model_map.get(name)

                    if model is not None:
                        table = model._meta.db_table
                        field_columns = dict(
                            (field.name, field.column)
                            for field in model._meta.local_fields
                        )
                        column_names = set(field_columns.values())
                    else:
                        table = name
                        field_columns = {}
                        column_names = set()

                    for row in table_rows:
                        columns = []
                        values = []

                        for key, value in row.items():
                            if key not in column_names:
                                key = field_columns.get(key, key)

                            columns.append(_qn(key))
                            values.append(value)

                        if columns:
                            cursor.execute(
                                'INSERT INTO %s (%s) VALUES (%s)'
                                % (_qn(table), ', '.join(columns),
                                   ', '.join(['%s'] * len(values))),
                                values)
                        else:
                            cursor.execute('INSERT INTO %s DEFAULT VALUES'
                                           % _qn(table))


_TXN_CONTROL_RE = re.compile(
    r'^\s*(BEGIN|COMMIT|ROLLBACK|SAVEPOINT|RELEASE SAVEPOINT|'
    r'PRAGMA foreign_keys\b|PRAGMA foreign_key_check\b)', re.I)


class _ExecuteError(Exception):
    """Internal carrier for an execute-phase failure."""

    def __init__(self, original, executed, failed_statement):
        Exception.__init__(self, repr(original))
        self.original = original
        self.executed = executed
        self.failed_statement = failed_statement


def _execute(sql, database, check_constraints=False):
    """Execute evolver SQL through the real SQLExecutor.

    Same as ``django_evolution.tests.utils.execute_test_sql`` (which is
    ``SQLExecutor(check_constraints=False).run_sql(capture=True,
    execute=True)``) minus the ``logging.exception`` noise, plus a record of
    what was really sent to the database when something fails.

    Returns:
        list of str: the executed statements rendered as strings.
    """
    from django.db import connections
    from django_evolution.utils.sql import SQLExecutor

    connection = connections[database]
    recorded = []

    def recorder(execute, statement, params, many, context):
        recorded.append((statement, params))
        return execute(statement, params, many, context)

    try:
        with connection.execute_wrapper(recorder):
            with SQLExecutor(database=database,
                             check_constraints=check_constraints) as executor:
                return executor.run_sql(sql, capture=True, execute=True)
    except Exception as e:
        from django_evolution.db import EvolutionOperationsMulti

        try:
            qp = EvolutionOperationsMulti(database).get_evolver() \
                .quote_sql_param
        except Exception:  # pragma: no cover - defensive
            qp = repr

        def render(statement, params):
            if params:
                try:
                    return statement % tuple(qp(param) for param in params)
                except Exception:
                    return '%s -- params: %r' % (statement, params)

            return statement

        executed = [
            render(statement, params)
            for statement, params in recorded
            if not _TXN_CONTROL_RE.match(statement)
        ]

        failed = getattr(e, 'last_sql_statement', None)

        if failed and failed[0] is not None:
            failed = render(*failed)
        else:
            failed = None

        raise _ExecuteError(e, executed, failed)


_RENAME_RE = re.compile(
    r'^\s*ALTER TABLE "%s" RENAME TO "((?:[^"]|"")+)"' % TEMP_TABLE_NAME)


def count_rebuilds(statements):
    """Return {table: number of TEMP_TABLE rebuilds} for rendered SQL.

    A rebuild is a ``CREATE TABLE "TEMP_TABLE"`` statement; the rebuilt
    table is taken from the next ``ALTER TABLE "TEMP_TABLE" RENAME TO``.
    Rebuilds without a following rename are counted under ``None``.
    """
    result = OrderedDict()
    pending = 0

    for statement in statements:
        if not isinstance(statement, str):
            continue

        stripped = statement.lstrip()

        if stripped.startswith('CREATE TABLE "%s"' % TEMP_TABLE_NAME):
            pending += 1
            continue

        m = _RENAME_RE.match(stripped)

        if m and pending:
            table = m.group(1).replace('""', '"')
            result[table] = result.get(table, 0) + pending
            pending = 0

    if pending:
        result[None] = result.get(None, 0) + pending

    return result


def _error_dict(e, phase, group=None):
    failed_statement = None

    if isinstance(e, _ExecuteError):
        failed_statement = e.failed_statement
        e = e.original

    result = {
        'class': type(e).__name__,
        'repr': '%s: %r' % (type(e).__name__, e),
        'message': str(e),
        'phase': phase,
        'group': group,
    }

    if failed_statement is not None:
        result['failed_statement'] = failed_statement

    return result


# ---------------------------------------------------------------------------
# Public scenario runners
# ---------------------------------------------------------------------------

def run_mutations(start_spec, mutation_groups, rows=None, database='default',
                  end_spec=None, check_constraints=False):
    """Run groups of real mutations against real tables.  See module doc.

    Args:
        start_spec (dict): models to start from.
        mutation_groups (list of list): each inner list is run through ONE
            ``AppMutator`` and its SQL executed before the next group starts
            (a fresh ``DatabaseState`` is scanned from the database for every
            group, like a new ``Evolver`` would).
        rows (dict, optional): initial rows, see module doc.
        database (str): 'default' or 'db_multi'.
        end_spec (dict, optional): the expected final models.  If given,
            these models are registered in Django while the mutations run
            (the project's tests do that and so does a real upgrade, where
            the new code is what is installed) and ``sig_matches_end`` /
            ``end_sig`` are reported.  If omitted the start models stay
            registered.
        check_constraints (bool): passed to ``SQLExecutor`` (the project's
            ``execute_test_sql`` and ``EvolveAppTask`` use ``False``).
    """
    setup()

    from django_evolution.mutators import AppMutator

    t0 = time.time()
    result = {
        'error': None,
        'sql': [],
        'rebuilds': {},
        'rebuilds_per_group': [],
        'final_sig': None,
        'final_sig_serialized': None,
        'schema': {},
        'rows': {},
        'fk_check': [],
        'integrity_check': [],
        'start_schema': {},
        'start_sig': None,
        'sig_matches_end': None,
        'sig_equals_end': None,
        'sig_diff': None,
        'end_sig': None,
        'connection_reset': False,
        'hard_reset': False,
        'elapsed': None,
    }
    project_sig = None
    end_project_sig = None

    pre_flags = _cleanup(database)

    try:
        # -- setup phase ----------------------------------------------------
        try:
            with warnings.catch_warnings():
                warnings.simplefilter('ignore')

                if end_spec is not None:
                    end_map = build_models(end_spec)
                    end_project_sig = _project_sig(end_map)
                    result['end_sig'] = simplify_sig(end_project_sig)

                model_map = build_models(start_spec)
                project_sig = _project_sig(model_map)
                result['start_sig'] = simplify_sig(project_sig)

                _create_tables(database)

                if rows:
                    _insert_rows(model_map, rows, database)

                result['start_schema'] = introspect_schema(database)

                if end_spec is not None:
                    # Put the registry into the end state, as
                    # ensure_test_db(end_model_entries=...) does.
                    build_models(end_spec)
        except _ExecuteError as e:
            result['error'] = _error_dict(e, 'setup')
        except Exception as e:
            result['error'] = _error_dict(e, 'setup')

        # -- mutation groups ------------------------------------------------
        if result['error'] is None:
            with warnings.catch_warnings():
                warnings.simplefilter('ignore')

                for i, group in enumerate(mutation_groups):
                    phase = 'simulate'
                    group_sql = []

                    try:
                        database_state = scan_database_state(database)
                        app_mutator = AppMutator(
                            app_label=APP_LABEL,
                            project_sig=project_sig,
                            database_state=database_state,
                            database=database)
                        app_mutator.run_mutations(list(group))

                        phase = 'sql'
                        sql = app_mutator.to_sql()

                        phase = 'execute'
                        group_sql = _execute(
                            sql, database,
                            check_constraints=check_constraints)
                    except _ExecuteError as e:
                        group_sql = e.executed
                        result['error'] = _error_dict(e, phase, i)
                    except Exception as e:
                        result['error'] = _error_dict(e, phase, i)

                    result['sql'].append(list(group_sql))
                    result['rebuilds_per_group'].append(
                        count_rebuilds(group_sql))

                    if result['error'] is not None:
                        break

        # -- report ---------------------------------------------------------
        totals = OrderedDict()

        for group_rebuilds in result['rebuilds_per_group']:
            for table, count in group_rebuilds.items():
                totals[table] = totals.get(table, 0) + count

        result['rebuilds'] = totals

        if project_sig is not None:
            try:
                result['final_sig'] = simplify_sig(project_sig)
                result['final_sig_serialized'] = \
                    _serialized_app_sig(project_sig)
            except Exception as e:  # pragma: no cover - defensive
                result['final_sig'] = {'__error__': repr(e)}

            if end_project_sig is not None:
                try:
                    from django_evolution.diff import Diff

                    diff = Diff(project_sig, end_project_sig)
                    result['sig_matches_end'] = bool(diff.is_empty())
                    result['sig_diff'] = (None if diff.is_empty()
                                          else str(diff))
                    result['sig_equals_end'] = bool(
                        project_sig.get_app_sig(APP_LABEL) ==
                        end_project_sig.get_app_sig(APP_LABEL))
                except Exception as e:  # pragma: no cover - defensive
                    result['sig_matches_end'] = repr(e)

        from django.db import connections

        # An open transaction at this point is a finding; close it so that
        # the introspection below sees what is really committed.
        if _reset_connection(connections[database]):
            result['connection_reset'] = True

        try:
            result['schema'] = introspect_schema(database)
            result['rows'] = dump_rows(database)
            result['fk_check'] = fk_check(database)
            result['integrity_check'] = integrity_check(database)
        except Exception as e:
            if result['error'] is None:
                result['error'] = _error_dict(e, 'introspect')
    finally:
        post_flags = _cleanup(database)

        for flags in (pre_flags, post_flags):
            for key, value in flags.items():
                if value:
                    result[key] = True

        result['elapsed'] = time.time() - t0

    return result


def fresh_schema(spec, database='default', rows=None, with_rows=False):
    """Create the models of a spec from scratch and introspect the result.

    Uses ``sql_create_app`` (-> ``sql_create_models`` -> Django's schema
    editor), which is how the project creates new models.

    Returns:
        dict: the ``schema`` structure of :func:`run_mutations`.  With
        ``with_rows=True`` a dict ``{'schema': ..., 'rows': ...}`` instead.
    """
    setup()
    _cleanup(database)

    try:
        with warnings.catch_warnings():
            warnings.simplefilter('ignore')
            model_map = build_models(spec)
            _create_tables(database)

            if rows:
                _insert_rows(model_map, rows, database)

        schema = introspect_schema(database)

        if with_rows:
            return {'schema': schema, 'rows': dump_rows(database)}

        return schema
    except _ExecuteError as e:
        raise e.original
    finally:
        _cleanup(database)


def simulate_only(start_spec, mutations, database='default'):
    """Run only the signature simulation of mutations, one by one.

    No tables are created; the DatabaseState just tracks the table names of
    the start models.

    Returns:
        dict: ``{'error': None | {..., 'phase': 'setup'|'simulate',
        'index': i}, 'final_sig': ..., 'final_sig_serialized': ...,
        'start_sig': ...}``
    """
    setup()

    from django_evolution.db.state import DatabaseState

    result = {'error': None, 'final_sig': None, 'final_sig_serialized': None,
              'start_sig': None}

    try:
        with warnings.catch_warnings():
            warnings.simplefilter('ignore')

            try:
                model_map = build_models(start_spec)
                start_sig = _project_sig(model_map)
                result['start_sig'] = simplify_sig(start_sig)
                test_sig = start_sig.clone()

                database_state = DatabaseState(database, scan=False)

                for table in _all_tables_of(model_map):
                    database_state.add_table(table)
            except Exception as e:
                result['error'] = _error_dict(e, 'setup')
                return result

            for i, mutation in enumerate(mutations):
                try:
                    mutation.run_simulation(app_label=APP_LABEL,
                                            project_sig=test_sig,
                                            database_state=database_state,
                                            database=database)
                except Exception as e:
                    result['error'] = _error_dict(e, 'simulate')
                    result['error']['index'] = i
                    break

            result['final_sig'] = simplify_sig(test_sig)
            result['final_sig_serialized'] = _serialized_app_sig(test_sig)
    finally:
        _purge_registry()

    return result


__all__ = [
    'build_models',
    'count_rebuilds',
    'dump_rows',
    'fk_check',
    'fresh_schema',
    'introspect_schema',
    'run_mutations',
    'scan_database_state',
    'setup',
    'sig_of',
    'simplify_sig',
    'simulate_only',
    'teardown',
    'to_jsonable',
]
