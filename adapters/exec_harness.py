"""Native harness for SQLExecutor: run statement lists on the scratch SQLite database with a fault injected at
statement k, and evaluate the run_sql / __exit__ contract clauses on what really happened."""
from django.db import connection
from django.db.utils import DatabaseError


class Injected(DatabaseError):
    pass


def _fault_at(k):
    state = {'n': -1}

    def wrapper(execute, sql, params, many, context):
        s = sql.strip().upper()
        if s.startswith(('SAVEPOINT', 'RELEASE', 'ROLLBACK', 'BEGIN', 'COMMIT', 'PRAGMA')):
            return execute(sql, params, many, context)
        state['n'] += 1
        if state['n'] == k:
            raise Injected('injected failure at statement %d' % k)
        return execute(sql, params, many, context)
    return wrapper


def scenario(statements, k, prefix='zz_verif'):
    """Run `statements` through the real SQLExecutor failing at index k (None = no failure)."""
    from django_evolution.utils.sql import SQLExecutor
    with connection.cursor() as c:
        for t in connection.introspection.table_names():
            if t.startswith(prefix):
                c.execute('DROP TABLE "%s"' % t)
    before = sorted(t for t in connection.introspection.table_names())
    err = None
    try:
        with SQLExecutor('default') as ex:
            if k is None:
                ex.run_sql(statements, execute=True)
            else:
                with connection.execute_wrapper(_fault_at(k)):
                    ex.run_sql(statements, execute=True)
    except Exception as e:      # noqa
        err = e
    after = sorted(t for t in connection.introspection.table_names())
    out = {'k': k, 'raised': type(err).__name__ if err else None,
           'last_sql_statement': getattr(err, 'last_sql_statement', '<missing>') if err else None,
           'tables_before': before, 'tables_after': after, 'in_atomic_block': connection.in_atomic_block}
    with connection.cursor() as c:
        for t in after:
            if t.startswith(prefix):
                c.execute('DROP TABLE "%s"' % t)
    return out


def statements(prefix='zz_verif'):
    return [
        'CREATE TABLE "%s_a" ("id" integer NOT NULL PRIMARY KEY, "v" varchar(20) NULL);' % prefix,
        ('INSERT INTO "%s_a" ("id", "v") VALUES (%%s, %%s);' % prefix, (1, "it's 100%")),
        'CREATE INDEX "%s_a_v" ON "%s_a" ("v");' % (prefix, prefix),
        ('UPDATE "%s_a" SET "v" = %%s WHERE "id" = %%s;' % prefix, ('x', 1)),
        'ALTER TABLE "%s_a" RENAME TO "%s_b";' % (prefix, prefix),
    ]


def check_run_sql_contract(tier='quick', seed=0):
    """run_sql + __exit__ contract clauses, natively, for every failure index."""
    stmts = statements()
    failures, samples, evaluations = [], [], 0
    flat = []
    for s in stmts:
        flat.append(s if isinstance(s, tuple) else (s, None))
    for k in [None] + list(range(len(stmts))):
        r = scenario(stmts, k)
        evaluations += 1
        if len(samples) < 2:
            samples.append({kk: str(v)[:200] for kk, v in r.items()})
        probs = []
        if k is None:
            if r['raised']:
                probs.append('fault-free run raised %s' % r['raised'])
            if 'zz_verif_b' not in r['tables_after']:
                probs.append('fault-free run did not commit its changes')
        else:
            if r['raised'] != 'Injected':
                probs.append('the database error was replaced by %s' % r['raised'])
            exp = flat[k]
            got = r['last_sql_statement']
            if got == '<missing>':
                probs.append('exception carries no last_sql_statement')
            elif not (isinstance(got, tuple) and got[0].strip() == exp[0].strip() and
                      (tuple(got[1]) if got[1] else None) == (tuple(exp[1]) if exp[1] else None)):
                probs.append('last_sql_statement %r does not identify failing statement %r' % (got, exp))
            if r['tables_after'] != r['tables_before']:
                probs.append('schema changes persisted after the failure: %r -> %r' %
                             (r['tables_before'], r['tables_after']))
        if r['in_atomic_block']:
            probs.append('a transaction was left open')
        for p_ in probs:
            failures.append({'clause': p_.split(':')[0][:80], 'inputs': {'fail_at': k}, 'observed': r})
    return {'evaluations': evaluations, 'distinct_nontrivial': len(stmts), 'failures': failures[:5],
            'samples': samples, 'exhaustive': True,
            'rule': 'one 5-statement list (with and without bound parameters) x failure injected at every statement index + fault-free run'}
