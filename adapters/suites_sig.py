# -*- coding: utf-8 -*-
"""Bounded native suites for the signature / diff / hint / serialization
properties C05, C06 and C13 of django-evolution.

Run from an empty scratch cwd::

    PYTHONPATH=/repo:/repo/tests:/verif DJANGO_SETTINGS_MODULE=settings \\
        PYTHONDONTWRITEBYTECODE=1 /verif/.venv/bin/python \\
        /verif/adapters/suites_sig.py C05 quick

Public API (one pair per property)::

    suite_C05(tier='quick', seed=0) -> dict     replay_C05(inputs) -> dict
    suite_C06(tier='quick', seed=0) -> dict     replay_C06(inputs) -> dict
    suite_C13(tier='quick', seed=0) -> dict     replay_C13(inputs) -> dict

Everything is driven by *plain data* (JSON-able) scenario descriptions:

* model "specs" in the format of :mod:`adapters.evo_harness` where a field is
  ``[type_name, kwargs]`` and every value may be a *value description*;
* value descriptions: scalars, lists, dicts and one-key ``{'$Tag': arg}``
  dicts, see :func:`V` (build a real object) and :func:`D` (describe one);
* mutation descriptions such as
  ``['AddField', 'M', 'f', {'$cls': 'IntegerField'}, {'null': True}]``, see
  :func:`build_mutation` / :func:`describe_mutation`.

Each suite has one evaluation function (``_c05_eval`` ...) used both by the
suite and by the replay function, so a replay re-runs exactly the same oracle
on exactly one scenario.

Oracles demand what the property statements say.  Violations that were
investigated and found to be genuine defects of the tree under test are
listed in :data:`KNOWN`; the suites flag a failure ``known`` only if *every*
observed deviation of that scenario is explained by one of these entries
(see the ``_explain`` helpers), everything else is ``known: False``.
"""

from __future__ import print_function, unicode_literals

import copy
import itertools
import json
import random
import sys
import time
import warnings
from collections import OrderedDict

if __name__ == '__main__':
    for _p in ('/verif', '/repo/tests', '/repo'):
        if _p not in sys.path:
            sys.path.insert(0, _p)

    # Generated evolution text may say "from adapters.suites_sig import X".
    sys.modules.setdefault('adapters.suites_sig', sys.modules['__main__'])

from adapters import evo_harness as H  # noqa: E402

APP = 'tests'
MAX_FAILURES = 10
PLACEHOLDER_TEXT = '<<USER VALUE REQUIRED>>'


# ---------------------------------------------------------------------------
# Value descriptions
# ---------------------------------------------------------------------------

def _models():
    H.setup()
    from django.db import models
    return models


def _import_dotted(path):
    from importlib import import_module
    module, name = path.rsplit('.', 1)
    return getattr(import_module(module), name)


def V(desc):
    """Build a real value from a plain-data value description.

    Tags: ``$Q`` ``{'c': connector, 'n': negated, 'ch': [children]}`` with
    children ``{'$kv': [lookup, value]}`` or nested ``$Q``; ``$F`` name;
    ``$Value`` v; ``$Comb`` [lhs, op, rhs]; ``$OrderBy`` [expr, descending];
    ``$Func`` [name in django.db.models.functions, [args]]; ``$Enum``
    'Deferrable.DEFERRED'; ``$tuple`` / ``$set`` [items]; ``$odict``
    [[k, v], ...]; ``$cls`` field class name (django.db.models) or dotted
    path; ``$placeholder`` [app, model, field]; ``$index`` Index kwargs
    (+ 'expressions'); ``$constraint`` {'type': name, ...kwargs}.
    """
    if isinstance(desc, dict):
        if len(desc) == 1:
            (tag, arg), = desc.items()

            if isinstance(tag, str) and tag.startswith('$'):
                return _build_tagged(tag, arg)

        return dict((key, V(value)) for key, value in desc.items())

    if isinstance(desc, (list, tuple)):
        return [V(item) for item in desc]

    return desc


def _build_tagged(tag, arg):
    models = _models()
    from django.db.models import Q, F, Value
    from django.db.models.expressions import CombinedExpression, OrderBy

    if tag == '$Q':
        children = [V(child) for child in arg.get('ch', [])]
        return Q(*children, _connector=arg.get('c', 'AND'),
                 _negated=bool(arg.get('n', False)))
    if tag == '$kv':
        return (arg[0], V(arg[1]))
    if tag == '$F':
        return F(arg)
    if tag == '$Value':
        return Value(V(arg))
    if tag == '$Comb':
        return CombinedExpression(V(arg[0]), arg[1], V(arg[2]))
    if tag == '$OrderBy':
        return OrderBy(V(arg[0]), descending=bool(arg[1]))
    if tag == '$Func':
        from django.db.models import functions
        return getattr(functions, arg[0])(*[V(item) for item in arg[1]])
    if tag == '$Enum':
        cls_name, member = arg.split('.')
        return getattr(models, cls_name)[member]
    if tag == '$tuple':
        return tuple(V(item) for item in arg)
    if tag == '$set':
        return set(V(item) for item in arg)
    if tag == '$odict':
        return OrderedDict((key, V(value)) for key, value in arg)
    if tag == '$cls':
        if '.' in arg:
            if arg.endswith('.SuiteCharField'):
                return _custom_field()
            return _import_dotted(arg)
        return getattr(models, arg)
    if tag == '$placeholder':
        from django_evolution.placeholders import NullFieldInitialCallback
        return NullFieldInitialCallback(*arg)
    if tag == '$index':
        return _build_index(arg)
    if tag == '$constraint':
        return _build_constraint(arg)

    raise ValueError('Unknown value tag %r' % tag)


def _build_index(desc):
    models = _models()

    if not isinstance(desc, dict):
        return desc

    desc = dict(desc)
    expressions = [V(item) for item in desc.pop('expressions', [])]
    kwargs = dict((key, V(value)) for key, value in desc.items())
    return models.Index(*expressions, **kwargs)


def _build_constraint(desc):
    models = _models()

    if not isinstance(desc, dict):
        return desc

    desc = dict(desc)
    ctype = getattr(models, desc.pop('type', 'UniqueConstraint'))
    expressions = [V(item) for item in desc.pop('expressions', [])]
    kwargs = dict((key, V(value)) for key, value in desc.items())
    return ctype(*expressions, **kwargs)


def D(value):
    """Describe a real value as plain data (inverse of :func:`V`)."""
    models = _models()
    from enum import Enum
    from django.db.models import Q, F, Value
    from django.db.models.expressions import CombinedExpression, OrderBy
    from django_evolution.placeholders import BasePlaceholder

    if value is None or isinstance(value, (bool, int, float, str)):
        return value
    if isinstance(value, bytes):
        return {'$bytes': value.decode('latin1')}
    if isinstance(value, Q):
        children = []

        for child in value.children:
            if isinstance(child, Q):
                children.append(D(child))
            else:
                children.append({'$kv': [child[0], D(child[1])]})

        return {'$Q': {'c': value.connector, 'n': bool(value.negated),
                       'ch': children}}
    if isinstance(value, CombinedExpression):
        return {'$Comb': [D(value.lhs), value.connector, D(value.rhs)]}
    if isinstance(value, OrderBy):
        return {'$OrderBy': [D(value.expression), bool(value.descending)]}
    if isinstance(value, F):
        return {'$F': value.name}
    if isinstance(value, Value):
        return {'$Value': D(value.value)}
    if isinstance(value, Enum):
        return {'$Enum': '%s.%s' % (type(value).__name__, value._name_)}
    if isinstance(value, BasePlaceholder):
        return {'$placeholder': [value.app_label, value.model_name,
                                 value.field_name]}
    if isinstance(value, type):
        if getattr(models, value.__name__, None) is value:
            return {'$cls': value.__name__}
        module = value.__module__
        if module == '__main__':
            module = 'adapters.suites_sig'
        return {'$cls': '%s.%s' % (module, value.__name__)}
    if isinstance(value, OrderedDict):
        return {'$odict': [[key, D(item)] for key, item in value.items()]}
    if isinstance(value, dict):
        return dict((key, D(item)) for key, item in value.items())
    if isinstance(value, tuple):
        return {'$tuple': [D(item) for item in value]}
    if isinstance(value, (set, frozenset)):
        return {'$set': sorted((D(item) for item in value), key=repr)}
    if isinstance(value, list):
        return [D(item) for item in value]
    if type(value).__module__.startswith('django.db.models.functions'):
        args = getattr(value, '_constructor_args', ((), {}))[0]
        return {'$Func': [type(value).__name__, [D(item) for item in args]]}
    if isinstance(value, models.Index):
        path, args, kwargs = value.deconstruct()
        desc = dict((key, D(item)) for key, item in kwargs.items())
        if args:
            desc['expressions'] = [D(item) for item in args]
        return {'$index': desc}
    if isinstance(value, models.constraints.BaseConstraint):
        path, args, kwargs = value.deconstruct()
        desc = dict((key, D(item)) for key, item in kwargs.items())
        desc['type'] = type(value).__name__
        if args:
            desc['expressions'] = [D(item) for item in args]
        return {'$constraint': desc}

    return {'$repr': repr(value)}


_custom = {}


def _custom_field():
    """A non-Django field type (importable as adapters.suites_sig)."""
    if 'cls' not in _custom:
        models = _models()
        cls = type(str('SuiteCharField'), (models.CharField,),
                   {'__module__': 'adapters.suites_sig'})
        _custom['cls'] = cls
        globals()['SuiteCharField'] = cls
        mod = sys.modules.get('adapters.suites_sig')

        if mod is not None:
            setattr(mod, 'SuiteCharField', cls)

    return _custom['cls']


# ---------------------------------------------------------------------------
# Specs and signatures
# ---------------------------------------------------------------------------

def realize_spec(spec):
    """Turn a plain-data spec into a harness spec with real objects."""
    if spec is None:
        return None

    out = OrderedDict()

    for model_name, model_spec in spec.items():
        model_spec = model_spec or {}
        fields = OrderedDict()

        for field_name, info in (model_spec.get('fields') or {}).items():
            if isinstance(info, (list, tuple)):
                ftype = info[0]
                kwargs = info[1] if len(info) > 1 else {}
            else:
                ftype, kwargs = info, {}

            if isinstance(ftype, dict):
                ftype = V(ftype)

            fields[field_name] = (
                ftype,
                dict((key, V(value)) for key, value in kwargs.items()))

        meta = OrderedDict()

        for key, value in (model_spec.get('meta') or {}).items():
            if key == 'indexes':
                meta[key] = [_build_index(item) for item in value]
            elif key == 'constraints':
                meta[key] = [_build_constraint(item) for item in value]
            elif key in ('unique_together', 'index_together'):
                meta[key] = [tuple(item) for item in value]
            else:
                meta[key] = V(value)

        out[model_name] = {'fields': fields, 'meta': meta}

    return out


def spec_key(spec):
    return json.dumps(spec, sort_keys=False)


class _SigCache(object):
    """Builds each distinct spec once; tracks which spec is registered."""

    def __init__(self):
        self.sigs = {}
        self.registered = None

    def _build(self, spec, key):
        with warnings.catch_warnings():
            warnings.simplefilter('ignore')
            model_map = H.build_models(realize_spec(spec))
            self.sigs[key] = H._project_sig(model_map)

        self.registered = key

    def sig(self, spec):
        """The (shared, never to be modified) signature of a spec."""
        key = spec_key(spec)

        if key not in self.sigs:
            self._build(spec, key)

        return self.sigs[key]

    def register(self, spec):
        """Make sure the models of this spec are the registered ones."""
        key = spec_key(spec)

        if self.registered != key:
            self._build(spec, key)

    def invalidate_registry(self):
        self.registered = None


_cache = _SigCache()


def _ser(sig, sort_keys=True):
    return json.dumps(sig.serialize(), sort_keys=sort_keys, default=repr)


def _lib_rejections():
    from django_evolution.errors import (CannotSimulate,
                                         EvolutionNotImplementedError,
                                         SimulationFailure)
    return (SimulationFailure, EvolutionNotImplementedError, CannotSimulate)


def _simulate(project_sig, mutations, app_label=APP):
    """Apply mutations to a signature with the real simulate() code."""
    from django_evolution.db.state import DatabaseState

    database_state = DatabaseState('default', scan=False)

    with warnings.catch_warnings():
        warnings.simplefilter('ignore')

        for mutation in mutations:
            mutation.run_simulation(app_label=app_label,
                                    project_sig=project_sig,
                                    database_state=database_state,
                                    database='default')


def _diff_empty(a, b):
    from django_evolution.diff import Diff
    return bool(Diff(a, b).is_empty(ignore_apps=False))


def _exc(e):
    return '%s: %s' % (type(e).__name__, str(e)[:300])


# ---------------------------------------------------------------------------
# Mutation descriptions
# ---------------------------------------------------------------------------

def build_mutation(desc):
    H.setup()
    from django_evolution import mutations as M

    name = desc[0]

    if name == 'AddField':
        attrs = dict((k, V(v)) for k, v in (desc[4] if len(desc) > 4
                                            else {}).items())
        return M.AddField(desc[1], desc[2], V(desc[3]), **attrs)
    if name == 'ChangeField':
        attrs = dict((k, V(v)) for k, v in (desc[3] if len(desc) > 3
                                            else {}).items())
        return M.ChangeField(desc[1], desc[2], **attrs)
    if name == 'DeleteField':
        return M.DeleteField(desc[1], desc[2])
    if name == 'ChangeMeta':
        return M.ChangeMeta(desc[1], desc[2], V(desc[3]))
    if name == 'DeleteModel':
        return M.DeleteModel(desc[1])
    if name == 'RenameField':
        return M.RenameField(desc[1], desc[2], desc[3],
                             **(desc[4] if len(desc) > 4 else {}))
    if name == 'RenameModel':
        return M.RenameModel(desc[1], desc[2],
                             **(desc[3] if len(desc) > 3 else {}))

    raise ValueError('Unknown mutation description %r' % (desc,))


def describe_mutation(mutation):
    name = type(mutation).__name__

    if name == 'AddField':
        attrs = dict((k, D(v)) for k, v in mutation.field_attrs.items())
        if mutation.initial is not None:
            attrs['initial'] = D(mutation.initial)
        return ['AddField', mutation.model_name, mutation.field_name,
                D(mutation.field_type), attrs]
    if name == 'ChangeField':
        attrs = dict((k, D(v)) for k, v in mutation.field_attrs.items())
        if mutation.field_type is not None:
            attrs['field_type'] = D(mutation.field_type)
        attrs['initial'] = D(mutation.initial)
        return ['ChangeField', mutation.model_name, mutation.field_name,
                attrs]
    if name == 'DeleteField':
        return ['DeleteField', mutation.model_name, mutation.field_name]
    if name == 'ChangeMeta':
        return ['ChangeMeta', mutation.model_name, mutation.prop_name,
                D(mutation.new_value)]
    if name == 'DeleteModel':
        return ['DeleteModel', mutation.model_name]
    if name == 'RenameField':
        return ['RenameField', mutation.model_name, mutation.old_field_name,
                mutation.new_field_name,
                {'db_column': mutation.db_column,
                 'db_table': mutation.db_table}]
    if name == 'RenameModel':
        return ['RenameModel', mutation.old_model_name,
                mutation.new_model_name, {'db_table': mutation.db_table}]

    return [name, repr(mutation.__dict__)]


def _hints(mutations):
    result = []

    for mutation in mutations:
        try:
            result.append(str(mutation))
        except Exception as e:
            result.append('<unrenderable %s: %s>' % (
                type(mutation).__name__, _exc(e)))

    return result


# ---------------------------------------------------------------------------
# Result collection
# ---------------------------------------------------------------------------

class _Collector(object):
    def __init__(self, prop, tier, seed):
        self.prop = prop
        self.tier = tier
        self.seed = seed
        self.t0 = time.time()
        self.evaluations = 0
        self.nontrivial = set()
        self.skipped = 0
        self.groups = OrderedDict()   # (clause, known_id|None, sig) -> list
        self.group_counts = OrderedDict()
        self.samples = []
        self.extra = OrderedDict()

    def add(self, inputs, outcome):
        """outcome: {'results': [...], 'skipped': reason|None,
        'nontrivial': bool, 'summary': any}"""
        self.evaluations += 1

        if outcome.get('skipped'):
            self.skipped += 1

        if outcome.get('nontrivial'):
            self.nontrivial.add(json.dumps(inputs, sort_keys=True,
                                           default=repr))

        for result in outcome.get('results', []):
            if result['ok']:
                continue

            known_id = result.get('known_id')
            sig = (result['clause'], known_id,
                   None if known_id else result.get('signature'))
            self.group_counts[sig] = self.group_counts.get(sig, 0) + 1
            bucket = self.groups.setdefault(sig, [])

            if len(bucket) < 3:
                fail_inputs = copy.deepcopy(inputs)
                fail_inputs['clause'] = result['clause']

                if result.get('subject') is not None:
                    fail_inputs['subject'] = result['subject']

                bucket.append({
                    'clause': result['clause'],
                    'inputs': fail_inputs,
                    'observed': H.to_jsonable(result.get('observed')),
                    'known': bool(known_id),
                    'known_id': known_id,
                })

    def sample(self, inputs, outcome, force=False):
        if len(self.samples) < 3 or force:
            self.samples.append({
                'inputs': inputs,
                'outcome': H.to_jsonable({
                    'skipped': outcome.get('skipped'),
                    'nontrivial': outcome.get('nontrivial'),
                    'summary': outcome.get('summary'),
                    'clauses': [(r['clause'], r.get('subject'), r['ok'])
                                for r in outcome.get('results', [])],
                }),
            })
            self.samples = self.samples[:3]

    def finish(self, exhaustive, rule):
        # Unknown groups first, then known ones; one per group round robin.
        keys = sorted(self.groups, key=lambda k: (k[1] is not None,))
        failures = []
        depth = 0

        while len(failures) < MAX_FAILURES:
            added = False

            for key in keys:
                bucket = self.groups[key]

                if depth < len(bucket) and len(failures) < MAX_FAILURES:
                    failures.append(bucket[depth])
                    added = True

            if not added:
                break

            depth += 1

        classes = OrderedDict()

        for (clause, known_id, sig), count in self.group_counts.items():
            label = '%s | %s' % (clause, known_id or ('UNKNOWN: %s' % sig))
            classes[label] = count

        result = OrderedDict()
        result['property'] = self.prop
        result['tier'] = self.tier
        result['seed'] = self.seed
        result['evaluations'] = self.evaluations
        result['distinct_nontrivial'] = len(self.nontrivial)
        result['failures'] = failures
        result['samples'] = self.samples
        result['exhaustive'] = bool(exhaustive)
        result['rule'] = rule
        result['skipped'] = self.skipped
        result['failure_total'] = sum(self.group_counts.values())
        result['failure_classes'] = classes
        result['unknown_failures'] = sum(
            count for (c, k, s), count in self.group_counts.items()
            if k is None)
        result.update(self.extra)
        result['elapsed'] = round(time.time() - self.t0, 2)
        return result


# ---------------------------------------------------------------------------
# Catalogs (all plain data)
# ---------------------------------------------------------------------------

def _Q(connector, negated, children):
    return {'$Q': {'c': connector, 'n': bool(negated), 'ch': children}}


def _kv(key, value):
    return {'$kv': [key, value]}


def _F(name):
    return {'$F': name}


def _comb(lhs, op, rhs):
    return {'$Comb': [lhs, op, rhs]}


HELPER_MODELS = OrderedDict([
    ('A', {'fields': OrderedDict([('v', ['IntegerField', {}])])}),
    ('B', {'fields': OrderedDict([('w', ['IntegerField', {}])])}),
])

BASE_FIELDS = [
    ('a', ['IntegerField', {}]),
    ('b', ['IntegerField', {}]),
    ('c', ['CharField', {'max_length': 10}]),
]


def field_variants(tier):
    """Ordered dict variant id -> [type, kwargs] for the subject field.

    'quick': per type the base variant, each attribute changed alone and
    one all-together variant.  'thorough': the full attribute product.
    """
    out = OrderedDict()

    def add(vid, ftype, **kwargs):
        out[vid] = [ftype, kwargs]

    def product(prefix, ftype, base, axes):
        names = [name for name, values in axes]

        for combo in itertools.product(*[values for name, values in axes]):
            kwargs = dict(base)
            parts = []

            for name, value in zip(names, combo):
                default = dict(axes)[name][0]

                if value != default:
                    kwargs[name] = value
                    parts.append('%s=%s' % (name, value))

            add('%s(%s)' % (prefix, ','.join(parts)), ftype, **kwargs)

    def one_at_a_time(prefix, ftype, base, axes):
        add('%s()' % prefix, ftype, **base)
        everything = dict(base)

        for name, values in axes:
            for value in values[1:]:
                kwargs = dict(base)
                kwargs[name] = value
                add('%s(%s=%s)' % (prefix, name, value), ftype, **kwargs)

            everything[name] = values[-1]

        if len(axes) > 1:
            add('%s(all)' % prefix, ftype, **everything)

    gen = product if tier == 'thorough' else one_at_a_time
    tf = [False, True]

    gen('Char', 'CharField', {'max_length': 20},
        [('max_length', [20, 30]), ('null', tf), ('db_index', tf),
         ('unique', tf), ('db_column', [None, 'col_f'])])
    gen('Text', 'TextField', {}, [('null', tf), ('db_column',
                                                 [None, 'col_f'])])
    gen('Int', 'IntegerField', {},
        [('null', tf), ('db_index', tf), ('unique', tf),
         ('db_column', [None, 'col_f'])])
    gen('BigInt', 'BigIntegerField', {}, [('null', tf)])
    gen('PosInt', 'PositiveIntegerField', {}, [('null', tf)])
    gen('Bool', 'BooleanField', {}, [('null', tf)])
    gen('Dec', 'DecimalField', {'max_digits': 10, 'decimal_places': 2},
        [('max_digits', [10, 12]), ('decimal_places', [2, 0]),
         ('null', tf)])
    gen('DT', 'DateTimeField', {}, [('null', tf)])
    gen('Slug', 'SlugField', {}, [('max_length', [50, 30]), ('null', tf)])
    gen('FK', 'ForeignKey', {'to': 'A'},
        [('to', ['A', 'B']), ('null', tf), ('db_index', [True, False]),
         ('unique', tf), ('db_column', [None, 'col_f'])])
    gen('O2O', 'OneToOneField', {'to': 'A'},
        [('to', ['A', 'B']), ('null', tf)])
    gen('M2M', 'ManyToManyField', {'to': 'A'},
        [('to', ['A', 'B']), ('db_table', [None, 'custom_m2m'])])

    # Non-null fields whose hinted AddField gets a concrete initial value.
    add('Char(default)', 'CharField', max_length=20, default='dflt')
    add('Char(blank)', 'CharField', max_length=20, blank=True)
    add('Int(default)', 'IntegerField', default=5)
    add('Bool(default)', 'BooleanField', default=True)

    return out


def _is_m2m(variant):
    return variant is not None and variant[0] == 'ManyToManyField'


IDX_A = {'fields': ['a'], 'name': 'i_a'}
IDX_B = {'fields': ['b'], 'name': 'i_b'}
UC_AB = {'type': 'UniqueConstraint', 'fields': ['a', 'b'], 'name': 'u_ab'}
CC_A = {'type': 'CheckConstraint', 'name': 'c_a',
        'check': _Q('AND', False, [_kv('a__gt', 1)])}


def meta_variants():
    """Ordered dict prop -> ordered dict variant id -> value."""
    together = OrderedDict([
        ('none', []),
        ('ab', [['a', 'b']]),
        ('ba', [['b', 'a']]),
        ('ab+bc', [['a', 'b'], ['b', 'c']]),
        ('bc+ab', [['b', 'c'], ['a', 'b']]),
    ])
    indexes = OrderedDict([
        ('none', []),
        ('a', [IDX_A]),
        ('b', [IDX_B]),
        ('a+b', [IDX_A, IDX_B]),
        ('b+a', [IDX_B, IDX_A]),
        ('desc', [{'fields': ['-a', 'b'], 'name': 'i_desc'}]),
        ('cond', [{'fields': ['a'], 'name': 'i_cond',
                   'condition': _Q('AND', False, [_kv('a__gt', 1)])}]),
        ('cond2', [{'fields': ['a'], 'name': 'i_cond',
                    'condition': _Q('AND', False, [_kv('a__gt', 2)])}]),
        ('expr', [{'expressions': [_comb(_F('a'), '+', _F('b'))],
                   'name': 'i_expr'}]),
        ('include', [{'fields': ['a'], 'name': 'i_inc', 'include': ['b']}]),
        ('opclasses', [{'fields': ['a'], 'name': 'i_opc',
                        'opclasses': ['int4_ops']}]),
        ('tablespace', [{'fields': ['a'], 'name': 'i_ts',
                         'db_tablespace': 'ts'}]),
        ('unnamed', [{'fields': ['a']}]),
    ])
    constraints = OrderedDict([
        ('none', []),
        ('u', [UC_AB]),
        ('c', [CC_A]),
        ('u+c', [UC_AB, CC_A]),
        ('c+u', [CC_A, UC_AB]),
        ('u_cond', [{'type': 'UniqueConstraint', 'fields': ['a'],
                     'name': 'u_cond',
                     'condition': _Q('AND', False, [_kv('b__gt', 0)])}]),
        ('u_defer', [{'type': 'UniqueConstraint', 'fields': ['a', 'b'],
                      'name': 'u_ab',
                      'deferrable': {'$Enum': 'Deferrable.DEFERRED'}}]),
        ('c2', [{'type': 'CheckConstraint', 'name': 'c_a',
                 'check': _Q('AND', False, [_kv('a__gt', 2)])}]),
    ])
    comments = OrderedDict([
        ('none', None),
        ('note', 'note'),
        ('quotes', 'it\'s "x" é'),
    ])
    tables = OrderedDict([('default', None), ('custom', 'custom_m')])

    return OrderedDict([
        ('unique_together', together),
        ('index_together', together),
        ('indexes', indexes),
        ('constraints', constraints),
        ('db_table_comment', comments),
        ('db_table', tables),
    ])


def make_spec(subject=(), meta=None, extra_models=None):
    """Build a spec: helper models A and B, extra models, then model M with
    fields a, b, c and the given subject fields ((name, variant) pairs; a
    variant of None means the field is absent)."""
    spec = OrderedDict()

    for name, model in HELPER_MODELS.items():
        spec[name] = copy.deepcopy(model)

    for name, model in (extra_models or []):
        spec[name] = copy.deepcopy(model)

    fields = OrderedDict((name, copy.deepcopy(info))
                         for name, info in BASE_FIELDS)

    for name, variant in subject:
        if variant is not None:
            fields[name] = copy.deepcopy(variant)

    model = {'fields': fields}
    clean_meta = OrderedDict()

    for key, value in (meta or {}).items():
        if value is None or value == []:
            continue

        clean_meta[key] = copy.deepcopy(value)

    if clean_meta:
        model['meta'] = clean_meta

    spec['M'] = model
    return spec


def q_leaves():
    return [
        _kv('a__gt', 1),
        _kv('b', None),
        _kv('c', 'x"\'é\\'),
        _kv('a__in', [1, 2]),
        _kv('a__in', {'$tuple': [1, 2]}),
        _kv('a', _F('b')),
        _kv('a__gt', _comb(_F('b'), '+', {'$Value': 1})),
        _kv('c', {'$Value': 'v'}),
        _kv('a', 0),
        _kv('b', False),
    ]


def q_trees(tier):
    """Ordered dict id -> $Q description (AND/OR/XOR, negation, nesting)."""
    leaves = q_leaves()
    l0, l1, l2 = leaves[0], leaves[1], leaves[8]
    out = OrderedDict()
    tf = (False, True)

    for i, leaf in enumerate(leaves):
        for neg in tf:
            if neg and tier != 'thorough' and i > 1:
                continue
            out['leaf%d%s' % (i, '-neg' if neg else '')] = \
                _Q('AND', neg, [leaf])

    for conn in ('AND', 'OR', 'XOR'):
        for neg in tf:
            out['%s2%s' % (conn, '-neg' if neg else '')] = \
                _Q(conn, neg, [l0, l1])

    # A Q whose only child is a Q.
    for inner in ('AND', 'OR', 'XOR'):
        for n_out in tf:
            for n_in in tf:
                out['nest1(%s)%s%s' % (inner, '-nout' if n_out else '',
                                       '-nin' if n_in else '')] = \
                    _Q('AND', n_out, [_Q(inner, n_in, [l0, l1])])

    out['nest1(leaf-neg)'] = _Q('AND', False, [_Q('AND', True, [l0])])

    # leaf + nested Q.
    for outer in ('AND', 'OR', 'XOR'):
        for inner in ('AND', 'OR', 'XOR'):
            for n_in in tf:
                if tier != 'thorough' and n_in and outer != 'AND':
                    continue
                out['%s(leaf,%s%s)' % (outer, inner,
                                       '-neg' if n_in else '')] = \
                    _Q(outer, False, [l0, _Q(inner, n_in, [l1, l2])])

    if tier == 'thorough':
        for outer in ('AND', 'OR', 'XOR'):
            for mid in ('AND', 'OR', 'XOR'):
                for n_mid in tf:
                    out['deep(%s,%s%s)' % (outer, mid,
                                           '-neg' if n_mid else '')] = \
                        _Q(outer, False, [
                            _Q(mid, n_mid, [l0, _Q('OR', True, [l1, l2])]),
                            leaves[3],
                        ])

        out['empty'] = _Q('AND', False, [])
        out['three'] = _Q('OR', False, [l0, l1, l2])

    return out


def expression_values():
    """Ordered dict id -> expression description (for index expressions)."""
    a, b, c = _F('a'), _F('b'), _F('c')
    return OrderedDict([
        ('F', a),
        ('F+F', _comb(a, '+', b)),
        ('(F+F)*F', _comb(_comb(a, '+', b), '*', a)),
        ('F-(F-F)', _comb(a, '-', _comb(b, '-', a))),
        ('F*F+F', _comb(_comb(a, '*', b), '+', a)),
        ('F+Value', _comb(a, '+', {'$Value': 1})),
        ('desc', {'$OrderBy': [a, True]}),
        ('Lower', {'$Func': ['Lower', ['c']]}),
        ('Abs', {'$Func': ['Abs', ['a']]}),
    ])


# ---------------------------------------------------------------------------
# KNOWN genuine defects of the tree under test (see the final report)
# ---------------------------------------------------------------------------

KNOWN = []


def _known(kid, clause, match, what, inputs):
    KNOWN.append({'id': kid, 'clause': clause, 'match': match,
                  'what': what, 'inputs': inputs})


# (fixed in /repo: C05-related-model-into-attrs - see known_findings.json 'fixed')


_known(
    'C05-retype-same-dbtype-keeps-stale-attrs', 'hint-resolves',
    {'hinted mutation': 'ChangeField with field_type=... whose old and new '
                        'column db_type() are equal',
     'residual diff': 'only attributes that were set on the old field and '
                      'are not passed by the hinted ChangeField'},
    "Diff.evolution() emits only the new field's non-default attributes for "
    "a type change, but ChangeField.simulate() resets the attributes only "
    "when the database column type changes; for same-column-type changes "
    "(SlugField->CharField: db_index=True survives; nullable ForeignKey->"
    "IntegerField: null=True survives) stale attributes stay in the "
    "signature.",
    {'kind': 'pair',
     'old': make_spec([('f', ['SlugField', {}])]),
     'new': make_spec([('f', ['CharField', {'max_length': 50}])])})

_known(
    'C05-retype-relation-same-target-crashes', 'hint-resolves',
    {'pair': 'ForeignKey <-> OneToOneField re-typing with an unchanged '
             'relation target',
     'observed': "TypeError ... missing 2 required positional arguments: "
                 "'to' and 'on_delete' raised by ChangeField.simulate()"},
    "Diff.evolution() passes related_model to the hinted ChangeField only "
    "when the target changed, but ChangeField._get_field_type_change() "
    "builds the new field from the mutation's own related_model (None) and "
    "never falls back to the signature's, so create_field() calls "
    "ForeignKey(name=...) without a target and the simulation dies with a "
    "TypeError (not a SimulationFailure).",
    {'kind': 'pair',
     'old': make_spec([('f', ['OneToOneField', {'to': 'A'}])]),
     'new': make_spec([('f', ['ForeignKey', {'to': 'A'}])])})

_known(
    'C05-eq-ignores-order-diff-does-not', 'eq-iff-diff',
    {'pair': 'signatures identical up to the order of Meta.indexes, '
             'Meta.constraints or index_together entries',
     'observed': '== is True, diff is not empty'},
    "ModelSignature.__eq__ compares index_sigs/constraint_sigs/"
    "index_together as sets while ModelSignature.diff() compares them as "
    "lists.",
    {'kind': 'pair',
     'old': make_spec([], {'indexes': [IDX_A, IDX_B]}),
     'new': make_spec([], {'indexes': [IDX_B, IDX_A]}),
     'subject': 'old-vs-new'})

_known(
    'C05-eq-raw-attrs-diff-default-aware', 'eq-iff-diff',
    {'pair': 'field signatures identical except that one states an '
             'attribute explicitly with its default value',
     'observed': '== is False, diff empty in both directions'},
    "FieldSignature.__eq__ compares the raw field_attrs dictionaries while "
    "FieldSignature.diff() compares get_attr_value() (default aware), e.g. "
    "{'null': False} vs {} (what ChangeField(null=False) leaves behind).",
    {'kind': 'explicit',
     'spec': make_spec([('f', ['IntegerField', {}])]),
     'explicit': [['M', 'f', 'null']]})

_known(
    'C05-eq-sees-table-diff-does-not', 'eq-iff-diff',
    {'pair': 'model signatures that differ in table_name (Meta.db_table), '
             'db_tablespace or pk_column only',
     'observed': '== is False, diff empty in both directions'},
    "ModelSignature.__eq__ compares table_name, db_tablespace and pk_column; "
    "ModelSignature.diff() never looks at them.",
    {'kind': 'pair',
     'old': make_spec([], {}),
     'new': make_spec([], {'db_table': 'custom_m'}),
     'subject': 'old-vs-new'})


_known(
    'C05-eq-hash-depends-on-attr-order', 'eq-iff-diff',
    {'pair': 'signatures with equal content whose ConstraintSignature / '
             'IndexSignature attrs dictionaries have a different key '
             'insertion order (e.g. one built from the models, one by a '
             'ChangeMeta loaded from hinted evolution text, which sorts the '
             'keys)',
     'observed': '== is False, diff empty in both directions'},
    "ModelSignature.__eq__ compares set(constraint_sigs)/set(index_sigs) "
    "and ConstraintSignature/IndexSignature.__hash__ is hash(repr(self)), "
    "which includes the attrs dict in insertion order; signatures that are "
    "pairwise == (dict.__eq__) hash differently, so the set comparison "
    "fails.",
    {'kind': 'reordered-attrs',
     'spec': make_spec([], {'constraints': [
         {'type': 'UniqueConstraint', 'fields': ['a'], 'name': 'u_cond',
          'condition': _Q('AND', False, [_kv('b__gt', 0)])}]})})


# ---------------------------------------------------------------------------
# C05
# ---------------------------------------------------------------------------

def _field_defaults(field_sig):
    from django_evolution.signature import FieldSignature
    defaults = FieldSignature._get_defaults_for_field_type(
        field_sig.field_type)
    defaults.pop('db_table_comment', None)
    return defaults


def _norm(sig, drop_defaults=False, drop_table=False, sort_lists=False):
    """Serialized, optionally normalised form of a project signature."""
    data = json.loads(_ser(sig))

    for app_id, app in data.get('apps', {}).items():
        app_sig = sig.get_app_sig(app_id)

        for model_name, model in app['models'].items():
            model_sig = app_sig.get_model_sig(model_name)
            meta = model['meta']

            if drop_table:
                for key in ('db_table', 'db_tablespace', 'pk_column'):
                    meta[key] = None

            if sort_lists:
                for key in ('indexes', 'constraints', 'index_together'):
                    meta[key] = sorted(meta[key], key=lambda item: json.dumps(
                        item, sort_keys=True))

            if drop_defaults:
                for field_name, field in model['fields'].items():
                    field_sig = model_sig.get_field_sig(field_name)
                    attrs = field.get('attrs') or {}

                    for attr in list(attrs):
                        if field_sig.is_attr_value_default(attr):
                            del attrs[attr]

                    if not attrs:
                        field.pop('attrs', None)

    return json.dumps(data, sort_keys=True)


def _explain_eq(a, b, eq, dab, dba):
    """Known-defect id explaining an eq-iff-diff failure, else None."""
    from django_evolution.diff import Diff

    if eq and not (dab and dba):
        if _norm(a, sort_lists=True) != _norm(b, sort_lists=True):
            return None

        for diff in (Diff(a, b), Diff(b, a)):
            for app_changes in diff.changed.values():
                if set(app_changes) - {'changed'}:
                    return None

                for change in app_changes['changed'].values():
                    if set(change) - {'meta_changed'}:
                        return None

                    if set(change['meta_changed']) - {
                            'indexes', 'constraints', 'index_together'}:
                        return None

        return 'C05-eq-ignores-order-diff-does-not'

    if not eq and dab and dba:
        if _norm(a) == _norm(b):
            return None

        if _norm(a, drop_defaults=True) == _norm(b, drop_defaults=True):
            return 'C05-eq-raw-attrs-diff-default-aware'

        if _norm(a, drop_table=True) == _norm(b, drop_table=True):
            return 'C05-eq-sees-table-diff-does-not'

        if (_norm(a, drop_defaults=True, drop_table=True) ==
                _norm(b, drop_defaults=True, drop_table=True)):
            return ('C05-eq-raw-attrs-diff-default-aware+'
                    'C05-eq-sees-table-diff-does-not')

    return None


def _eq_clause(a, b, subject):
    eq = bool(a == b)
    dab = _diff_empty(a, b)
    dba = _diff_empty(b, a)
    ok = (eq == (dab and dba))
    result = {'clause': 'eq-iff-diff', 'subject': subject, 'ok': ok}

    if not ok:
        result['observed'] = {'==': eq, 'diff(a,b) empty': dab,
                              'diff(b,a) empty': dba}
        result['known_id'] = _explain_eq(a, b, eq, dab, dba)
        result['signature'] = 'eq=%s dab=%s dba=%s' % (eq, dab, dba)

    return result


def _self_clone_clauses(sig, subject):
    from django_evolution.diff import Diff
    results = []
    clone = sig.clone()
    ok = bool(Diff(sig, sig).is_empty(ignore_apps=False))
    results.append({'clause': 'self-diff-empty', 'subject': subject,
                    'ok': ok, 'observed': None if ok else str(Diff(sig, sig)),
                    'signature': 'self'})
    ok = _diff_empty(sig, clone) and _diff_empty(clone, sig)
    results.append({'clause': 'clone-diff-empty', 'subject': subject,
                    'ok': ok,
                    'observed': None if ok else str(Diff(sig, clone)),
                    'signature': 'clone'})
    results.append(_eq_clause(sig, clone, subject + ':clone'))
    return results


def _pre_info(project_sig, mutations):
    """Facts about hinted ChangeFields, gathered before simulating."""
    from django.db import connections
    info = {}

    for mutation in mutations:
        if type(mutation).__name__ != 'ChangeField':
            continue

        try:
            field_sig = (project_sig.get_app_sig(APP)
                         .get_model_sig(mutation.model_name)
                         .get_field_sig(mutation.field_name))
            entry = {'old_attrs': set(field_sig.field_attrs),
                     'same_db_type': False}

            if (mutation.field_type is not None and
                    mutation.field_type is not field_sig.field_type):
                changed = mutation._get_field_type_change(
                    connection=connections['default'], model=None,
                    project_sig=project_sig, old_field_sig=field_sig)[0]
                entry['same_db_type'] = not changed
        except Exception:
            entry = {'old_attrs': set(), 'same_db_type': False}

        info[(mutation.model_name, mutation.field_name)] = entry

    return info


def _explain_residual(residual, mutations, pre_info):
    """Known ids explaining *every* residual difference, else None."""
    causes = set()
    change_fields = dict(
        ((m.model_name, m.field_name), m) for m in mutations
        if type(m).__name__ == 'ChangeField')

    if residual.deleted:
        return None

    for app_changes in residual.changed.values():
        if set(app_changes) - {'changed'}:
            return None

        for model_name, change in app_changes['changed'].items():
            if set(change) - {'changed'}:
                return None

            for field_name, attrs in change['changed'].items():
                mutation = change_fields.get((model_name, field_name))
                info = pre_info.get((model_name, field_name))

                if mutation is None or info is None:
                    return None

                for attr in set(attrs):
                    if (attr == 'related_model' and
                            'related_model' in mutation.field_attrs):
                        causes.add('C05-related-model-into-attrs')
                    elif (attr not in ('field_type', 'related_model') and
                          mutation.field_type is not None and
                          info['same_db_type'] and
                          attr not in mutation.field_attrs and
                          attr in info['old_attrs']):
                        causes.add('C05-retype-same-dbtype-keeps-stale-attrs')
                    else:
                        return None

    return '+'.join(sorted(causes)) or None


def _explain_crash(e, mutations, old_sig):
    """Known id for an exception raised while simulating the hint."""
    models = _models()

    if not (isinstance(e, TypeError) and
            "required positional arguments: 'to' and 'on_delete'" in str(e)):
        return None

    for mutation in mutations:
        if (type(mutation).__name__ == 'ChangeField' and
                mutation.field_type is not None and
                issubclass(mutation.field_type, models.ForeignKey) and
                'related_model' not in mutation.field_attrs):
            field_sig = (old_sig.get_app_sig(APP)
                         .get_model_sig(mutation.model_name)
                         .get_field_sig(mutation.field_name))

            if (field_sig is not None and field_sig.related_model and
                    issubclass(field_sig.field_type, models.ForeignKey) and
                    field_sig.field_type is not mutation.field_type):
                return 'C05-retype-relation-same-target-crashes'

    return None


def _apply_explicit(sig, explicit):
    """Clone sig and state default attribute values explicitly.

    explicit: 'all' or a list of [model, field, attr]."""
    result = sig.clone()
    app_sig = result.get_app_sig(APP)

    if explicit == 'all':
        for model_sig in app_sig.model_sigs:
            for field_sig in model_sig.field_sigs:
                for attr, default in _field_defaults(field_sig).items():
                    field_sig.field_attrs.setdefault(attr, default)
    else:
        for model_name, field_name, attr in explicit:
            field_sig = (app_sig.get_model_sig(model_name)
                         .get_field_sig(field_name))
            field_sig.field_attrs.setdefault(
                attr, field_sig.get_attr_default(attr))

    return result


def _c05_eval(inputs, cache=None):
    """Evaluate all C05 clauses for one scenario.

    kinds: 'pair' {'old': spec, 'new': spec}; 'explicit' {'spec': spec,
    'explicit': 'all' | [[model, field, attr]...], 'new': spec (optional)}.
    """
    H.setup()
    from django_evolution.diff import Diff

    cache = cache or _cache
    kind = inputs.get('kind', 'pair')
    outcome = {'results': [], 'skipped': None, 'nontrivial': False,
               'summary': None}
    results = outcome['results']

    if kind == 'reordered-attrs':
        base = cache.sig(inputs['spec'])
        other = base.clone()

        for model_sig in other.get_app_sig(APP).model_sigs:
            for item in model_sig.constraint_sigs + model_sig.index_sigs:
                item.attrs = dict(reversed(list((item.attrs or {}).items())))

        result = _eq_clause(base, other, 'reordered-vs-plain')

        if (not result['ok'] and result.get('known_id') is None and
                _norm(base) == _norm(other) and
                result['observed']['=='] is False):
            result['known_id'] = 'C05-eq-hash-depends-on-attr-order'

        results.append(result)
        outcome['nontrivial'] = any(
            len(item.attrs or {}) > 1
            for model_sig in other.get_app_sig(APP).model_sigs
            for item in model_sig.constraint_sigs + model_sig.index_sigs)
        return outcome

    if kind == 'explicit':
        base = cache.sig(inputs['spec'])
        old = _apply_explicit(base, inputs['explicit'])
        results.append(_eq_clause(old, base, 'explicit-vs-plain'))
        results.extend(_self_clone_clauses(old, 'explicit'))
        outcome['nontrivial'] = _ser(old) != _ser(base)

        if inputs.get('new') is None:
            return outcome

        new_spec = inputs['new']
    else:
        old = cache.sig(inputs['old'])
        new_spec = inputs['new']

    new = cache.sig(new_spec)
    cache.register(new_spec)

    if kind == 'pair':
        outcome['nontrivial'] = _ser(old) != _ser(new)

    results.append(_eq_clause(old, new, 'old-vs-new'))

    evolved = old.clone()
    mutations = []
    pre_info = {}

    try:
        with warnings.catch_warnings():
            warnings.simplefilter('ignore')
            evolution = Diff(old, new).evolution()

        for app_label, app_mutations in evolution.items():
            if app_label != APP:
                raise AssertionError('unexpected app %r' % app_label)
            mutations.extend(app_mutations)

        pre_info = _pre_info(evolved, mutations)
        outcome['summary'] = {'hint': _hints(mutations)}
        _simulate(evolved, mutations)
    except _lib_rejections() as e:
        outcome['skipped'] = 'hinted evolution rejected: %s' % _exc(e)
        outcome['nontrivial'] = False
        return outcome
    except Exception as e:
        results.append({
            'clause': 'hint-resolves', 'subject': 'evolved-vs-new',
            'ok': False,
            'observed': {'exception': _exc(e), 'hint': _hints(mutations)},
            'known_id': _explain_crash(e, mutations, old),
            'signature': 'exception %s' % _exc(e)[:120]})
        return outcome

    residual = Diff(evolved, new)
    ok = bool(residual.is_empty(ignore_apps=False))
    result = {'clause': 'hint-resolves', 'subject': 'evolved-vs-new',
              'ok': ok}

    if not ok:
        result['observed'] = {'hint': _hints(mutations),
                              'residual_diff': str(residual)}
        result['known_id'] = _explain_residual(residual, mutations, pre_info)
        result['signature'] = str(residual)[:160]

    results.append(result)
    results.append(_eq_clause(evolved, new, 'evolved-vs-new'))

    return outcome


def _two_apps_scenarios():
    """Hand-built projects in which TWO (or three) apps change in one diff: each app's hinted evolution must hold that
    app's mutations only and resolve that app's change (signature level, made-up app labels)."""
    from django.db import models
    from django_evolution.signature import (ProjectSignature, AppSignature, ModelSignature, FieldSignature)

    def project(apps):
        p = ProjectSignature()
        for label, model_list in apps:
            a = AppSignature(label)
            for mname, fields, ut in model_list:
                m = ModelSignature(mname, '%s_%s' % (label, mname.lower()), unique_together=ut)
                m.add_field_sig(FieldSignature('id', models.AutoField, {'primary_key': True}))
                for fname, ftype, attrs in fields:
                    m.add_field_sig(FieldSignature(fname, ftype, dict(attrs)))
                a.add_model_sig(m)
            p.add_app_sig(a)
        return p
    C, I = models.CharField, models.IntegerField
    yield 'different-models', \
        project([('lib', [('Book', [('title', C, {'max_length': 50})], [])]),
                 ('acc', [('Member', [('name', C, {'max_length': 30}), ('age', I, {'null': True})], [])])]), \
        project([('lib', [('Book', [('title', C, {'max_length': 80}), ('pages', I, {'null': True})], [])]),
                 ('acc', [('Member', [('name', C, {'max_length': 60})], [])])])
    yield 'same-model-name', \
        project([('staff', [('Profile', [('name', C, {'max_length': 50})], [])]),
                 ('cust', [('Profile', [('name', C, {'max_length': 50})], [])])]), \
        project([('staff', [('Profile', [('name', C, {'max_length': 100})], [])]),
                 ('cust', [('Profile', [('name', C, {'max_length': 80})], [])])])
    yield 'three-apps', \
        project([('a1', [('M', [('f', C, {'max_length': 5})], [])]), ('a2', [('M', [('f', C, {'max_length': 5})], [])]),
                 ('a3', [('N', [('g', I, {'null': True})], [])])]), \
        project([('a1', [('M', [('f', C, {'max_length': 6})], [])]), ('a2', [('M', [('f', C, {'max_length': 7})], [])]),
                 ('a3', [('N', [], [])])])


def _two_apps_eval(name, old, new):
    from django_evolution.diff import Diff
    outcome = {'results': [], 'skipped': None, 'nontrivial': True, 'summary': None}
    hints = {}
    try:
        with warnings.catch_warnings():
            warnings.simplefilter('ignore')
            evolution = Diff(old, new).evolution()
        evolved = old.clone()
        for app_label, app_mutations in evolution.items():
            hints[app_label] = _hints(app_mutations)
            _simulate(evolved, app_mutations, app_label=app_label)
        residual = Diff(evolved, new)
        ok = bool(residual.is_empty(ignore_apps=False))
        observed = None if ok else {'hints': hints, 'residual_diff': str(residual)[:600]}
    except Exception as e:
        ok, observed = False, {'exception': _exc(e), 'hints': hints}
    result = {'clause': 'hint-resolves', 'subject': 'two-apps:' + name, 'ok': ok}
    if not ok:
        result.update(observed=observed, known_id=None, signature='two apps %s: %s' % (name, str(observed)[:120]))
    outcome['results'].append(result)
    return outcome


C05_SAMPLE_SIZES = {
    'quick': {'meta-combo': 300, 'multi-field': 600},
    'thorough': {'meta-combo': 15000, 'multi-field': 40000},
}


def _c05_scenarios(tier, rng, sizes=None):
    """Yield (family, inputs).  See the 'rule' text of suite_C05."""
    sizes = sizes or C05_SAMPLE_SIZES[tier]
    variants = field_variants(tier)
    ids = [None] + list(variants)

    def variant(vid):
        return None if vid is None else variants[vid]

    # F1: all ordered pairs of subject-field variants (incl. absent).
    for new_id in ids:
        for old_id in ids:
            old_v, new_v = variant(old_id), variant(new_id)

            if (old_v is not None and new_v is not None and
                    _is_m2m(old_v) != _is_m2m(new_v)):
                continue  # column <-> m2m table: not a ChangeField job

            yield 'field-pairs', {
                'kind': 'pair',
                'old': make_spec([('f', old_v)]),
                'new': make_spec([('f', new_v)])}

    # F2: every Meta property: all ordered pairs of its variants.
    metas = meta_variants()

    for prop, prop_variants in metas.items():
        for new_id, new_value in prop_variants.items():
            for old_id, old_value in prop_variants.items():
                yield 'meta-single', {
                    'kind': 'pair',
                    'old': make_spec([], {prop: old_value}),
                    'new': make_spec([], {prop: new_value})}

    # F3: sampled pairs of full Meta combinations.
    def random_meta():
        return dict((prop, rng.choice(list(prop_variants.values())))
                    for prop, prop_variants in metas.items()
                    if prop != 'db_table' or rng.random() < 0.2)

    for i in range(sizes['meta-combo']):
        yield 'meta-combo', {
            'kind': 'pair',
            'old': make_spec([], random_meta()),
            'new': make_spec([], random_meta())}

    # F4: several fields (and sometimes Meta) changing together.
    def random_fields():
        subject = []

        for name in ('f', 'g', 'h'):
            vid = rng.choice(ids)
            v = variant(vid)

            if v is not None and v[1].get('db_column'):
                v = copy.deepcopy(v)
                v[1]['db_column'] = 'col_%s' % name

            if v is not None and v[1].get('db_table'):
                v = copy.deepcopy(v)
                v[1]['db_table'] = 'custom_m2m_%s' % name

            if v is not None and v[0] in ('ForeignKey', 'OneToOneField',
                                          'ManyToManyField'):
                v = copy.deepcopy(v)
                v[1]['related_name'] = 'rel_%s' % name

            subject.append((name, v))

        return subject

    for i in range(sizes['multi-field']):
        old_f, new_f = random_fields(), random_fields()

        if any(o is not None and n is not None and _is_m2m(o) != _is_m2m(n)
               for (_, o), (_, n) in zip(old_f, new_f)):
            continue

        with_meta = rng.random() < 0.3
        yield 'multi-field', {
            'kind': 'pair',
            'old': make_spec(old_f, random_meta() if with_meta else None),
            'new': make_spec(new_f, random_meta() if with_meta else None)}

    # F5: deleted models, alone and together with field changes.
    extras = OrderedDict([
        ('X', {'fields': OrderedDict([('x', ['IntegerField', {}])])}),
        ('Y', {'fields': OrderedDict([('ref', ['ForeignKey', {'to': 'A'}])])}),
        ('Z', {'fields': OrderedDict([('many', ['ManyToManyField',
                                                {'to': 'A'}])])}),
    ])
    change_ids = [None, 'Int()', 'Int(null=True)', 'Char()', 'FK()',
                  'FK(to=B)', 'M2M()']
    change_ids = [vid for vid in change_ids if vid in ids]

    for count in (1, 2, 3):
        for names in itertools.combinations(extras, count):
            extra = [(name, extras[name]) for name in names]

            for old_id in change_ids:
                for new_id in change_ids:
                    old_v, new_v = variant(old_id), variant(new_id)

                    if (old_v is not None and new_v is not None and
                            _is_m2m(old_v) != _is_m2m(new_v)):
                        continue

                    yield 'deleted-models', {
                        'kind': 'pair',
                        'old': make_spec([('f', old_v)], None, extra),
                        'new': make_spec([('f', new_v)])}

    # A deleted model that the old M pointed to.
    for new_id in (None, 'Int()', 'FK()'):
        yield 'deleted-models', {
            'kind': 'pair',
            'old': make_spec([('f', ['ForeignKey', {'to': 'X'}])], None,
                             [('X', extras['X'])]),
            'new': make_spec([('f', variant(new_id))])}

    # F6: defaults stated explicitly vs omitted (direct construction).
    for vid in ids:
        if vid is None:
            continue

        spec = make_spec([('f', variant(vid))])
        yield 'explicit-defaults', {'kind': 'explicit', 'spec': spec,
                                    'explicit': 'all'}

        for attr in ('null', 'db_index', 'unique', 'max_length',
                     'db_column', 'primary_key'):
            yield 'explicit-defaults', {
                'kind': 'explicit', 'spec': spec,
                'explicit': [['M', 'f', attr]]}

    # F7: equal content, different key order of constraint/index attrs.
    for prop in ('indexes', 'constraints'):
        for value in metas[prop].values():
            yield 'reordered-attrs', {'kind': 'reordered-attrs',
                                      'spec': make_spec([], {prop: value})}

    explicit_targets = [vid for vid in (
        None, 'Int()', 'Int(null=True)', 'Int(all)', 'Char()',
        'Char(null=True)', 'BigInt()', 'FK()') if vid in ids]

    for old_id in ids:
        if old_id is None:
            continue

        for new_id in explicit_targets:
            old_v, new_v = variant(old_id), variant(new_id)

            if new_v is not None and _is_m2m(old_v) != _is_m2m(new_v):
                continue

            yield 'explicit-defaults', {
                'kind': 'explicit',
                'spec': make_spec([('f', old_v)]),
                'explicit': 'all',
                'new': make_spec([('f', new_v)])}


C05_RULE = (
    "Scenario = ordered pair (old model set, new model set) over helper "
    "models A, B and a model M(a,b,c + subject fields).  Families: "
    "field-pairs = ALL ordered pairs of subject-field variants incl. "
    "'absent' (quick: per type the base variant, each tracked attribute "
    "changed alone, all together; thorough: full attribute product; "
    "column<->ManyToMany re-typing excluded); meta-single = ALL ordered "
    "pairs of variants of each of unique_together, index_together, indexes, "
    "constraints, db_table_comment, db_table (incl. reordered lists); "
    "meta-combo / multi-field = random.Random(seed) samples of pairs of "
    "full Meta combinations / of three subject fields (+Meta) changing at "
    "once; deleted-models = all subsets of 3 extra models deleted x field "
    "changes; explicit-defaults = directly constructed signatures with "
    "default attribute values stated explicitly (all / one attribute), "
    "compared with the plain signature and used as old side of a hinted "
    "evolution; reordered-attrs = a signature vs its clone with the key "
    "order of every constraint/index attrs dict reversed.  Per pair: "
    "Diff(old,new).evolution() is simulated on "
    "old.clone() with the real mutation.run_simulation(); clauses "
    "hint-resolves (Diff(evolved,new) empty), eq-iff-diff on (old,new), "
    "(evolved,new), (sig,clone), (explicit,plain); self-diff-empty and "
    "clone-diff-empty on every distinct signature.  A hinted evolution "
    "the library rejects (SimulationFailure, EvolutionNotImplementedError; "
    "on SQLite: every ChangeMeta('db_table_comment')) is skipped.  "
    "Non-trivial = not skipped and the two signatures of the scenario have "
    "different serialized content; distinct by the scenario inputs.")


def suite_C05(tier='quick', seed=0):
    H.setup()
    rng = random.Random(seed)
    collector = _Collector('C05', tier, seed)
    cache = _cache
    seen_sigs = set()
    families = OrderedDict()

    for family, inputs in _c05_scenarios(tier, rng):
        outcome = _c05_eval(inputs, cache)
        families[family] = families.get(family, 0) + 1

        # self / clone clauses once per distinct signature.
        for key in ('old', 'new', 'spec'):
            spec = inputs.get(key)

            if spec is None:
                continue

            skey = spec_key(spec)

            if skey not in seen_sigs:
                seen_sigs.add(skey)
                sub_outcome = {
                    'results': _self_clone_clauses(cache.sig(spec), 'sig'),
                    'nontrivial': True}
                collector.add({'kind': 'self-clone', 'spec': spec},
                              sub_outcome)

        collector.add(inputs, outcome)

        if (outcome['nontrivial'] and
                families[family] in (5, 50) and len(collector.samples) < 3):
            collector.sample(inputs, outcome)

    for name, old_p, new_p in _two_apps_scenarios():
        families['two-apps'] = families.get('two-apps', 0) + 1
        collector.add({'kind': 'two-apps', 'name': name}, _two_apps_eval(name, old_p, new_p))

    collector.extra['families'] = families
    collector.extra['distinct_signatures'] = len(seen_sigs)
    return collector.finish(
        exhaustive=False,
        rule=C05_RULE + '  (families field-pairs, meta-single, '
        'deleted-models and explicit-defaults are exhaustive over their '
        'stated variant catalogs; meta-combo and multi-field are sampled.)')


def replay_C05(inputs):
    H.setup()
    inputs = copy.deepcopy(inputs)
    clause = inputs.pop('clause', None)
    subject = inputs.pop('subject', None)

    if inputs.get('kind') == 'two-apps':
        results = []
        for name, old_p, new_p in _two_apps_scenarios():
            if name == inputs.get('name'):
                results = _two_apps_eval(name, old_p, new_p)['results']
    elif inputs.get('kind') == 'self-clone':
        results = _self_clone_clauses(_cache.sig(inputs['spec']), 'sig')
    else:
        results = _c05_eval(inputs)['results']

    matching = [r for r in results
                if (clause is None or r['clause'] == clause) and
                (subject is None or r.get('subject') == subject)]
    failing = [r for r in matching if not r['ok']]

    return {'reproduced': bool(failing), 'clause': clause,
            'subject': subject,
            'observed': H.to_jsonable([r.get('observed') for r in failing]),
            'known_id': [r.get('known_id') for r in failing]}


# ---------------------------------------------------------------------------
# C06
# ---------------------------------------------------------------------------

# (fixed in /repo: C06-json-ordereddict-not-reconstructed - see known_findings.json 'fixed')


_known(
    'C06-json-tuple-attr-becomes-list', 'json:eq',
    {'path': 'json / db',
     'signature': 'a constraint attribute whose value is a tuple, e.g. '
                  'UniqueConstraint fields/include/opclasses as returned by '
                  'deconstruct()'},
    "ConstraintSignature stores deconstruct() kwargs verbatim (fields=('a', "
    "'b')); JSON turns the tuple into a list and ConstraintSignature.__eq__ "
    "uses dict.__eq__, so ('a','b') != ['a','b'] (IndexSignature normalises "
    "tuples to lists, ConstraintSignature does not).",
    {'kind': 'spec', 'spec': make_spec([], {'constraints': [UC_AB]})})

_known(
    'C06-applied-migrations-not-preserved', 'mem:eq',
    {'path': 'every path',
     'signature': "AppSignature with upgrade_method == 'migrations' and "
                  "applied_migrations None, or upgrade_method != "
                  "'migrations' and applied_migrations not None"},
    "AppSignature.serialize() writes applied_migrations only for "
    "upgrade_method == 'migrations' and writes None as []; deserialize() "
    "turns [] into set() and a missing key into None, while __eq__ compares "
    "applied_migrations strictly (None != set()).  from_app() really "
    "produces (migrations, None) (get_app_upgrade_info: `if not "
    "applied_migrations: applied_migrations = None`).",
    {'kind': 'direct', 'sig': {'apps': [
        {'app_id': 'tests', 'upgrade_method': 'migrations',
         'applied_migrations': None, 'models': []}]}})


_known(
    'C06-field-attr-order-not-preserved', 'json:text',
    {'path': 'mem / json / db',
     'signature': 'a field signature whose attributes were set in an order '
                  'different from FieldSignature._ATTRIBUTE_DEFAULTS (e.g. '
                  'after AddField(db_column=..., db_index=...) or '
                  'ChangeField(db_index=..., unique=...))',
     'observed': 'loaded == original, diff empty, but the re-serialized '
                 'text differs from the stored text in the key order of a '
                 "field's attrs only"},
    "FieldSignature.deserialize() rebuilds field_attrs by iterating the "
    "attribute-defaults table, not the stored dictionary, so the key order "
    "of the stored text is not reproduced when the signature is written "
    "again (text differs although the content is the same).",
    {'kind': 'evolved',
     'spec': make_spec([('g', ['IntegerField', {'null': True}])]),
     'mutations': [['ChangeField', 'M', 'g', {'db_index': True,
                                               'unique': True}]]})


_known(
    'C06-untracked-field-attrs-dropped', 'mem:eq',
    {'path': 'every path',
     'signature': 'a FieldSignature whose field_attrs hold a key that is '
                  'not in FieldSignature._ATTRIBUTE_DEFAULTS for its type: '
                  "what AddField(..., help_text=...) stores, and the "
                  "'related_model' entry ChangeField.simulate() leaves "
                  'behind (KNOWN C05-related-model-into-attrs)'},
    "FieldSignature.serialize() writes all field_attrs, but deserialize() "
    "only reads the attribute names of the defaults table for the field "
    "type; any other stored attribute silently disappears, so the reloaded "
    "signature is != the written one (and, for the stray related_model "
    "entry, has a non-empty diff).",
    {'kind': 'evolved',
     'spec': make_spec([]),
     'mutations': [['AddField', 'M', 'n', {'$cls': 'CharField'},
                    {'max_length': 5, 'null': True, 'help_text': 'h'}]]})


def build_sig_direct(desc):
    """Build a ProjectSignature from a plain-data description."""
    H.setup()
    from django_evolution.signature import (AppSignature,
                                            ConstraintSignature,
                                            FieldSignature, IndexSignature,
                                            ModelSignature,
                                            ProjectSignature)
    models = _models()
    project_sig = ProjectSignature()

    for app in desc.get('apps', []):
        applied = app.get('applied_migrations')
        app_sig = AppSignature(
            app_id=app['app_id'],
            legacy_app_label=app.get('legacy_app_label'),
            upgrade_method=app.get('upgrade_method'),
            applied_migrations=None if applied is None else list(applied))

        for model in app.get('models', []):
            model_sig = ModelSignature(
                model_name=model['name'],
                table_name=model.get('table',
                                     '%s_%s' % (app['app_id'],
                                                model['name'].lower())),
                db_tablespace=model.get('db_tablespace', ''),
                index_together=V(model.get('index_together', [])),
                pk_column=model.get('pk_column', 'id'),
                unique_together=V(model.get('unique_together', [])),
                unique_together_applied=model.get('ut_applied', True),
                db_table_comment=model.get('db_table_comment'))

            for field in model.get('fields', []):
                name, ftype, attrs = field[0], field[1], field[2]
                related = field[3] if len(field) > 3 else None
                model_sig.add_field_sig(FieldSignature(
                    field_name=name,
                    field_type=V({'$cls': ftype}),
                    field_attrs=OrderedDict(
                        (key, V(value)) for key, value in attrs.items()),
                    related_model=related))

            for index in model.get('indexes', []):
                expressions = index.get('expressions')
                model_sig.add_index_sig(IndexSignature(
                    name=index.get('name'),
                    fields=V(index.get('fields')),
                    expressions=(None if expressions is None
                                 else V(expressions)),
                    attrs=(None if index.get('attrs') is None else dict(
                        (key, V(value))
                        for key, value in index['attrs'].items()))))

            for constraint in model.get('constraints', []):
                model_sig.add_constraint_sig(ConstraintSignature(
                    name=constraint['name'],
                    constraint_type=getattr(models, constraint['type']),
                    attrs=dict((key, V(value)) for key, value in
                               constraint.get('attrs', {}).items())))

            app_sig.add_model_sig(model_sig)

        project_sig.add_app_sig(app_sig)

    return project_sig


class _IllFormed(Exception):
    pass


def _c06_signature(inputs, cache=None):
    cache = cache or _cache
    kind = inputs['kind']

    if kind == 'spec':
        return cache.sig(inputs['spec']).clone()
    if kind == 'evolved':
        sig = cache.sig(inputs['spec']).clone()
        _simulate(sig, [build_mutation(d) for d in inputs['mutations']])
        return sig
    if kind == 'direct':
        return build_sig_direct(inputs['sig'])
    if kind == 'hinted-evolved':
        from django_evolution.diff import Diff
        old = cache.sig(inputs['old'])
        new = cache.sig(inputs['new'])
        cache.register(inputs['new'])
        sig = old.clone()

        with warnings.catch_warnings():
            warnings.simplefilter('ignore')
            evolution = Diff(old, new).evolution()

        _simulate(sig, [m for ms in evolution.values() for m in ms])

        for app_sig in sig.app_sigs:
            for model_sig in app_sig.model_sigs:
                for field_sig in model_sig.field_sigs:
                    if 'related_model' in field_sig.field_attrs:
                        # Ill-formed product of KNOWN
                        # C05-related-model-into-attrs; reported there.
                        raise _IllFormed('stray related_model attribute')

        return sig

    raise ValueError(kind)


def _has_tuple(value):
    if isinstance(value, tuple):
        return True
    if isinstance(value, dict):
        return any(_has_tuple(item) for item in value.values())
    if isinstance(value, list):
        return any(_has_tuple(item) for item in value)
    return False


def _c06_explain(orig, loaded, path):
    """Known ids explaining every component that differs, else None."""
    causes = set()
    orig_apps = OrderedDict((a.app_id, a) for a in orig.app_sigs)
    loaded_apps = OrderedDict((a.app_id, a) for a in loaded.app_sigs)

    if list(orig_apps) != list(loaded_apps):
        return None

    for app_id, a in orig_apps.items():
        b = loaded_apps[app_id]

        if (a.legacy_app_label != b.legacy_app_label or
                a.upgrade_method != b.upgrade_method):
            return None

        if a.applied_migrations != b.applied_migrations:
            is_migrations = a.upgrade_method == 'migrations'

            if ((is_migrations and a.applied_migrations is None and
                 b.applied_migrations == set()) or
                (not is_migrations and a.applied_migrations is not None
                 and b.applied_migrations is None)):
                causes.add('C06-applied-migrations-not-preserved')
            else:
                return None

        a_models = OrderedDict((m.model_name, m) for m in a.model_sigs)
        b_models = OrderedDict((m.model_name, m) for m in b.model_sigs)

        if list(a_models) != list(b_models):
            return None

        for model_name, ma in a_models.items():
            mb = b_models[model_name]

            for attr in ('table_name', 'db_table_comment', 'db_tablespace',
                         'pk_column', 'index_together', 'unique_together',
                         '_unique_together_applied'):
                if getattr(ma, attr) != getattr(mb, attr):
                    return None

            if list(ma._field_sigs) != list(mb._field_sigs):
                return None

            for field_name, fa in ma._field_sigs.items():
                fb = mb._field_sigs[field_name]

                if fa == fb:
                    continue

                tracked = set(_field_defaults(fa)) | {'db_table_comment'}
                dropped = set(fa.field_attrs) - tracked
                kept = dict((key, value)
                            for key, value in fa.field_attrs.items()
                            if key in tracked)

                if (dropped and fa.field_type is fb.field_type and
                        fa.related_model == fb.related_model and
                        dict.__eq__(kept, fb.field_attrs)):
                    causes.add('C06-untracked-field-attrs-dropped')
                else:
                    return None

            for attr in ('index_sigs', 'constraint_sigs'):
                la, lb = getattr(ma, attr), getattr(mb, attr)

                if len(la) != len(lb):
                    return None

                for sa, sb in zip(la, lb):
                    if sa == sb and hash(sa) == hash(sb):
                        continue

                    if path not in ('json', 'db'):
                        return None

                    def _listify(value):
                        if isinstance(value, (list, tuple)):
                            return [_listify(item) for item in value]
                        if isinstance(value, dict):
                            return dict((key, _listify(item)) for key, item in value.items())
                        return value

                    # (the OrderedDict/_deconstructed loss was repaired in /repo; it is no longer an accepted
                    # explanation)  A difference that vanishes once tuples are read as lists is the recorded
                    # tuple-vs-list finding; anything else is unknown.
                    # JSON has no tuples: a difference that vanishes once every tuple in the two serialised forms
                    # is read as a list (constraint attrs, index expressions, values inside Q objects) is the
                    # recorded tuple-vs-list finding; anything else is unknown.
                    if _listify(sa.serialize()) == _listify(sb.serialize()):
                        causes.add('C06-json-tuple-attr-becomes-list')
                    else:
                        return None

    return '+'.join(sorted(causes)) or None


def _sort_field_attrs(text):
    """JSON text with only the field 'attrs' dictionaries key-sorted."""
    data = json.loads(text, object_pairs_hook=OrderedDict)

    for app in data.get('apps', {}).values():
        for model in app.get('models', {}).values():
            for field in model.get('fields', {}).values():
                if 'attrs' in field:
                    field['attrs'] = OrderedDict(
                        sorted(field['attrs'].items()))

    return json.dumps(data)


def _v1_expressible(sig):
    for app_sig in sig.app_sigs:
        if (app_sig.upgrade_method is not None or
                app_sig.applied_migrations is not None or
                app_sig.legacy_app_label != app_sig.app_id):
            return False

        for model_sig in app_sig.model_sigs:
            for index_sig in model_sig.index_sigs:
                if index_sig.attrs or index_sig.expressions:
                    return False

    return True


def _c06_roundtrip(sig, path):
    """Return (loaded signature, stored text, re-serialized text)."""
    from django_evolution.models import SignatureField, Version
    from django_evolution.signature import ProjectSignature
    from django_evolution.compat.py23 import pickle_dumps, pickle_loads

    if path == 'mem':
        data = sig.serialize()
        stored = json.dumps(data, default=repr)
        loaded = ProjectSignature.deserialize(data)
        return loaded, stored, json.dumps(loaded.serialize(), default=repr)

    field = SignatureField()

    if path == 'json':
        stored = field._dumps(sig)
        loaded = field.to_python(stored)
        return loaded, stored, field._dumps(loaded)

    if path == 'db':
        from django.db import connections
        version = Version(signature=sig)
        version.save()

        try:
            with connections['default'].cursor() as cursor:
                cursor.execute('SELECT signature FROM django_project_version'
                               ' WHERE id = %s', [version.pk])
                stored = cursor.fetchone()[0]

            loaded = Version.objects.get(pk=version.pk).signature
        finally:
            Version.objects.filter(pk=version.pk).delete()

        return loaded, stored, field._dumps(loaded)

    if path in ('v1', 'v1legacy'):
        data = sig.serialize(sig_version=1)
        stored = pickle_dumps(data)

        if path == 'v1legacy':
            # What Django <= 1.6 era signatures look like: SortedDict
            # containers (forces the DjangoCompatUnpickler fallback).
            stored = stored.replace(
                'ccollections\nOrderedDict',
                'cdjango.utils.datastructures\nSortedDict')

        loaded = ProjectSignature.deserialize(pickle_loads(stored))
        return loaded, stored, pickle_dumps(loaded.serialize(sig_version=1))

    raise ValueError(path)


C06_PATHS = ('mem', 'json', 'db', 'v1', 'v1legacy')


def _c06_eval(inputs, cache=None, paths=C06_PATHS):
    H.setup()
    outcome = {'results': [], 'skipped': None, 'nontrivial': False,
               'summary': None}
    results = outcome['results']

    try:
        sig = _c06_signature(inputs, cache)
    except _lib_rejections() as e:
        outcome['skipped'] = 'could not build signature: %s' % _exc(e)
        return outcome
    except _IllFormed as e:
        outcome['skipped'] = 'input signature ill-formed: %s' % _exc(e)
        return outcome
    except TypeError as e:
        if inputs['kind'] != 'hinted-evolved':
            raise
        # KNOWN C05-retype-relation-same-target-crashes; not a C06 matter.
        outcome['skipped'] = 'could not build signature: %s' % _exc(e)
        return outcome

    outcome['nontrivial'] = True
    outcome['summary'] = {'stored_text_length': len(_ser(sig))}

    for path in paths:
        if path in ('v1', 'v1legacy') and not _v1_expressible(sig):
            continue

        try:
            with warnings.catch_warnings():
                warnings.simplefilter('ignore')
                loaded, stored, restored = _c06_roundtrip(sig, path)
        except Exception as e:
            results.append({'clause': '%s:roundtrip-error' % path,
                            'ok': False, 'observed': _exc(e),
                            'known_id': None,
                            'signature': _exc(e)[:100]})
            continue

        if path in ('v1', 'v1legacy'):
            # Same logical content: compare the models (a v1 signature has
            # no place for app-level upgrade information).
            a_models = [(app.app_id, m.model_name, m)
                        for app in sig.app_sigs for m in app.model_sigs]
            b_models = [(app.app_id, m.model_name, m)
                        for app in loaded.app_sigs for m in app.model_sigs]
            eq = (len(a_models) == len(b_models) and all(
                x[:2] == y[:2] and x[2] == y[2]
                for x, y in zip(a_models, b_models)))
            diff_ok = (len(a_models) == len(b_models) and all(
                not y[2].diff(x[2]) and not x[2].diff(y[2])
                for x, y in zip(a_models, b_models)))
        else:
            eq = bool(loaded == sig)
            diff_ok = _diff_empty(sig, loaded) and _diff_empty(loaded, sig)

        # Pickle text is not canonical; v1 only promises the same content.
        text_ok = (True if path in ('v1', 'v1legacy')
                   else (stored == restored))
        explained = None

        if not (eq and diff_ok):
            explained = _c06_explain(sig, loaded, path)

        results.append({'clause': '%s:eq' % path, 'ok': eq,
                        'observed': None if eq else {'loaded == original':
                                                     False},
                        'known_id': explained, 'signature': 'eq'})

        observed = None

        if not diff_ok:
            from django_evolution.diff import Diff
            observed = {'diff(original, loaded)': str(Diff(sig, loaded)),
                        'diff(loaded, original)': str(Diff(loaded, sig))} \
                if path not in ('v1', 'v1legacy') else {
                    'model diff': 'not empty'}

        results.append({'clause': '%s:diff-empty' % path, 'ok': diff_ok,
                        'observed': observed, 'known_id': explained,
                        'signature': 'diff'})

        observed = None
        text_known = None

        if not text_ok:
            same_canonical = None
            only_field_attr_order = None

            if path in ('mem', 'json', 'db'):
                try:
                    strip = (lambda t: t[len('json!'):]
                             if t.startswith('json!') else t)
                    same_canonical = (
                        json.dumps(json.loads(strip(stored)), sort_keys=True)
                        == json.dumps(json.loads(strip(restored)),
                                      sort_keys=True))
                    only_field_attr_order = (
                        _sort_field_attrs(strip(stored)) ==
                        _sort_field_attrs(strip(restored)))
                except Exception:
                    pass

            if only_field_attr_order and eq and diff_ok:
                text_known = 'C06-field-attr-order-not-preserved'
            elif explained and 'untracked-field-attrs' in explained:
                text_known = explained

            observed = {'stored': stored[:400], 'restored': restored[:400],
                        'equal_up_to_key_order': same_canonical,
                        'only_field_attr_order_differs':
                        only_field_attr_order}

        results.append({'clause': '%s:text' % path, 'ok': text_ok,
                        'observed': observed, 'known_id': text_known,
                        'signature': 'text'})

    return outcome


def _value_space_specs(tier):
    """Specs whose indexes/constraints carry the C06/C13 value space."""
    out = []

    for qid, q in q_trees(tier).items():
        out.append(('check:%s' % qid, make_spec([], {'constraints': [
            {'type': 'CheckConstraint', 'name': 'c_q', 'check': q}]})))
        out.append(('ucond:%s' % qid, make_spec([], {'constraints': [
            {'type': 'UniqueConstraint', 'name': 'u_q', 'fields': ['a'],
             'condition': q}]})))
        out.append(('icond:%s' % qid, make_spec([], {'indexes': [
            {'name': 'i_q', 'fields': ['a'], 'condition': q}]})))

    for eid, expr in expression_values().items():
        out.append(('iexpr:%s' % eid, make_spec([], {'indexes': [
            {'name': 'i_e', 'expressions': [expr]}]})))
        out.append(('uexpr:%s' % eid, make_spec([], {'constraints': [
            {'type': 'UniqueConstraint', 'name': 'u_e',
             'expressions': [expr]}]})))

    extra = [
        ('inc-list', {'indexes': [{'name': 'i', 'fields': ['a'],
                                   'include': ['b', 'c']}]}),
        ('inc-tuple', {'indexes': [{'name': 'i', 'fields': ['a'],
                                    'include': {'$tuple': ['b', 'c']}}]}),
        ('opc-tuple', {'indexes': [{'name': 'i', 'fields': ['a', 'b'],
                                    'opclasses': {'$tuple': ['x', 'y']}}]}),
        ('idx-fields-tuple', {'indexes': [{'name': 'i', 'fields':
                                           {'$tuple': ['a', '-b']}}]}),
        ('u-include', {'constraints': [{'type': 'UniqueConstraint',
                                        'name': 'u', 'fields': ['a'],
                                        'include': ['b']}]}),
        ('u-opclasses', {'constraints': [{'type': 'UniqueConstraint',
                                          'name': 'u', 'fields': ['a'],
                                          'opclasses': ['int4_ops']}]}),
        ('u-immediate', {'constraints': [{
            'type': 'UniqueConstraint', 'name': 'u', 'fields': ['a'],
            'deferrable': {'$Enum': 'Deferrable.IMMEDIATE'}}]}),
        ('u-message', {'constraints': [{
            'type': 'UniqueConstraint', 'name': 'u', 'fields': ['a'],
            'violation_error_message': 'dup "a" é\'s'}]}),
        ('c-message', {'constraints': [{
            'type': 'CheckConstraint', 'name': 'c',
            'check': _Q('AND', False, [_kv('a', 1)]),
            'violation_error_message': 'bad "a" é\'s \\ back'}]}),
        ('u-name-unicode', {'constraints': [{
            'type': 'UniqueConstraint', 'name': 'u_é"q\'',
            'fields': ['a']}]}),
        ('comment-unicode', {'db_table_comment':
                             'cömment "q" \'s\' \\ ☃'}),
        ('table-quotes', {'db_table': 'tbl"q\'é'}),
        ('tablespace', {'db_tablespace': 'ts1'}),
    ]

    for label, meta in extra:
        out.append((label, make_spec([], meta)))

    out.append(('field-unicode', make_spec([
        ('f', ['CharField', {'max_length': 20,
                             'db_column': 'cöl "q" \'s\''}]),
        ('g', ['DecimalField', {'max_digits': 5, 'decimal_places': 0}]),
    ])))
    return out


def _c06_scenarios(tier, rng):
    variants = field_variants(tier)
    metas = meta_variants()
    ids = [None] + list(variants)

    for vid, variant in variants.items():
        yield 'spec-field', {'kind': 'spec',
                             'spec': make_spec([('f', variant)])}

    for prop, prop_variants in metas.items():
        for value in prop_variants.values():
            yield 'spec-meta', {'kind': 'spec',
                                'spec': make_spec([], {prop: value})}

    for label, spec in _value_space_specs(tier):
        yield 'spec-values', {'kind': 'spec', 'spec': spec}

    for i in range(150 if tier == 'quick' else 12000):
        subject = []

        for name in ('f', 'g', 'h'):
            v = copy.deepcopy(variants[rng.choice(ids[1:])]) \
                if rng.random() < 0.8 else None

            if v is not None:
                if v[1].get('db_column'):
                    v[1]['db_column'] = 'col_%s' % name
                if v[1].get('db_table'):
                    v[1]['db_table'] = 'custom_m2m_%s' % name
                if v[0] in ('ForeignKey', 'OneToOneField',
                            'ManyToManyField'):
                    v[1]['related_name'] = 'rel_%s' % name

            subject.append((name, v))

        meta = dict((prop, rng.choice(list(prop_variants.values())))
                    for prop, prop_variants in metas.items())
        yield 'spec-combo', {'kind': 'spec',
                             'spec': make_spec(subject, meta)}

    # Signatures as left behind by real mutations.
    base = make_spec([('f', ['CharField', {'max_length': 20, 'null': True}]),
                      ('g', ['IntegerField', {'null': True}]),
                      ('r', ['ForeignKey', {'to': 'A'}])])
    evolved = [
        [['ChangeField', 'M', 'f', {'null': False, 'initial': 'x'}]],
        [['ChangeField', 'M', 'f', {'max_length': 50}]],
        [['ChangeField', 'M', 'g', {'db_index': True, 'unique': True}],
         ['ChangeField', 'M', 'g', {'db_index': False}]],
        [['ChangeField', 'M', 'g', {'field_type': {'$cls': 'CharField'},
                                    'max_length': 10, 'null': True}]],
        [['AddField', 'M', 'n', {'$cls': 'IntegerField'},
          {'initial': 0, 'db_column': 'n_col', 'db_index': True}]],
        [['AddField', 'M', 'n', {'$cls': 'DecimalField'},
          {'null': True, 'max_digits': 6, 'decimal_places': 0}]],
        [['AddField', 'M', 'n', {'$cls': 'ForeignKey'},
          {'null': True, 'related_model': 'tests.B'}]],
        [['AddField', 'M', 'n', {'$cls': 'ManyToManyField'},
          {'related_model': 'tests.B'}]],
        [['DeleteField', 'M', 'g'], ['RenameField', 'M', 'f', 'f2', {}]],
        [['ChangeMeta', 'M', 'unique_together', [['a', 'b']]]],
        [['ChangeMeta', 'M', 'index_together', [{'$tuple': ['a', 'b']}]]],
        [['ChangeMeta', 'M', 'indexes', [{'name': 'i1', 'fields': ['a']}]]],
        [['ChangeMeta', 'M', 'indexes', [
            {'name': 'i1', 'fields': ['a'],
             'condition': _Q('OR', False, [_kv('a', 1), _kv('b', 2)])}]]],
        [['ChangeMeta', 'M', 'constraints', [
            {'name': 'u1', 'type': {'$cls': 'UniqueConstraint'},
             'fields': ['a', 'b']}]]],
        [['ChangeMeta', 'M', 'constraints', [
            {'name': 'u1', 'type': {'$cls': 'UniqueConstraint'},
             'fields': {'$tuple': ['a', 'b']}}]]],
        [['ChangeMeta', 'M', 'constraints', [
            {'name': 'c1', 'type': {'$cls': 'CheckConstraint'},
             'check': _Q('AND', True, [_kv('a__gt', 1)])}]]],
        [['RenameModel', 'A', 'A2', {'db_table': 'tests_a2'}]],
        [['DeleteModel', 'B']],
        [['AddField', 'M', 'n', {'$cls': 'CharField'},
          {'max_length': 5, 'null': True, 'help_text': 'h "q"',
           'choices': [{'$tuple': ['a', 'A']}]}]],
    ]

    for mutations in evolved:
        yield 'evolved', {'kind': 'evolved', 'spec': base,
                          'mutations': mutations}

    # Signatures as left behind by hinted evolutions of the C05 pair space.
    pairs = [inputs for family, inputs in
             _c05_scenarios('quick', random.Random(rng.random()))
             if family == 'field-pairs']

    if tier == 'quick':
        pairs = rng.sample(pairs, 400)

    for inputs in pairs:
        yield 'hinted-evolved', {'kind': 'hinted-evolved',
                                 'old': inputs['old'], 'new': inputs['new']}

    # Direct construction: application level information.
    plain_model = {'name': 'M', 'fields': [
        ['id', 'AutoField', {'primary_key': True}],
        ['a', 'IntegerField', {}]]}

    for method in (None, 'evolutions', 'migrations'):
        for applied in (None, [], ['0001_initial'], ['0002_b', '0001_a']):
            for legacy in (None, 'old_tests'):
                for models_ in ([], [plain_model]):
                    yield 'direct-app', {'kind': 'direct', 'sig': {'apps': [
                        {'app_id': 'tests', 'legacy_app_label': legacy,
                         'upgrade_method': method,
                         'applied_migrations': applied,
                         'models': models_}]}}

    yield 'direct-app', {'kind': 'direct', 'sig': {'apps': [
        {'app_id': 'tests', 'models': [plain_model]},
        {'app_id': 'other', 'upgrade_method': 'migrations',
         'applied_migrations': ['0001_initial'], 'models': [plain_model]},
        {'app_id': 'third', 'upgrade_method': 'evolutions', 'models': []},
    ]}}
    yield 'direct-app', {'kind': 'direct', 'sig': {'apps': []}}

    # Direct construction: None / False / 0 values, tuples vs lists, unicode.
    def one_model(**model):
        model.setdefault('name', 'M')
        model.setdefault('fields', [
            ['id', 'AutoField', {'primary_key': True}],
            ['a', 'IntegerField', {}], ['b', 'IntegerField', {}]])
        return {'kind': 'direct', 'sig': {'apps': [
            {'app_id': 'tests', 'models': [model]}]}}

    attr_sets = [
        {'null': False}, {'null': True}, {'db_index': False},
        {'db_column': None}, {'max_length': None}, {'max_length': 0},
        {'unique': False, 'primary_key': False},
        {'null': False, 'db_index': False, 'unique': False,
         'db_column': None, 'max_length': None, 'primary_key': False},
        {'db_column': ''}, {'db_column': 'cöl "q" \'s\' \\'},
        {'db_index': 0}, {'null': 0}, {'null': 1},
    ]

    for attrs in attr_sets:
        yield 'direct-values', one_model(fields=[
            ['id', 'AutoField', {'primary_key': True}],
            ['f', 'CharField', dict({'max_length': 20}, **attrs)
             if 'max_length' not in attrs else attrs],
            ['g', 'IntegerField', attrs]])

    yield 'direct-values', one_model(fields=[
        ['id', 'AutoField', {'primary_key': True}],
        ['d', 'DecimalField', {'max_digits': 5, 'decimal_places': 0}],
        ['e', 'DecimalField', {'max_digits': None, 'decimal_places': None}],
        ['r', 'ForeignKey', {'db_index': True}, 'tests.M'],
        ['s', 'ForeignKey', {'db_index': False, 'null': True}, 'other.X'],
        ['m', 'ManyToManyField', {'db_table': None}, 'tests.M'],
        ['n', 'ManyToManyField', {'db_table': 't"q'}, 'tests.M']])

    index_descs = [
        {'name': 'i', 'fields': ['a']},
        {'name': None, 'fields': ['a']},
        {'name': 'i', 'fields': ['-a', 'b']},
        {'name': 'i', 'fields': ['a'], 'attrs': {}},
        {'name': 'i', 'fields': ['a'], 'attrs': {'include': ['b']}},
        {'name': 'i', 'fields': ['a'],
         'attrs': {'include': {'$tuple': ['b']}}},
        {'name': 'i', 'fields': ['a'], 'attrs': {'opclasses': ['x']}},
        {'name': 'i', 'fields': ['a'], 'attrs': {'db_tablespace': 'ts'}},
        {'name': 'i', 'fields': ['a'], 'attrs': {'db_tablespace': ''}},
        {'name': 'i', 'fields': ['a'], 'attrs': {'db_tablespace': None}},
        {'name': 'i', 'fields': ['a'],
         'attrs': {'condition': _Q('AND', False, [_kv('a__gt', 0)])}},
        {'name': 'i', 'fields': None,
         'expressions': [_F('a')]},
        {'name': 'i', 'fields': None,
         'expressions': {'$tuple': [_F('a'), _F('b')]}},
        {'name': 'ié"\'', 'fields': ['a']},
    ]

    for index in index_descs:
        yield 'direct-values', one_model(indexes=[index])

    constraint_descs = [
        {'name': 'u', 'type': 'UniqueConstraint',
         'attrs': {'fields': ['a', 'b']}},
        {'name': 'u', 'type': 'UniqueConstraint',
         'attrs': {'fields': {'$tuple': ['a', 'b']}}},
        {'name': 'u', 'type': 'UniqueConstraint',
         'attrs': {'fields': {'$tuple': ['a']},
                   'deferrable': {'$Enum': 'Deferrable.DEFERRED'}}},
        {'name': 'u', 'type': 'UniqueConstraint',
         'attrs': {'fields': ['a'], 'condition': None}},
        {'name': 'u', 'type': 'UniqueConstraint',
         'attrs': {'fields': ['a'], 'include': ['b'],
                   'opclasses': ['x']}},
        {'name': 'c', 'type': 'CheckConstraint',
         'attrs': {'check': _Q('AND', False, [_kv('a', 0)])}},
        {'name': 'c', 'type': 'CheckConstraint',
         'attrs': {'check': _Q('AND', False, [_kv('a', False)])}},
        {'name': 'c', 'type': 'CheckConstraint',
         'attrs': {'check': _Q('AND', False, [_kv('a', None)])}},
        {'name': 'c', 'type': 'CheckConstraint', 'attrs': {
            'check': _Q('AND', False, [_kv('a__in', {'$tuple': [1, 2]})]),
            'violation_error_message': None}},
    ]

    for constraint in constraint_descs:
        yield 'direct-values', one_model(constraints=[constraint])

    yield 'direct-values', one_model(
        constraints=[constraint_descs[0], constraint_descs[5]],
        indexes=[index_descs[0], index_descs[3]])

    together = [
        [['a', 'b']], [{'$tuple': ['a', 'b']}], {'$tuple': ['a', 'b']},
        ['a', 'b'], [['a', 'b'], ['b', 'a']], [],
    ]

    for value in together:
        for applied in (True, False):
            yield 'direct-values', one_model(unique_together=value,
                                             index_together=value,
                                             ut_applied=applied)

    for comment in (None, '', 'c', 'cöm "q" \'s\' \\'):
        for tablespace in (None, '', 'ts'):
            yield 'direct-values', one_model(
                db_table_comment=comment, db_tablespace=tablespace,
                table='té"q' if comment else 'tests_m',
                pk_column='pé"k' if tablespace else 'id')


C06_RULE = (
    "Scenario = one project signature, obtained (a) from generated models: "
    "every subject-field variant, every Meta variant, the value-space specs "
    "(every Q tree of q_trees(tier) as CheckConstraint.check, "
    "UniqueConstraint.condition and Index.condition; every expression of "
    "expression_values() as Index/UniqueConstraint expression; include/"
    "opclasses as list and tuple, Deferrable members, unicode/quote "
    "strings) and random.Random(seed) samples of 3-field+full-Meta models; "
    "(b) by real mutations simulated on a base signature ('evolved') and "
    "by the hinted evolution of C05 field pairs simulated on the old "
    "signature ('hinted-evolved'; quick: 400 sampled pairs, thorough: all "
    "quick-catalog pairs; evolved signatures carrying the stray "
    "'related_model' attribute of KNOWN C05-related-model-into-attrs are "
    "skipped as ill-formed input); (c) "
    "by direct construction: upgrade_method x applied_migrations x "
    "legacy_app_label x with/without models, several apps, the empty "
    "project, field attributes None/False/0/'' stated explicitly, index and "
    "constraint attribute values as tuples vs lists, unicode names, "
    "*_together shapes, table comment/tablespace/pk column values.  Each "
    "signature goes through four paths: mem = serialize()/deserialize(); "
    "json = SignatureField._dumps()/to_python() (the stored text format); "
    "db = Version(signature=...).save() and Version.objects.get() on the "
    "real SQLite database, stored text read with a raw SELECT; v1 = "
    "serialize(sig_version=1) -> pickle_dumps -> pickle_loads -> "
    "deserialize, and v1legacy = the same with the pickle text rewritten "
    "to django.utils.datastructures.SortedDict containers (what old "
    "installations stored; exercises DjangoCompatUnpickler), both only for "
    "v1-expressible signatures (no index attrs/expressions, no upgrade "
    "information).  Clauses per path: eq (loaded == "
    "original; for v1 every model signature ==), diff-empty (Diff empty in "
    "both directions, ignore_apps=False; for v1 every ModelSignature.diff "
    "empty both ways), text (re-serialized text == stored text; not for "
    "v1).  Every scenario is non-trivial (counted distinct by inputs).")


def suite_C06(tier='quick', seed=0):
    H.setup()
    rng = random.Random(seed)
    collector = _Collector('C06', tier, seed)
    families = OrderedDict()

    for family, inputs in _c06_scenarios(tier, rng):
        outcome = _c06_eval(inputs, _cache)
        families[family] = families.get(family, 0) + 1
        collector.add(inputs, outcome)

        if families[family] == 3 and len(collector.samples) < 3:
            collector.sample(inputs, outcome)

    collector.extra['families'] = families
    return collector.finish(
        exhaustive=False,
        rule=C06_RULE + '  (Exhaustive over the stated catalogs except the '
        'sampled spec-combo family and, in the quick tier, the sampled '
        'hinted-evolved family.)')


def replay_C06(inputs):
    H.setup()
    inputs = copy.deepcopy(inputs)
    clause = inputs.pop('clause', None)
    inputs.pop('subject', None)
    results = _c06_eval(inputs)['results']
    failing = [r for r in results
               if not r['ok'] and (clause is None or r['clause'] == clause)]
    return {'reproduced': bool(failing), 'clause': clause,
            'observed': H.to_jsonable([r.get('observed') for r in failing]),
            'known_id': [r.get('known_id') for r in failing]}


# ---------------------------------------------------------------------------
# C13
# ---------------------------------------------------------------------------

_BASE13 = make_spec([('f', ['CharField', {'max_length': 20, 'null': True}]),
                     ('g', ['IntegerField', {'null': True}])])

# (fixed in /repo: C13-q-single-q-child-render-crash - see known_findings.json 'fixed')


# (fixed in /repo: C13-q-xor-render-crash - see known_findings.json 'fixed')


# (fixed in /repo: C13-models-import-only-for-addfield - see known_findings.json 'fixed')


_known(
    'C13-functions-rendered-as-models-attr', 'loads',
    {'value': 'an expression from django.db.models.functions (Lower, Abs, '
              '...) in an index/constraint definition',
     'observed': "AttributeError: module 'django.db.models' has no "
                 "attribute 'Lower'"},
    "DeconstructedSerialization.serialize_to_python() prefixes every class "
    "whose deconstructed path starts with 'django.db.models' with "
    "'models.', but django.db.models.functions.* classes are not "
    "attributes of django.db.models.",
    {'kind': 'direct', 'spec': _BASE13, 'mutations': [
        ['AddField', 'M', 'n', {'$cls': 'IntegerField'}, {'null': True}],
        ['ChangeMeta', 'M', 'indexes', [
            {'name': 'i_l', 'expressions': [{'$Func': ['Lower', ['c']]}]}]],
    ]})

_known(
    'C13-combined-expression-parentheses-dropped', 'same-signature',
    {'value': 'a CombinedExpression with a CombinedExpression operand whose '
              'grouping differs from Python operator precedence, e.g. '
              "(F('a') + F('b')) * F('a') or F('a') - (F('b') - F('a'))",
     'observed': 'the loaded mutation holds a differently grouped '
                 'expression (different signature / SQL)'},
    "CombinedExpressionSerialization.serialize_to_python() renders "
    "'%s %s %s' % (lhs, connector, rhs) without parentheses.",
    {'kind': 'direct', 'spec': _BASE13, 'mutations': [
        ['AddField', 'M', 'n', {'$cls': 'IntegerField'}, {'null': True}],
        ['ChangeMeta', 'M', 'indexes', [
            {'name': 'i_e', 'expressions': [
                _comb(_comb(_F('a'), '+', _F('b')), '*', _F('a'))]}]],
    ]})


_known(
    'C13-q-operator-rendering-flattens-tree', 'same-signature',
    {'value': 'a Q object with a non-negated child Q that has the same '
              'connector as its parent or a single child, e.g. '
              'Q(Q(a=1), Q(b=2)) or Q(Q(b=None, a=0), a__gt=1)',
     'observed': 'the loaded mutation holds the flattened tree '
                 '(AND: a, b, c instead of AND: a, (AND: b, c)); signature '
                 'content and CHECK/WHERE SQL text differ and Q.__eq__ '
                 'says the two are different'},
    "QSerialization.serialize_to_python() renders children joined by the "
    "& / | operators; evaluating that text goes through Q._combine()/"
    "Node.add(), which squashes same-connector and single-child nodes, so "
    "the constructor-built tree shape cannot be reproduced.  The signature "
    "written after applying the evolution file then never equals the one "
    "computed from the models (Diff keeps reporting 'constraints').",
    {'kind': 'direct', 'spec': _BASE13, 'mutations': [
        ['AddField', 'M', 'n', {'$cls': 'IntegerField'}, {'null': True}],
        ['ChangeMeta', 'M', 'constraints', [
            {'type': {'$cls': 'CheckConstraint'}, 'name': 'c',
             'check': _Q('AND', False, [
                 _kv('a__gt', 1),
                 _Q('AND', False, [_kv('b', None), _kv('a', 0)])])}]]]})


def _flatten_q(desc):
    """Emulate the squashing Node.add() does when Qs are combined."""
    if isinstance(desc, dict):
        if _is_q(desc):
            q = desc['$Q']
            children = []

            for child in q['ch']:
                child = _flatten_q(child)

                if (_is_q(child) and not child['$Q']['n'] and
                        (child['$Q']['c'] == q['c'] or
                         len(child['$Q']['ch']) == 1)):
                    children.extend(child['$Q']['ch'])
                else:
                    children.append(child)

            connector = q['c'] if len(children) != 1 else 'AND'
            return {'$Q': {'c': connector, 'n': q['n'], 'ch': children}}

        return dict((key, _flatten_q(value)) for key, value in desc.items())

    if isinstance(desc, (list, tuple)):
        return [_flatten_q(item) for item in desc]

    return desc


def _content_for(mutations):
    """The text EvolveAppTask.get_evolution_content() renders."""
    from django_evolution.evolve import EvolveAppTask
    from django_evolution.tests import models as evo_test

    task = EvolveAppTask.__new__(EvolveAppTask)
    task.app = evo_test
    task.app_label = APP
    task._mutations = mutations
    return task.get_evolution_content()


def _load_content(content, assist=None):
    """Load evolution text the way importing the module would."""
    namespace = {'__name__': 'hinted_evolution_under_test'}

    if assist:
        namespace.update(assist)

    code = compile(content, '<hinted evolution>', 'exec')

    with warnings.catch_warnings():
        warnings.simplefilter('ignore')
        exec(code, namespace)

    return namespace['MUTATIONS']


def _placeholder_literal(field_type):
    name = field_type.__name__ if field_type is not None else ''

    if name in ('CharField', 'TextField', 'SlugField', 'SuiteCharField'):
        return "'x'"
    if name == 'BooleanField':
        return 'False'
    if name == 'DateTimeField':
        return "'2020-01-01 00:00:00'"

    return '1'


def _has_placeholder(mutation):
    from django_evolution.placeholders import BasePlaceholder
    return isinstance(getattr(mutation, 'initial', None), BasePlaceholder)


def _substitute_placeholders(mutations, content, type_sig):
    """Replace placeholders by concrete literals in mutations and text."""
    import ast

    for mutation in mutations:
        if not _has_placeholder(mutation):
            continue

        field_type = getattr(mutation, 'field_type', None)

        if field_type is None and type_sig is not None:
            try:
                field_type = (type_sig.get_app_sig(APP)
                              .get_model_sig(mutation.model_name)
                              .get_field_sig(mutation.field_name).field_type)
            except Exception:
                field_type = None

        literal = _placeholder_literal(field_type)
        mutation.initial = ast.literal_eval(literal)

        if content is not None:
            content = content.replace(PLACEHOLDER_TEXT, literal, 1)

    return content


def _find_values(desc, pred, found=None):
    """All sub-descriptions (dicts) of a plain-data desc satisfying pred."""
    if found is None:
        found = []

    if isinstance(desc, dict):
        if pred(desc):
            found.append(desc)

        for value in desc.values():
            _find_values(value, pred, found)
    elif isinstance(desc, (list, tuple)):
        for item in desc:
            _find_values(item, pred, found)

    return found


def _is_q(desc):
    return isinstance(desc, dict) and list(desc) == ['$Q']


def _c13_explain_render(e, descs):
    if isinstance(e, TypeError) and "'Q' object is not subscriptable" in \
            str(e):
        if _find_values(descs, lambda d: _is_q(d) and
                        len(d['$Q']['ch']) == 1 and _is_q(d['$Q']['ch'][0])):
            return 'C13-q-single-q-child-render-crash'

    if isinstance(e, KeyError) and e.args == ('XOR',):
        if _find_values(descs, lambda d: _is_q(d) and
                        d['$Q']['c'] == 'XOR' and len(d['$Q']['ch']) > 1):
            return 'C13-q-xor-render-crash'

    return None


def _c13_explain_load(e, mutations, descs):
    models = _models()
    text = str(e)

    if isinstance(e, NameError):
        has_django_addfield = any(
            type(m).__name__ == 'AddField' and
            m.field_type.__module__.startswith('django.db.models')
            for m in mutations)

        if "name 'models' is not defined" in text and \
                not has_django_addfield:
            return 'C13-models-import-only-for-addfield', {'models': models}

        for m in mutations:
            field_type = getattr(m, 'field_type', None)

            if (type(m).__name__ != 'AddField' and field_type is not None
                    and not field_type.__module__.startswith(
                        'django.db.models') and
                    "name '%s' is not defined" % field_type.__name__
                    in text):
                return ('C13-models-import-only-for-addfield',
                        {field_type.__name__: field_type})

    if isinstance(e, AttributeError) and \
            "module 'django.db.models' has no attribute" in text:
        from django.db.models import functions

        for func in _find_values(descs, lambda d: list(d) == ['$Func']):
            name = func['$Func'][0]

            if "attribute '%s'" % name in text and hasattr(functions, name):
                return 'C13-functions-rendered-as-models-attr', None

    return None, None


def _needs_parens(desc):
    return (list(desc) == ['$Comb'] and any(
        isinstance(side, dict) and list(side) == ['$Comb']
        for side in (desc['$Comb'][0], desc['$Comb'][2])))


def _c13_explain_effect(orig_descs, loaded_descs):
    """Known id if orig and loaded differ only by re-grouped expressions."""
    from django_evolution.serialization import serialize_to_python

    if len(orig_descs) != len(loaded_descs):
        return None

    if (orig_descs != loaded_descs and
            _flatten_q(orig_descs) == _flatten_q(loaded_descs)):
        return 'C13-q-operator-rendering-flattens-tree'

    differing = False

    for a, b in zip(orig_descs, loaded_descs):
        if a == b:
            continue

        differing = True

        if not _find_values(a, _needs_parens):
            return None

        try:
            if str(build_mutation(a)) != str(build_mutation(b)):
                return None
        except Exception:
            return None

    return ('C13-combined-expression-parentheses-dropped' if differing
            else None)


def _sig_effect(base_sig, mutations):
    sig = base_sig.clone()

    try:
        _simulate(sig, mutations)
    except Exception as e:
        return {'error': '%s: %s' % (type(e).__name__, str(e)[:200]),
                'rejected': isinstance(e, _lib_rejections())}, None

    return {'error': None, 'sig': _ser(sig)}, sig


def _sql_effect(old_spec, new_spec, mutations):
    import logging

    logging.disable(logging.CRITICAL)

    try:
        with warnings.catch_warnings():
            warnings.simplefilter('ignore')
            result = H.run_mutations(
                realize_spec(old_spec), [mutations],
                end_spec=realize_spec(new_spec) if new_spec else None)
    finally:
        logging.disable(logging.NOTSET)

    _cache.invalidate_registry()
    error = result['error']
    return {
        'error': None if not error else '%s/%s: %s' % (
            error['class'], error['phase'], error['message'][:200]),
        'error_class': None if not error else error['class'],
        'sql': result['sql'],
    }


def _c13_eval(inputs, cache=None, do_sql=True):
    """Evaluate the C13 clauses for one scenario.

    kinds: 'hinted' {'old': spec, 'new': spec} (mutations =
    Diff(old, new).evolution()); 'direct' {'spec': spec, 'mutations':
    [descriptions]}.
    """
    H.setup()
    from django_evolution.diff import Diff

    cache = cache or _cache
    outcome = {'results': [], 'skipped': None, 'nontrivial': False,
               'summary': None, 'content': None}
    results = outcome['results']
    kind = inputs['kind']

    if kind == 'hinted':
        old_spec, new_spec = inputs['old'], inputs['new']
        old_sig = cache.sig(old_spec)
        new_sig = cache.sig(new_spec)

        def make():
            cache.register(new_spec)

            with warnings.catch_warnings():
                warnings.simplefilter('ignore')
                evolution = Diff(old_sig, new_sig).evolution()

            return [m for ms in evolution.values() for m in ms]
    else:
        old_spec, new_spec = inputs['spec'], None
        old_sig = cache.sig(old_spec)
        new_sig = None

        def make():
            return [build_mutation(d) for d in inputs['mutations']]

    mutations = make()

    if not mutations:
        outcome['skipped'] = 'no mutations'
        return outcome

    descs = [describe_mutation(m) for m in mutations]

    # -- renders -------------------------------------------------------------
    try:
        content = _content_for(mutations)
        assert isinstance(content, str) and content
    except Exception as e:
        outcome['nontrivial'] = True
        results.append({'clause': 'renders', 'ok': False,
                        'observed': {'exception': _exc(e),
                                     'mutations': descs},
                        'known_id': _c13_explain_render(e, descs),
                        'signature': _exc(e)[:80]})
        return outcome

    results.append({'clause': 'renders', 'ok': True})
    outcome['content'] = content
    outcome['summary'] = {'content': content}

    # -- placeholders ----------------------------------------------------------
    n_placeholders = sum(1 for m in mutations if _has_placeholder(m))

    if n_placeholders:
        refused = None

        try:
            _load_content(content, {'models': _models()})
            refused = False
        except Exception as e:
            refused = True

        ok = refused and content.count(PLACEHOLDER_TEXT) == n_placeholders
        results.append({
            'clause': 'placeholder-refuses', 'ok': ok,
            'observed': None if ok else {
                'content': content, 'refused_to_load': refused,
                'placeholders_expected': n_placeholders},
            'known_id': None, 'signature': 'placeholder'})

        content = _substitute_placeholders(mutations, content,
                                           new_sig or old_sig)

    def fresh_originals():
        result = make()
        _substitute_placeholders(result, None, new_sig or old_sig)
        return result

    # -- loads -----------------------------------------------------------------
    assist = None
    subject = None

    try:
        loaded = _load_content(content)
    except Exception as e:
        known_id, assist = _c13_explain_load(e, mutations, descs)
        outcome['nontrivial'] = True
        results.append({'clause': 'loads', 'ok': False,
                        'observed': {'exception': _exc(e),
                                     'content': content},
                        'known_id': known_id, 'signature': _exc(e)[:80]})

        if assist is None:
            return outcome

        # Look behind the missing import: supply the name and go on.
        subject = 'after-assist'

        try:
            loaded = _load_content(content, assist)
        except Exception as e2:
            known_id2, _ = _c13_explain_load(e2, mutations, descs)
            results.append({'clause': 'loads', 'subject': subject,
                            'ok': False,
                            'observed': {'exception': _exc(e2),
                                         'content': content},
                            'known_id': known_id2,
                            'signature': _exc(e2)[:80]})
            return outcome

    def reload():
        return _load_content(content, assist)

    shape_ok = (isinstance(loaded, list) and
                [type(m).__name__ for m in loaded] ==
                [type(m).__name__ for m in mutations])

    if subject is None or not shape_ok:
        results.append({
            'clause': 'loads', 'subject': subject, 'ok': shape_ok,
            'observed': None if shape_ok else {
                'loaded': repr(loaded)[:300], 'content': content},
            'known_id': None, 'signature': 'shape'})

    if not shape_ok:
        return outcome

    loaded_descs = [describe_mutation(m) for m in loaded]
    orig_descs = [describe_mutation(m) for m in mutations]

    # -- same signature change -------------------------------------------------
    effect_a, sig_a = _sig_effect(old_sig, fresh_originals())
    effect_b, sig_b = _sig_effect(old_sig, reload())

    if effect_a['error'] is not None and effect_a == effect_b:
        outcome['skipped'] = 'originals not accepted: %s' % effect_a['error']
        return outcome

    outcome['nontrivial'] = True
    # Same signature change = same resulting signature *content* (canonical
    # serialization).  ProjectSignature.__eq__ is deliberately not used: it
    # is sensitive to the key order of constraint/index attribute dicts
    # (see KNOWN C05-eq-hash-depends-on-attr-order), which the hint text
    # legitimately sorts.
    ok = (effect_a == effect_b)
    results.append({
        'clause': 'same-signature', 'subject': subject, 'ok': ok,
        'observed': None if ok else {
            'content': content, 'original_error': effect_a['error'],
            'loaded_error': effect_b['error'],
            'original_mutations': orig_descs,
            'loaded_mutations': loaded_descs},
        'known_id': None if ok else _c13_explain_effect(orig_descs,
                                                        loaded_descs),
        'signature': 'sig-effect'})

    # -- same SQL ----------------------------------------------------------------
    if do_sql:
        sql_a = _sql_effect(old_spec, new_spec, fresh_originals())
        sql_b = _sql_effect(old_spec, new_spec, reload())
        outcome['sql_compared'] = True
        ok = (sql_a == sql_b)
        results.append({
            'clause': 'same-sql', 'subject': subject, 'ok': ok,
            'observed': None if ok else {
                'content': content, 'original': sql_a, 'loaded': sql_b},
            'known_id': None if ok else _c13_explain_effect(orig_descs,
                                                            loaded_descs),
            'signature': 'sql-effect'})
        outcome['summary'] = {'content': content,
                              'sql_error': sql_a['error'],
                              'statements': sum(len(g)
                                                for g in sql_a['sql'])}

    return outcome


def _c13_direct_scenarios(tier):
    """Directly constructed mutations over the attribute value space."""
    cls = lambda name: {'$cls': name}  # noqa: E731
    anchor = ['AddField', 'M', 'anchor', cls('IntegerField'), {'null': True}]
    strings = OrderedDict([
        ('plain', 'abc'), ('squote', "it's"), ('dquote', 'say "hi"'),
        ('both', 'it\'s "x"'), ('backslash', 'a\\b'), ('newline', 'a\nb'),
        ('unicode', 'é☃'), ('empty', ''), ('percent', '100%s %(x)s'),
    ])

    def emit(mutations):
        # Each mutation list twice: alone, and after an AddField (so that
        # the text contains the `models` import).
        yield {'kind': 'direct', 'spec': _BASE13, 'mutations': mutations}
        yield {'kind': 'direct', 'spec': _BASE13,
               'mutations': [anchor] + mutations}

    # AddField: every field type of the space, concrete initial values.
    add_types = [
        ('CharField', {'max_length': 20}, 'x'),
        ('TextField', {}, 'x'),
        ('SlugField', {}, 'x'),
        ('IntegerField', {}, 7),
        ('BigIntegerField', {}, 2 ** 40),
        ('PositiveIntegerField', {}, 0),
        ('BooleanField', {}, True),
        ('BooleanField', {}, False),
        ('FloatField', {}, 1.5),
        ('FloatField', {}, -0.25),
        ('DecimalField', {'max_digits': 6, 'decimal_places': 2}, 1),
        ('DateTimeField', {}, '2020-01-01 00:00:00'),
        ('ForeignKey', {'related_model': 'tests.A'}, 1),
        ('OneToOneField', {'related_model': 'tests.A', 'null': True}, None),
        ('ManyToManyField', {'related_model': 'tests.A'}, None),
        ('ManyToManyField', {'related_model': 'tests.A',
                             'db_table': 'm2m "q"'}, None),
    ]

    for ftype, attrs, initial in add_types:
        for extra in ({}, {'null': True}, {'db_index': True},
                      {'db_column': 'n_col'}, {'unique': True}):
            if ftype == 'ManyToManyField' and extra:
                continue

            all_attrs = dict(attrs, **extra)

            if initial is not None:
                all_attrs['initial'] = initial

            yield {'kind': 'direct', 'spec': _BASE13, 'mutations': [
                ['AddField', 'M', 'n', cls(ftype), all_attrs]]}

    for sid, text in strings.items():
        yield {'kind': 'direct', 'spec': _BASE13, 'mutations': [
            ['AddField', 'M', 'n', cls('CharField'),
             {'max_length': 50, 'initial': text}]]}
        yield {'kind': 'direct', 'spec': _BASE13, 'mutations': [
            ['AddField', 'M', 'n', cls('CharField'),
             {'max_length': 50, 'null': True, 'help_text': text,
              'verbose_name': text}]]}

        if text:
            yield {'kind': 'direct', 'spec': _BASE13, 'mutations': [
                ['AddField', 'M', 'n', cls('IntegerField'),
                 {'null': True, 'db_column': text}]]}

            for m in emit([['ChangeField', 'M', 'g', {'db_column': text}]]):
                yield m

        for m in emit([['ChangeField', 'M', 'f', {'null': False,
                                                  'initial': text}]]):
            yield m

        for m in emit([['ChangeMeta', 'M', 'db_table_comment', text]]):
            yield m

    # Lists / tuples / dicts as attribute values.
    containers = [
        {'choices': [{'$tuple': ['a', 'A']}, {'$tuple': ['b', 'B "q"']}]},
        {'choices': {'$tuple': [{'$tuple': ['a', 'A']}]}},
        {'choices': [['a', 'A'], ['b', 'B']]},
        {'error_messages': {'invalid': 'bad "v"', 'blank': "it's"}},
        {'error_messages': {'$odict': [['z', 1], ['a', 2]]}},
        {'validators': []},
        {'choices': [{'$tuple': [1, {'$tuple': []}]}]},
        {'choices': [{'$tuple': ['only']}]},
    ]

    for attrs in containers:
        yield {'kind': 'direct', 'spec': _BASE13, 'mutations': [
            ['AddField', 'M', 'n', cls('CharField'),
             dict({'max_length': 5, 'null': True}, **attrs)]]}

    # ChangeField: scalar attributes, initial values, field classes.
    change_fields = [
        {'max_length': 50}, {'null': True}, {'db_index': True},
        {'unique': True}, {'db_index': True, 'unique': True,
                           'max_length': 5},
        {'null': False, 'initial': 'x'}, {'db_column': 'f_col'},
        {'db_column': None},
        {'field_type': cls('TextField'), 'null': True},
        {'field_type': cls('SlugField'), 'null': True, 'max_length': 20,
         'db_index': True},
        {'field_type': cls('IntegerField'), 'null': True},
        {'field_type': '$custom', 'max_length': 20, 'null': True},
    ]

    for attrs in change_fields:
        attrs = dict(attrs)

        if attrs.get('field_type') == '$custom':
            attrs['field_type'] = cls('adapters.suites_sig.SuiteCharField')

        for m in emit([['ChangeField', 'M', 'f', attrs]]):
            yield m

    for initial in (0, 1, -3, 2.5, True, False, 2 ** 70):
        for m in emit([['ChangeField', 'M', 'g', {'null': False,
                                                  'initial': initial}]]):
            yield m

    yield {'kind': 'direct', 'spec': _BASE13, 'mutations': [
        ['AddField', 'M', 'n', cls('adapters.suites_sig.SuiteCharField'),
         {'max_length': 12, 'initial': 'x'}]]}
    yield {'kind': 'direct', 'spec': _BASE13, 'mutations': [
        ['AddField', 'M', 'n', cls('adapters.suites_sig.SuiteCharField'),
         {'max_length': 12, 'initial': 'x'}],
        ['ChangeField', 'M', 'g', {'field_type': cls('CharField'),
                                   'max_length': 9, 'null': True}]]}

    # Other mutation types.
    others = [
        [['DeleteField', 'M', 'g']],
        [['DeleteModel', 'B']],
        [['RenameField', 'M', 'g', 'g2', {}]],
        [['RenameField', 'M', 'g', 'g2', {'db_column': 'g "col"'}]],
        [['RenameField', 'M', 'g', 'g2', {'db_column': "g'col"}]],
        [['RenameModel', 'B', 'B2', {'db_table': 'tests_b2'}]],
        [['RenameModel', 'B', 'B2', {'db_table': 'b "2" \'q\''}]],
        [['ChangeMeta', 'M', 'unique_together', [['a', 'b']]]],
        [['ChangeMeta', 'M', 'unique_together', [{'$tuple': ['a', 'b']}]]],
        [['ChangeMeta', 'M', 'unique_together',
          {'$tuple': [{'$tuple': ['a', 'b']}]}]],
        [['ChangeMeta', 'M', 'unique_together', []]],
        [['ChangeMeta', 'M', 'index_together', [{'$tuple': ['a', 'b']},
                                                {'$tuple': ['b', 'c']}]]],
        [['ChangeMeta', 'M', 'db_table_comment', None]],
    ]

    for mutations in others:
        for m in emit(mutations):
            yield m

    # ChangeMeta indexes / constraints over Q trees and expressions.
    for qid, q in q_trees(tier).items():
        for m in emit([['ChangeMeta', 'M', 'constraints', [
                {'type': cls('CheckConstraint'), 'name': 'c_q',
                 'check': q}]]]):
            yield m

        yield {'kind': 'direct', 'spec': _BASE13, 'mutations': [
            anchor,
            ['ChangeMeta', 'M', 'constraints', [
                {'type': cls('UniqueConstraint'), 'name': 'u_q',
                 'fields': {'$tuple': ['a']}, 'condition': q}]]]}
        yield {'kind': 'direct', 'spec': _BASE13, 'mutations': [
            anchor,
            ['ChangeMeta', 'M', 'indexes', [
                {'name': 'i_q', 'fields': ['a'], 'condition': q}]]]}

    for eid, expr in expression_values().items():
        for m in emit([['ChangeMeta', 'M', 'indexes', [
                {'name': 'i_e', 'expressions': [expr]}]]]):
            yield m

        yield {'kind': 'direct', 'spec': _BASE13, 'mutations': [
            anchor,
            ['ChangeMeta', 'M', 'constraints', [
                {'type': cls('UniqueConstraint'), 'name': 'u_e',
                 'expressions': {'$tuple': [expr]}}]]]}
        yield {'kind': 'direct', 'spec': _BASE13, 'mutations': [
            anchor,
            ['ChangeMeta', 'M', 'constraints', [
                {'type': cls('CheckConstraint'), 'name': 'c_e',
                 'check': _Q('AND', False, [_kv('a__lt', expr)])}]]]} \
            if list(expr) in (['$F'], ['$Comb']) else \
            {'kind': 'direct', 'spec': _BASE13, 'mutations': [anchor]}

    index_defs = [
        [{'name': 'i1', 'fields': ['a']}],
        [{'name': 'i1', 'fields': ['-a', 'b']}],
        [{'name': 'i1', 'fields': {'$tuple': ['a', 'b']}}],
        [{'fields': ['a']}],
        [{'name': 'i1', 'fields': ['a']}, {'name': 'i2', 'fields': ['b']}],
        [{'name': 'i1', 'fields': ['a'], 'include': ['b']}],
        [{'name': 'i1', 'fields': ['a'], 'db_tablespace': 'ts "q"'}],
        [{'name': 'i "q" \'s\'', 'fields': ['a']}],
        [],
    ]

    for value in index_defs:
        for m in emit([['ChangeMeta', 'M', 'indexes', value]]):
            yield m

    constraint_defs = [
        [{'type': cls('UniqueConstraint'), 'name': 'u1',
          'fields': {'$tuple': ['a', 'b']}}],
        [{'type': cls('UniqueConstraint'), 'name': 'u1',
          'fields': ['a', 'b']}],
        [{'type': cls('UniqueConstraint'), 'name': 'u1',
          'fields': {'$tuple': ['a']},
          'deferrable': {'$Enum': 'Deferrable.DEFERRED'}}],
        [{'type': cls('UniqueConstraint'), 'name': 'u1',
          'fields': {'$tuple': ['a']},
          'deferrable': {'$Enum': 'Deferrable.IMMEDIATE'}}],
        [{'type': cls('UniqueConstraint'), 'name': 'u1',
          'fields': {'$tuple': ['a']},
          'violation_error_message': 'dup "a" é\'s'}],
        [{'type': cls('CheckConstraint'), 'name': 'c "q"',
          'check': _Q('AND', False, [_kv('c', 'x"\'é\\')])}],
        [],
    ]

    for value in constraint_defs:
        for m in emit([['ChangeMeta', 'M', 'constraints', value]]):
            yield m


def _c13_scenarios(tier, rng):
    # The value-space scenarios come first so that they get their share of
    # the SQL comparison budget.
    for inputs in _c13_direct_scenarios(tier):
        if inputs['mutations']:
            yield 'direct', inputs

    plain = make_spec([])

    for label, spec in _value_space_specs(tier):
        yield 'hinted:values', {'kind': 'hinted', 'old': plain, 'new': spec}
        yield 'hinted:values', {
            'kind': 'hinted', 'old': plain,
            'new': dict(spec, M=dict(
                spec['M'],
                fields=OrderedDict(list(spec['M']['fields'].items()) +
                                   [('n', ['IntegerField',
                                           {'null': True}])])))}

    sizes = (C05_SAMPLE_SIZES['quick'] if tier == 'quick' else
             {'meta-combo': 5000, 'multi-field': 12000})

    for family, inputs in _c05_scenarios(tier, rng, sizes):
        if inputs.get('kind') != 'pair':
            continue

        yield 'hinted:' + family, {'kind': 'hinted', 'old': inputs['old'],
                                   'new': inputs['new']}


C13_RULE = (
    "Scenario = (start models, list of mutations).  'hinted' scenarios take "
    "the mutations from Diff(old, new).evolution() for every model pair of "
    "the C05 scope (families field-pairs, meta-single, meta-combo, "
    "multi-field, deleted-models) plus 'values': plain M -> M with one "
    "index/constraint from the value space (every Q tree as check / unique "
    "condition / index condition, every expression, tuples vs lists, "
    "Deferrable, unicode), each with and without an additional added "
    "field.  'direct' scenarios construct AddField / ChangeField / "
    "ChangeMeta / DeleteField / DeleteModel / RenameField / RenameModel "
    "directly with values from: strings (quotes, backslash, newline, "
    "unicode, %), int (incl. > 64 bit), float, bool, None, lists / tuples / "
    "dicts / OrderedDict (choices, error_messages), field classes (Django "
    "and a custom one), Q trees (AND/OR/XOR, negation, single-child "
    "nesting, depth <= 2, quick / <= 3, thorough), F, Value, combined "
    "expressions, functions, OrderBy, Deferrable; most lists are run alone "
    "and preceded by an AddField (which makes the `models` import "
    "appear).  Oracle per scenario: renders (EvolveAppTask."
    "get_evolution_content() returns text); placeholder-refuses (if a "
    "hinted initial value is the user-input placeholder the text contains "
    "it once per such mutation and cannot be loaded; it is then replaced "
    "by a literal on both sides to continue); loads (compile+exec of the "
    "text as a module succeeds and MUTATIONS has the same mutation types); "
    "same-signature (original and loaded mutations simulated on clones of "
    "the start signature give == signatures with equal serialization, or "
    "fail identically); same-sql (both lists run through the real "
    "AppMutator/SQLite evolver/SQLExecutor on real tables via "
    "evo_harness.run_mutations give identical statement lists and error). "
    "After a *known* missing-import NameError the name is supplied and the "
    "remaining clauses are still evaluated (subject 'after-assist').  The "
    "SQL clause is evaluated once per distinct evolution text (the loaded "
    "objects depend on the text only), up to a per-tier cap.  Scenarios "
    "whose original mutations the library rejects in simulation are "
    "skipped.  Non-trivial = a rendered text (or a render attempt that "
    "failed) whose originals were accepted; distinct by inputs.")


def suite_C13(tier='quick', seed=0, max_sql=None):
    H.setup()
    _custom_field()
    rng = random.Random(seed)
    collector = _Collector('C13', tier, seed)
    families = OrderedDict()
    seen_content = set()
    sql_runs = 0

    if max_sql is None:
        max_sql = 800 if tier == 'quick' else 20000

    for family, inputs in _c13_scenarios(tier, rng):
        families[family] = families.get(family, 0) + 1
        # First pass without SQL to learn the text; then decide.
        outcome = _c13_eval(inputs, _cache, do_sql=False)
        content = outcome.get('content')

        if (content is not None and content not in seen_content and
                sql_runs < max_sql and not outcome['skipped'] and
                all(r['ok'] or r.get('known_id') for r in outcome['results'])
                and any(r['clause'] == 'same-signature'
                        for r in outcome['results'])):
            seen_content.add(content)
            sql_runs += 1
            outcome = _c13_eval(inputs, _cache, do_sql=True)
        elif content is not None:
            seen_content.add(content)

        collector.add(inputs, outcome)

        if (outcome.get('sql_compared') and len(collector.samples) < 3 and
                families[family] in (7, 40)):
            collector.sample(inputs, outcome)

    collector.extra['families'] = families
    collector.extra['distinct_texts'] = len(seen_content)
    collector.extra['sql_comparisons'] = sql_runs
    return collector.finish(
        exhaustive=False,
        rule=C13_RULE + '  (hinted field-pairs/meta-single/deleted-models/'
        'values and all direct scenarios are exhaustive over their '
        'catalogs; meta-combo and multi-field are sampled.)')


def replay_C13(inputs):
    H.setup()
    _custom_field()
    inputs = copy.deepcopy(inputs)
    clause = inputs.pop('clause', None)
    subject = inputs.pop('subject', None)
    results = _c13_eval(inputs, do_sql=(clause in (None, 'same-sql')))[
        'results']
    failing = [r for r in results
               if not r['ok'] and (clause is None or r['clause'] == clause)
               and (subject is None or r.get('subject') == subject)]
    return {'reproduced': bool(failing), 'clause': clause,
            'observed': H.to_jsonable([r.get('observed') for r in failing]),
            'known_id': [r.get('known_id') for r in failing]}


# ---------------------------------------------------------------------------
# Command line
# ---------------------------------------------------------------------------

def selfcheck():
    """Run every KNOWN witness; each must still fail with its own id."""
    H.setup()
    _custom_field()
    report = []

    for entry in KNOWN:
        prop = entry['id'][:3]
        evaluator = {'C05': _c05_eval, 'C06': _c06_eval,
                     'C13': _c13_eval}[prop]
        results = evaluator(copy.deepcopy(entry['inputs']))['results']
        hits = [r['clause'] for r in results
                if not r['ok'] and entry['id'] in (r.get('known_id') or '')]
        replay = globals()['replay_' + prop](
            dict(copy.deepcopy(entry['inputs']), clause=hits[0])
            if hits else copy.deepcopy(entry['inputs']))
        report.append({'id': entry['id'], 'failing_clauses': hits,
                       'witness_fails': bool(hits),
                       'replay_reproduced': replay['reproduced']})

    return report


def main(argv):
    if 'selfcheck' in argv:
        print(json.dumps(selfcheck(), indent=1))
        H.teardown()
        return

    props = [a for a in argv if a in ('C05', 'C06', 'C13')] or \
        ['C05', 'C06', 'C13']
    tier = 'thorough' if 'thorough' in argv else 'quick'
    seed = 0

    for arg in argv:
        if arg.startswith('seed='):
            seed = int(arg[5:])

    for prop in props:
        result = globals()['suite_' + prop](tier, seed)
        brief = OrderedDict((k, v) for k, v in result.items()
                            if k not in ('samples', 'rule'))

        if '-v' not in argv:
            brief['failures'] = [
                OrderedDict([('clause', f['clause']), ('known', f['known']),
                             ('known_id', f.get('known_id'))])
                for f in result['failures']]

        print(json.dumps(brief, indent=1, default=repr))

    H.teardown()


if __name__ == '__main__':
    main(sys.argv[1:])
