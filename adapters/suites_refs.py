"""Bounded native suites for C11, C14, C15, C16 (cross references, preview,
purging/deleting, multi-database routing).

Run from an empty scratch cwd with::

    PYTHONPATH=/repo:/repo/tests:/verif DJANGO_SETTINGS_MODULE=settings \\
    PYTHONDONTWRITEBYTECODE=1 /verif/.venv/bin/python -m adapters.suites_refs \\
        C11 quick

Everything here drives REAL django-evolution code (mutations, AppMutator,
Evolver, PurgeAppTask, the ``evolve`` management command, SQLExecutor) against
the REAL scratch SQLite databases that :mod:`adapters.evo_harness` sets up.

Multi-app projects
==================

``evo_harness`` only knows the single dynamic app ``tests``.  The properties
here need several apps, so this module keeps a small "project" layer on top
of the harness:

* an *apps spec* is ``{app_label: {ModelName: {'fields': {...}, 'meta':
  {...}}}}`` with the model spec format of ``evo_harness`` (relation ``to``
  values are ``'Model'`` (same app), ``'label.Model'`` or ``'self'``);
* for each label a synthetic package ``vxapps.<label>`` with a ``models``
  module (and, on request, an ``evolutions`` package with ``SEQUENCE`` and
  one module with ``MUTATIONS`` per evolution label) is put into
  ``sys.modules`` and registered in Django's app registry with
  ``apps.set_installed_apps`` -- exactly what the project's own
  ``register_app`` does for its ``tests`` app;
* mutations are described as plain lists, see :func:`make_mutation`.

Every scenario cleans up after itself: scratch tables are dropped on both
database aliases, ``Version``/``Evolution``/content type rows that were added
are deleted, models and apps are unregistered.
"""

from __future__ import print_function, unicode_literals

import contextlib
import copy
import io
import itertools
import json
import os
import random
import subprocess
import sys
import time
import types
import warnings
from collections import OrderedDict
from importlib.machinery import ModuleSpec

from adapters import evo_harness as H

PKG = 'vxapps'
ALIASES = ('default', 'db_multi')

_pstate = {
    'ready': False,
    'installed': False,
    'labels': set(),
    'baseline_versions': {},     # alias -> set of Version pks
    'baseline_evolutions': {},   # alias -> set of Evolution pks
}


# ---------------------------------------------------------------------------
# Project layer
# ---------------------------------------------------------------------------

def psetup():
    """Idempotent setup of the harness plus bookkeeping for this module."""
    H.setup()

    if _pstate['ready']:
        return

    from django.db import connections
    from django_evolution.models import Evolution, Version

    if PKG not in sys.modules:
        pkg = types.ModuleType(PKG)
        pkg.__path__ = []
        pkg.__file__ = '/nonexistent/%s/__init__.py' % PKG
        pkg.__spec__ = ModuleSpec(PKG, None, is_package=True)
        sys.modules[PKG] = pkg

    for alias in ALIASES:
        tables = set(H._table_names(connections[alias]))

        if 'django_project_version' in tables:
            _pstate['baseline_versions'][alias] = set(
                Version.objects.using(alias).values_list('pk', flat=True))
            _pstate['baseline_evolutions'][alias] = set(
                Evolution.objects.using(alias).values_list('pk', flat=True))

    _pstate['ready'] = True


def _module_names(label):
    base = '%s.%s' % (PKG, label)
    return base, base + '.models', base + '.evolutions'


def app_module(label):
    """Return (creating it if needed) the synthetic models module of an app.
    """
    base, models_name, _evo = _module_names(label)

    if base not in sys.modules:
        pkg = types.ModuleType(base)
        pkg.__path__ = []
        pkg.__file__ = '/nonexistent/%s/%s/__init__.py' % (PKG, label)
        pkg.__spec__ = ModuleSpec(base, None, is_package=True)
        sys.modules[base] = pkg
        setattr(sys.modules[PKG], label, pkg)

    if models_name not in sys.modules:
        mod = types.ModuleType(models_name)
        mod.__file__ = '/nonexistent/%s/%s/models.py' % (PKG, label)
        mod.__spec__ = ModuleSpec(models_name, None)
        sys.modules[models_name] = mod
        sys.modules[base].models = mod

    return sys.modules[models_name]


def set_evolutions(label, evolutions, extra_attrs=None):
    """Install (or remove, with ``None``) the evolutions package of an app.

    Args:
        evolutions: list of ``(evolution_label, [mutation objects])``.
        extra_attrs: dict of extra module attributes per evolution label
            (e.g. ``{'two': {'AFTER_EVOLUTIONS': [...]}}``).
    """
    base, _models, evo_name = _module_names(label)
    app_module(label)

    for name in list(sys.modules):
        if name == evo_name or name.startswith(evo_name + '.'):
            del sys.modules[name]

    if hasattr(sys.modules[base], 'evolutions'):
        delattr(sys.modules[base], 'evolutions')

    if evolutions is None:
        return

    evo = types.ModuleType(evo_name)
    evo.__path__ = []
    evo.__file__ = '/nonexistent/%s/%s/evolutions/__init__.py' % (PKG, label)
    evo.__spec__ = ModuleSpec(evo_name, None, is_package=True)
    evo.SEQUENCE = [evo_label for evo_label, _m in evolutions]
    sys.modules[evo_name] = evo
    sys.modules[base].evolutions = evo

    for evo_label, mutations in evolutions:
        name = '%s.%s' % (evo_name, evo_label)
        mod = types.ModuleType(name)
        mod.__file__ = '/nonexistent/%s/%s/evolutions/%s.py' % (
            PKG, label, evo_label)
        mod.__spec__ = ModuleSpec(name, None)
        mod.MUTATIONS = list(mutations)

        for key, value in ((extra_attrs or {}).get(evo_label) or {}).items():
            setattr(mod, key, value)

        sys.modules[name] = mod
        setattr(evo, evo_label, mod)


def _purge_models(labels=None):
    """Unregister every model of the synthetic apps (and of 'tests')."""
    from django.apps import apps
    from django_evolution.compat.models import all_models
    from django_evolution.utils.models import clear_model_rel_tree

    labels = set(labels or ()) | set(_pstate['labels']) | set([H.APP_LABEL])

    for label in labels:
        all_models[label].clear()

    pending = getattr(apps, '_pending_operations', None)

    if pending:
        for key in list(pending):
            if key and key[0] in labels:
                del pending[key]

    apps.clear_cache()
    clear_model_rel_tree()


def install_apps(labels):
    """Make exactly ``labels`` (plus the settings' apps and 'tests') installed.
    """
    from django.apps import apps
    from django.apps.config import AppConfig

    psetup()
    uninstall_apps()

    configs = list(apps.get_app_configs())

    for label in labels:
        base, _models, _evo = _module_names(label)
        mod = app_module(label)
        config = AppConfig(base, sys.modules[base])
        config.label = label
        config.models_module = mod
        configs.append(config)
        _pstate['labels'].add(label)

    apps.set_installed_apps(configs)

    # populate() -> import_models() found vxapps.<label>.models itself.
    for label in labels:
        assert apps.get_app_config(label).models_module is app_module(label)

    _pstate['installed'] = True


def uninstall_apps():
    from django.apps import apps

    if _pstate['installed']:
        apps.unset_installed_apps()
        _pstate['installed'] = False
        apps.clear_cache()


def build_project(apps_spec):
    """Create model classes for an apps spec (replacing all previous ones).

    Returns:
        OrderedDict: label -> OrderedDict(model name -> class).
    """
    from django.db import models

    psetup()
    _purge_models(apps_spec.keys())

    result = OrderedDict()

    with warnings.catch_warnings():
        warnings.simplefilter('ignore')

        for label, app_spec in apps_spec.items():
            mod = app_module(label)
            _pstate['labels'].add(label)
            built = OrderedDict()

            for model_name, model_spec in (app_spec or {}).items():
                model_spec = model_spec or {}
                meta_attrs = {'app_label': label}

                for key, value in (model_spec.get('meta') or {}).items():
                    if key in ('unique_together', 'index_together'):
                        value = [tuple(item) for item in value]

                    meta_attrs[str(key)] = H._build_meta_value(models, key,
                                                               value)

                attrs = OrderedDict()
                attrs['__module__'] = mod.__name__
                attrs['Meta'] = type(str('Meta'), (object,), meta_attrs)

                for field_name, field_info in (
                        model_spec.get('fields') or {}).items():
                    type_name, kwargs = field_info[0], dict(
                        field_info[1] if len(field_info) > 1 else {})
                    field_cls = getattr(models, type_name)

                    if 'to' in kwargs:
                        to = kwargs['to']

                        if to == model_name:
                            to = 'self'
                        elif to != 'self' and '.' not in to:
                            to = '%s.%s' % (label, to)

                        kwargs['to'] = to

                        if not issubclass(field_cls, models.ManyToManyField):
                            on_delete = kwargs.get('on_delete', 'CASCADE')

                            if isinstance(on_delete, str):
                                on_delete = getattr(models, on_delete)

                            kwargs['on_delete'] = on_delete

                    attrs[str(field_name)] = field_cls(**kwargs)

                built[model_name] = type(str(model_name), (models.Model,),
                                         dict(attrs))

            result[label] = built

    return result


def project_sig_of(model_maps):
    """ProjectSignature with one AppSignature per label (as the project's
    ``create_test_project_sig`` builds them)."""
    from django_evolution.signature import (AppSignature, ModelSignature,
                                            ProjectSignature)

    project_sig = ProjectSignature()

    for label, model_map in model_maps.items():
        app_sig = AppSignature(app_id=label)
        project_sig.add_app_sig(app_sig)

        for model in model_map.values():
            app_sig.add_model_sig(ModelSignature.from_model(model))

    return project_sig


def create_tables(model_maps, database='default'):
    from django_evolution.compat.db import sql_create_models

    all_models_list = [model for model_map in model_maps.values()
                       for model in model_map.values()]

    if all_models_list:
        sql = sql_create_models(all_models_list, db_name=database)
        H._execute(sql, database, check_constraints=False)


def owned_tables(model_maps):
    """label -> {model name: [table, m2m tables...]} from the real models."""
    result = OrderedDict()

    for label, model_map in model_maps.items():
        result[label] = OrderedDict()

        for name, model in model_map.items():
            tables = [model._meta.db_table]

            for field in model._meta.local_many_to_many:
                through = field.remote_field.through

                if through is not None and through._meta.auto_created:
                    tables.append(through._meta.db_table)

            result[label][name] = tables

    return result


def insert_rows(model_maps, rows, database='default'):
    """rows: {'label.Model' or table name: [ {col: value} ]}."""
    flat = {}

    for label, model_map in model_maps.items():
        for name, model in model_map.items():
            flat['%s.%s' % (label, name)] = model

    H._insert_rows(flat, rows, database)


def pcleanup(labels=None):
    """Drop scratch tables everywhere, unregister models/apps, restore the
    version/evolution/content type tables."""
    from django.db import connections

    psetup()
    flags = {'connection_reset': False}

    try:
        _purge_models(labels)
    except Exception:
        pass

    uninstall_apps()

    labels = set(labels or ()) | set(_pstate['labels'])

    for alias in ALIASES:
        connection = connections[alias]

        if H._reset_connection(connection):
            flags['connection_reset'] = True

        H._drop_scratch_tables(connection, alias)

        if alias in _pstate['baseline_versions']:
            from django_evolution.models import Evolution, Version

            Evolution.objects.using(alias).exclude(
                pk__in=_pstate['baseline_evolutions'][alias]).delete()
            Version.objects.using(alias).exclude(
                pk__in=_pstate['baseline_versions'][alias]).delete()

        if labels:
            try:
                with connection.cursor() as cursor:
                    marks = ', '.join(['%s'] * len(labels))
                    params = sorted(labels)
                    cursor.execute(
                        'DELETE FROM auth_permission WHERE content_type_id '
                        'IN (SELECT id FROM django_content_type WHERE '
                        'app_label IN (%s))' % marks, params)
                    cursor.execute(
                        'DELETE FROM django_content_type WHERE app_label '
                        'IN (%s)' % marks, params)
            except Exception:
                pass

    try:
        from django.contrib.contenttypes.models import ContentType
        ContentType.objects.clear_cache()
    except Exception:
        pass

    for label in labels:
        set_evolutions(label, None)

    return flags


# ---------------------------------------------------------------------------
# Mutation descriptions
# ---------------------------------------------------------------------------

def make_mutation(desc):
    """Turn a plain-data mutation description into a real mutation object.

    Formats::

        ['AddField', model, field, 'IntegerField', {attrs.., 'initial': v}]
        ['ChangeField', model, field, {attrs.., 'initial': v}]
        ['DeleteField', model, field]
        ['RenameField', model, old, new, {'db_column': c, 'db_table': t}]
        ['ChangeMeta', model, prop, value]
        ['RenameModel', old, new, {'db_table': t}]
        ['DeleteModel', model]
        ['DeleteApplication']
        ['RenameAppLabel', old, new, {'legacy_app_label': l,
                                      'model_names': [...]}]
    """
    psetup()

    from django.db import models
    from django_evolution import mutations as M

    kind = desc[0]

    if kind == 'AddField':
        attrs = dict(desc[4] if len(desc) > 4 else {})
        initial = attrs.pop('initial', None)

        if isinstance(initial, list) and initial and initial[0] == 'date':
            import datetime
            initial = datetime.date(*initial[1:])

        return M.AddField(desc[1], desc[2], getattr(models, desc[3]),
                          initial=initial, **attrs)

    if kind == 'ChangeField':
        attrs = dict(desc[3] if len(desc) > 3 else {})
        initial = attrs.pop('initial', None)
        return M.ChangeField(desc[1], desc[2], initial=initial, **attrs)

    if kind == 'DeleteField':
        return M.DeleteField(desc[1], desc[2])

    if kind == 'RenameField':
        attrs = dict(desc[4] if len(desc) > 4 else {})
        return M.RenameField(desc[1], desc[2], desc[3],
                             db_column=attrs.get('db_column'),
                             db_table=attrs.get('db_table'))

    if kind == 'ChangeMeta':
        value = desc[3]

        if desc[2] in ('unique_together', 'index_together'):
            value = [tuple(item) for item in value]

        return M.ChangeMeta(desc[1], desc[2], value)

    if kind == 'RenameModel':
        attrs = dict(desc[3] if len(desc) > 3 else {})
        return M.RenameModel(desc[1], desc[2], db_table=attrs.get('db_table'))

    if kind == 'DeleteModel':
        return M.DeleteModel(desc[1])

    if kind == 'DeleteApplication':
        return M.DeleteApplication()

    if kind == 'RenameAppLabel':
        attrs = dict(desc[3] if len(desc) > 3 else {})
        return M.RenameAppLabel(desc[1], desc[2],
                                legacy_app_label=attrs.get(
                                    'legacy_app_label'),
                                model_names=attrs.get('model_names'))

    raise ValueError('Unknown mutation description %r' % (desc,))


def _error_info(e, phase, **extra):
    info = {'class': type(e).__name__, 'message': str(e)[:300],
            'phase': phase}
    info.update(extra)
    return info


REJECTIONS = ('SimulationFailure', 'EvolutionNotImplementedError',
              'CannotSimulate')


def sig_snapshot(project_sig):
    """{app_id: {Model: {'table':, 'pk_column':, 'fields': {name: {'type':,
    'related_model':, 'attrs': {...}}}}}} as plain data."""
    result = OrderedDict()

    for app_sig in project_sig.app_sigs:
        models_data = OrderedDict()

        for model_sig in app_sig.model_sigs:
            fields = OrderedDict()

            for field_sig in model_sig.field_sigs:
                fields[field_sig.field_name] = {
                    'type': field_sig.field_type.__name__,
                    'related_model': field_sig.related_model,
                    'attrs': H._plain(dict(field_sig.field_attrs)),
                }

            models_data[model_sig.model_name] = {
                'table': model_sig.table_name,
                'pk_column': model_sig.pk_column,
                'fields': fields,
            }

        result[app_sig.app_id] = models_data

    return result


def db_snapshot(database='default'):
    """Schema + rows of all scratch tables of one database."""
    schema = H.introspect_schema(database)
    rows = H.dump_rows(database)
    result = OrderedDict()

    for table, info in schema.items():
        result[table] = {
            'create_sql': info['create_sql'],
            'index_sql': list(info['index_sql']),
            'foreign_keys': [list(item) for item in info['foreign_keys']],
            'columns': [list(item) for item in info['columns']],
            'rows': [list(row) for row in rows.get(table, {}).get('rows',
                                                                   [])],
        }

    return result


# ---------------------------------------------------------------------------
# Reference tracker (the oracle's model of names, for C11)
# ---------------------------------------------------------------------------

_REL_KINDS = {'ForeignKey': 'fk', 'OneToOneField': 'o2o',
              'ManyToManyField': 'm2m'}


class Tracker(object):
    """Tracks model identities through renames/deletions.

    Every model gets a uid; relation fields store the uid of their target, so
    the expected ``related_model`` string of a surviving relation is simply
    the current ``app.Model`` name of the target uid.
    """

    def __init__(self, apps_spec):
        self.apps = OrderedDict()
        self.deleted = set()
        self.renamed_models = []   # (uid, old 'app.Model', new 'app.Model')
        uid = itertools.count(1)
        by_name = {}

        for label, app_spec in apps_spec.items():
            self.apps[label] = OrderedDict()

            for model_name, model_spec in app_spec.items():
                meta = model_spec.get('meta') or {}
                entry = {
                    'uid': next(uid),
                    'table': meta.get('db_table') or '%s_%s' % (
                        label, model_name.lower()),
                    'fields': OrderedDict(),
                }
                self.apps[label][model_name] = entry
                by_name[(label, model_name)] = entry['uid']

        for label, app_spec in apps_spec.items():
            for model_name, model_spec in app_spec.items():
                entry = self.apps[label][model_name]
                has_pk = False

                for field_name, info in (model_spec.get('fields')
                                         or {}).items():
                    type_name = info[0]
                    kwargs = info[1] if len(info) > 1 else {}
                    kind = _REL_KINDS.get(type_name, 'plain')
                    target = None

                    if kind != 'plain':
                        to = kwargs['to']

                        if to in ('self', model_name):
                            target = entry['uid']
                        elif '.' in to:
                            target = by_name[tuple(to.split('.'))]
                        else:
                            target = by_name[(label, to)]

                    if kwargs.get('primary_key'):
                        has_pk = True

                    entry['fields'][field_name] = {
                        'kind': kind,
                        'target': target,
                        'pk': bool(kwargs.get('primary_key')),
                    }

                if not has_pk:
                    fields = OrderedDict()
                    fields['id'] = {'kind': 'plain', 'target': None,
                                    'pk': True}
                    fields.update(entry['fields'])
                    entry['fields'] = fields

    def clone(self):
        return copy.deepcopy(self)

    def locate(self, uid):
        for label, models_map in self.apps.items():
            for model_name, entry in models_map.items():
                if entry['uid'] == uid:
                    return label, model_name

        return None

    def apply(self, label, desc):
        """Apply a mutation description run for app ``label``.

        Returns the label the app has afterwards.
        """
        kind = desc[0]
        models_map = self.apps.get(label)

        if kind == 'RenameModel':
            old, new = desc[1], desc[2]
            attrs = desc[3] if len(desc) > 3 else {}
            entry = models_map[old]
            entry['table'] = attrs.get('db_table')
            self.apps[label] = OrderedDict(
                (new if name == old else name, value)
                for name, value in models_map.items())
            self.renamed_models.append((entry['uid'],
                                        '%s.%s' % (label, old),
                                        '%s.%s' % (label, new)))
        elif kind == 'DeleteModel':
            self.deleted.add(models_map.pop(desc[1])['uid'])
        elif kind == 'DeleteApplication':
            for entry in models_map.values():
                self.deleted.add(entry['uid'])

            models_map.clear()
        elif kind == 'DeleteField':
            del models_map[desc[1]]['fields'][desc[2]]
        elif kind == 'RenameField':
            entry = models_map[desc[1]]
            entry['fields'] = OrderedDict(
                (desc[3] if name == desc[2] else name, value)
                for name, value in entry['fields'].items())
        elif kind == 'RenameAppLabel':
            old, new = desc[1], desc[2]
            attrs = desc[3] if len(desc) > 3 else {}
            names = attrs.get('model_names')
            source = self.apps[old]
            dest = self.apps.setdefault(new, OrderedDict())

            for name in list(source):
                if names is None or name in names:
                    entry = source.pop(name)
                    dest[name] = entry
                    self.renamed_models.append((entry['uid'],
                                                '%s.%s' % (old, name),
                                                '%s.%s' % (new, name)))

            if not source:
                del self.apps[old]

            if label == old:
                return new

        return label

    def candidates(self, label, rich=True):
        """Mutation descriptions applicable to app ``label`` right now."""
        result = []
        models_map = self.apps.get(label) or {}
        names = set(models_map)

        for model_name, entry in models_map.items():
            new_names = [model_name + 'X']

            if len(model_name) > 2:
                new_names.append(model_name[:-1])

            for i, new_name in enumerate(new_names):
                if new_name in names:
                    continue

                tables = [entry['table'],
                          '%s_%s' % (label, new_name.lower())]

                if not rich:
                    tables = [tables[(i + 1) % 2]]

                for table in tables:
                    result.append(['RenameModel', model_name, new_name,
                                   {'db_table': table}])

            result.append(['DeleteModel', model_name])

            for field_name, field in entry['fields'].items():
                if field['kind'] == 'plain' and not field['pk']:
                    continue

                if field_name == 'id':
                    continue

                result.append(['RenameField', model_name, field_name,
                               field_name + '_r', {}])

                if rich and field['kind'] in ('fk', 'o2o'):
                    result.append(['RenameField', model_name, field_name,
                                   field_name + '_k',
                                   {'db_column': field_name + '_id'}])

                if not field['pk']:
                    result.append(['DeleteField', model_name, field_name])

        if models_map:
            result.append(['DeleteApplication'])
            result.append(['RenameAppLabel', label, label + 'x', {}])

            if len(label) > 2 and label[:-1] not in self.apps:
                result.append(['RenameAppLabel', label, label[:-1], {}])

            if len(models_map) > 1:
                first = list(models_map)[0]
                last = list(models_map)[-1]
                result.append(['RenameAppLabel', label, label + 'y',
                               {'model_names': [first]}])

                if rich:
                    result.append(['RenameAppLabel', label, label + 'z',
                                   {'model_names': [last]}])

        return result


# ---------------------------------------------------------------------------
# C11
# ---------------------------------------------------------------------------

def _c(max_length=10, **kwargs):
    return ('CharField', dict({'max_length': max_length}, **kwargs))


C11_FAMILIES = OrderedDict([
    ('shop', OrderedDict([
        ('shop', OrderedDict([
            ('Item', {'fields': OrderedDict([('name', _c())])}),
            ('ItemTag', {'fields': OrderedDict([
                ('item', ('ForeignKey', {'to': 'Item'})),
                ('label', _c()),
            ])}),
            ('Order', {'fields': OrderedDict([
                ('items', ('ManyToManyField', {'to': 'Item'})),
                ('main', ('OneToOneField', {'to': 'Item', 'null': True})),
            ])}),
        ])),
        ('crm', OrderedDict([
            ('Customer', {'fields': OrderedDict([
                ('fav', ('ForeignKey', {'to': 'shop.Item', 'null': True})),
                ('tags', ('ManyToManyField', {'to': 'shop.ItemTag'})),
            ])}),
            ('Note', {'fields': OrderedDict([
                ('customer', ('ForeignKey', {'to': 'Customer'})),
                ('about', ('ForeignKey', {'to': 'shop.ItemTag',
                                          'null': True})),
            ])}),
        ])),
    ])),
    ('tree', OrderedDict([
        ('tree', OrderedDict([
            ('Node', {'fields': OrderedDict([
                ('parent', ('ForeignKey', {'to': 'self', 'null': True})),
                ('peers', ('ManyToManyField', {'to': 'self'})),
            ])}),
            ('NodeLink', {'fields': OrderedDict([
                ('src', ('ForeignKey', {'to': 'Node',
                                        'related_name': '+'})),
                ('dst', ('ForeignKey', {'to': 'Node',
                                        'related_name': '+'})),
            ])}),
        ])),
        ('treex', OrderedDict([
            ('Leaf', {'fields': OrderedDict([
                ('node', ('ForeignKey', {'to': 'tree.Node'})),
                ('link', ('OneToOneField', {'to': 'tree.NodeLink',
                                            'null': True})),
            ])}),
        ])),
    ])),
    ('lib', OrderedDict([
        ('lib', OrderedDict([
            ('Code', {'fields': OrderedDict([
                ('code', _c(8, primary_key=True)),
            ])}),
            ('Book', {'fields': OrderedDict([
                ('code', ('ForeignKey', {'to': 'Code'})),
                ('alt', ('OneToOneField', {'to': 'Code', 'null': True,
                                           'related_name': '+'})),
            ])}),
            ('Shelf', {'fields': OrderedDict([
                ('books', ('ManyToManyField', {'to': 'Book'})),
                ('codes', ('ManyToManyField', {'to': 'Code'})),
            ])}),
        ])),
        ('ext', OrderedDict([
            ('Ref', {'fields': OrderedDict([
                ('code', ('ForeignKey', {'to': 'lib.Code'})),
            ])}),
        ])),
    ])),
])


def _default_rows(model_maps):
    """Two consistent rows per model table plus one link per m2m table."""
    from django.db import models

    rows = OrderedDict()
    pks = {}

    def pk_values(model):
        pk = model._meta.pk

        if isinstance(pk, (models.AutoField, models.IntegerField)):
            return [1, 2]

        return ['k1', 'k2']

    for label, model_map in model_maps.items():
        for name, model in model_map.items():
            pks[model] = pk_values(model)

    for label, model_map in model_maps.items():
        for name, model in model_map.items():
            table_rows = []

            for i, pk_value in enumerate(pks[model]):
                row = OrderedDict()

                for field in model._meta.local_fields:
                    if field.primary_key and not field.remote_field:
                        row[field.column] = pk_value
                    elif field.remote_field:
                        target = field.remote_field.model

                        if isinstance(field, models.OneToOneField):
                            row[field.column] = pks[target][i]
                        else:
                            row[field.column] = pks[target][0]
                    elif isinstance(field, models.CharField):
                        row[field.column] = '%s%d' % (field.name[:6], i)
                    else:
                        row[field.column] = i

                table_rows.append(row)

            rows[model._meta.db_table] = table_rows

            for field in model._meta.local_many_to_many:
                through = field.remote_field.through

                if not through._meta.auto_created:
                    continue

                link = OrderedDict()

                for through_field in through._meta.local_fields:
                    if through_field.remote_field:
                        target = through_field.remote_field.model
                        # from_x / to_x of a self relation: link 1 -> 2
                        index = 1 if through_field.name.startswith('to_') \
                            else 0
                        link[through_field.column] = pks[target][index]

                rows[through._meta.db_table] = [link]

    return rows


def _group_steps(steps, mode):
    """[(app_label, legacy_label, [descs])] for a list of (label, desc)."""
    groups = []

    for label, desc in steps:
        if (mode in ('batched', 'legacy') and groups and
            groups[-1][0] == label):
            groups[-1][1].append(desc)
        else:
            groups.append((label, [desc]))

    return groups


def c11_run(family, steps, mode='separate', with_db=True):
    """Run one C11 scenario.

    Args:
        family: key of :data:`C11_FAMILIES`.
        steps: list of ``[app_label, desc]``; ``app_label`` is the label the
            app has in the stored signature when the step starts.
        mode: 'separate' (one AppMutator per mutation), 'batched' (one
            AppMutator per run of mutations of one app) or 'legacy' (as
            'batched', but the AppMutator is created the way the Evolver
            does it for an app whose label changed: ``app_label`` = the
            label after the group's RenameAppLabel mutations,
            ``legacy_app_label`` = the label before).

    Returns:
        dict with 'error', 'failures' (list of (clause, observed)), ...
    """
    from django_evolution.mutators import AppMutator

    psetup()
    apps_spec = C11_FAMILIES[family]
    result = {'error': None, 'failures': [], 'nontrivial': False}
    tracker = Tracker(apps_spec)
    pcleanup(apps_spec.keys())

    if mode == 'simulate':
        with_db = False

    try:
        with warnings.catch_warnings():
            warnings.simplefilter('ignore')
            model_maps = build_project(apps_spec)
            project_sig = project_sig_of(model_maps)
            start = sig_snapshot(project_sig)

            if with_db:
                create_tables(model_maps)
                H._insert_rows({}, _default_rows(model_maps), 'default')

            # Names as the library sees them: the label of an app changes
            # with RenameAppLabel; steps name the label at their start.
            groups = _group_steps([tuple(step) for step in steps], mode)
            executed = True

            for label, descs in groups:
                phase = 'simulate'

                try:
                    app_label = label
                    legacy_label = None

                    if mode == 'legacy':
                        for desc in descs:
                            if (desc[0] == 'RenameAppLabel' and
                                desc[1] == app_label and
                                not (desc[3] if len(desc) > 3 else {}).get(
                                    'model_names')):
                                app_label = desc[2]

                        if app_label != label:
                            legacy_label = label

                    mutations = [make_mutation(desc) for desc in descs]
                    database_state = H.scan_database_state('default')

                    if mode == 'simulate':
                        # Signature only, through the public
                        # BaseMutation.run_simulation() API (what the
                        # project's perform_simulations() tests do).
                        current_label = label

                        for mutation in mutations:
                            mutation.run_simulation(
                                app_label=current_label,
                                project_sig=project_sig,
                                database_state=database_state,
                                database='default')

                            if (hasattr(mutation, 'old_app_label') and
                                mutation.old_app_label == current_label):
                                current_label = mutation.new_app_label

                        continue_db = False
                    else:
                        app_mutator = AppMutator(
                            app_label=app_label,
                            legacy_app_label=legacy_label,
                            project_sig=project_sig,
                            database_state=database_state,
                            database='default')
                        app_mutator.run_mutations(mutations)
                        phase = 'sql'
                        sql = app_mutator.to_sql()
                        continue_db = with_db

                    if continue_db:
                        phase = 'execute'
                        H._execute(sql, 'default', check_constraints=False)
                except H._ExecuteError as e:
                    result['error'] = _error_info(e.original, phase,
                                                  group=[label, descs])
                except Exception as e:
                    result['error'] = _error_info(e, phase,
                                                  group=[label, descs])

                if result['error']:
                    break

                current = label

                for desc in descs:
                    current = tracker.apply(current, desc)

        if result['error'] is None:
            final = sig_snapshot(project_sig)
            result['final_sig'] = final
            result['failures'] += _c11_sig_clauses(tracker, final)

            if with_db:
                from django.db import connections

                H._reset_connection(connections['default'])
                result['failures'] += _c11_db_clauses(final)

            result['nontrivial'] = _c11_nontrivial(start, steps)
    finally:
        pcleanup(apps_spec.keys())

    return result


def _c11_nontrivial(start, steps):
    """A scenario exercises C11 if some relation in the start signature
    points at, or lives on, a model/app touched by one of the mutations."""
    return any(desc[0] in ('RenameModel', 'RenameAppLabel', 'RenameField',
                           'DeleteField', 'DeleteModel', 'DeleteApplication')
               for _label, desc in steps)


def _c11_sig_clauses(tracker, final):
    failures = []
    existing = set('%s.%s' % (app_id, model_name)
                   for app_id, models_map in final.items()
                   for model_name in models_map)

    # Expected name of every live model.
    for label, models_map in tracker.apps.items():
        for model_name, entry in models_map.items():
            if '%s.%s' % (label, model_name) not in existing:
                failures.append(('model-present', {
                    'missing': '%s.%s' % (label, model_name),
                    'signature_models': sorted(existing)}))

    seen_fields = set()

    for app_id, models_map in final.items():
        for model_name, model in models_map.items():
            tracked_model = (tracker.apps.get(app_id) or {}).get(model_name)

            for field_name, field in model['fields'].items():
                related = field['related_model']

                if not related:
                    continue

                tracked = None

                if tracked_model is not None:
                    tracked = tracked_model['fields'].get(field_name)

                where = '%s.%s.%s' % (app_id, model_name, field_name)

                if tracked is None or tracked['target'] is None:
                    # The oracle lost track of this field (only possible if
                    # the signature holds a model/field under a name no
                    # mutation gave it): fall back to the existence clause.
                    if related not in existing:
                        failures.append(('ref-exists', {
                            'field': where, 'related_model': related}))

                    continue

                if tracked['target'] in tracker.deleted:
                    continue

                expected = '%s.%s' % tracker.locate(tracked['target'])

                if related != expected:
                    clause = ('ref-exists' if related not in existing
                              else 'ref-target')
                    failures.append((clause, {
                        'field': where, 'related_model': related,
                        'expected': expected}))

    return failures


def _c11_db_clauses(final):
    """Database side: every FK names an existing table/column, relations of
    the final signature point at the table the signature gives for their
    target, and the rows still validate."""
    failures = []
    schema = H.introspect_schema('default')
    pk_columns = {}

    for table, info in schema.items():
        pk_columns[table] = [col[0] for col in info['columns'] if col[3]]

    for table, info in schema.items():
        for ref_table, from_col, to_col in info['foreign_keys']:
            problem = None

            if ref_table not in schema:
                problem = 'references missing table'
            elif to_col is not None and to_col not in [
                    col[0] for col in schema[ref_table]['columns']]:
                problem = 'references missing column'

            if problem:
                failures.append(('db-fk-dangling', {
                    'table': table, 'fk': [ref_table, from_col, to_col],
                    'problem': problem}))

    models_by_name = {}

    for app_id, models_map in final.items():
        for model_name, model in models_map.items():
            models_by_name['%s.%s' % (app_id, model_name)] = model

    for app_id, models_map in final.items():
        for model_name, model in models_map.items():
            for field_name, field in model['fields'].items():
                if field['type'] not in ('ForeignKey', 'OneToOneField'):
                    continue

                target = models_by_name.get(field['related_model'])

                if target is None:
                    continue

                where = '%s.%s.%s' % (app_id, model_name, field_name)
                column = field['attrs'].get('db_column') or \
                    '%s_id' % field_name

                if model['table'] not in schema:
                    failures.append(('db-table-missing', {
                        'field': where, 'table': model['table'],
                        'tables': sorted(schema)}))
                    continue

                if target['table'] not in schema:
                    failures.append(('db-table-missing', {
                        'field': where, 'table': target['table'],
                        'tables': sorted(schema)}))
                    continue

                fks = [fk for fk in schema[model['table']]['foreign_keys']
                       if fk[1] == column]
                target_pk = pk_columns[target['table']]
                ok = any(fk[0] == target['table'] and
                         (fk[2] is None or [fk[2]] == target_pk)
                         for fk in fks)

                if not ok:
                    failures.append(('db-fk-target', {
                        'field': where, 'column': column,
                        'expected': [target['table'], target_pk],
                        'foreign_keys': [list(fk) for fk in schema[
                            model['table']]['foreign_keys']]}))

    try:
        violations = H.fk_check('default')

        if violations:
            failures.append(('db-fk-validates', {
                'foreign_key_check': [list(item) for item in violations]}))
    except Exception as e:
        failures.append(('db-fk-validates', {
            'foreign_key_check_error': '%s: %s' % (type(e).__name__, e)}))

    return failures
